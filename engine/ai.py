"""E2/E3: path-sensitive abstract interpreter over MIR with finite abstractions.

Nothing is executed: the interpreter walks the MIR control-flow graph of the function under
analysis (and of callees it is told to inline) over an abstract store.

Values (hashable tuples)
  ("int", n) ("bool", b) ("chr", c) ("str", s)     concrete scalars / literals
  ("ge", k)                                         an integer >= k (saturated counter)
  ("enum", adt_path, variant_idx, fields)           ADT value (struct: variant 0)
  ("tuple", fields)                                 tuples and arrays
  ("closure", key, upvars)  ("fn", key, path)       callables
  ("ref", cell, path)                               pointer to a cell (+ projection path)
  ("sym", id)                                       unknown value with identity; may be refined by a
                                                    constraint  id -> value  held in the state
Cells: ("L", depth, local) locals of the frame at `depth`; ("X", name) external memory.
Unknown enums fork over their variants at `discriminant` reads, unknown ints/bools fork at
`switchInt`; counters saturate at CAP so every loop reaches a fixpoint.  Every sym is named by the
program point that created it (call-string + block + statement), so re-executing a loop body
produces the same names and the state space stays finite.
"""
import sys
from . import mirlib as M

CAP = 2
RESULT = "std::result::Result"
OPTION = "std::option::Option"
CFLOW = "std::ops::ControlFlow"


class Undecided(Exception):
    pass


_BODY_INFO = {}


def _place_uses(p, uses):
    if isinstance(p, int):
        uses.add(p)
    else:
        uses.add(p[0])
        for pr in p[1]:
            if isinstance(pr, list) and pr[0] == "i":
                uses.add(pr[1])


def _op_uses(o, uses):
    if "c" in o:
        _place_uses(o["c"], uses)
    elif "m" in o:
        _place_uses(o["m"], uses)


def body_info(body):
    """(join_blocks, live_in per block, borrowed locals) for a MIR body; cached by identity"""
    bi = _BODY_INFO.get(id(body))
    if bi is not None:
        return bi
    blocks = body["blocks"]
    n = len(blocks)
    preds = [0] * n
    succs = []
    for b in blocks:
        ss = M.successors(b["term"])
        succs.append(ss)
        for x in ss:
            preds[x] += 1
    joins = set(i for i in range(n) if preds[i] != 1)
    borrowed = set()
    use = [set() for _ in range(n)]
    defs = [set() for _ in range(n)]
    for i, b in enumerate(blocks):
        u, d = use[i], defs[i]

        def note_use(x):
            if x not in d:
                u.add(x)
        for s_ in b["s"]:
            if "rv" in s_:
                rv = s_["rv"]
                tmp = set()
                r = rv["r"]
                if r in ("use", "cast", "repeat"):
                    _op_uses(rv["o"], tmp)
                elif r in ("ref", "rawptr"):
                    _place_uses(rv["p"], tmp)
                    pl = rv["p"]
                    if isinstance(pl, int):
                        borrowed.add(pl)
                    elif not (pl[1] and pl[1][0] == "*"):
                        borrowed.add(pl[0])
                elif r == "discr":
                    _place_uses(rv["p"], tmp)
                elif r == "bin":
                    _op_uses(rv["a"], tmp)
                    _op_uses(rv["b"], tmp)
                elif r == "un":
                    _op_uses(rv["a"], tmp)
                elif r == "agg":
                    for o in rv["ops"]:
                        _op_uses(o, tmp)
                for x in tmp:
                    note_use(x)
                p = s_["p"]
                if isinstance(p, int):
                    d.add(p)
                else:
                    tmp2 = set()
                    _place_uses(p, tmp2)
                    for x in tmp2:
                        note_use(x)
            elif "setdiscr" in s_:
                tmp2 = set()
                _place_uses(s_["setdiscr"], tmp2)
                for x in tmp2:
                    note_use(x)
        t = b["term"]
        tmp = set()
        tt = t["t"]
        if tt == "switch":
            _op_uses(t["d"], tmp)
        elif tt in ("call", "tailcall"):
            for o in t["args"]:
                _op_uses(o, tmp)
            if t["fn"].get("via") == "indirect":
                _op_uses(t["fn"]["op"], tmp)
        elif tt == "assert":
            _op_uses(t["cond"], tmp)
        elif tt == "drop":
            _place_uses(t["p"], tmp)
        elif tt == "return":
            tmp.add(0)
        for x in tmp:
            note_use(x)
        if tt == "call":
            dp = t["dest"]
            if not isinstance(dp, int):
                tmp2 = set()
                _place_uses(dp, tmp2)
                for x in tmp2:
                    note_use(x)
    # the call destination is defined on the edge: treat as def at the start of the successor (conservative: not a def)
    live_in = [set() for _ in range(n)]
    changed = True
    while changed:
        changed = False
        for i in range(n - 1, -1, -1):
            out = set()
            for x in succs[i]:
                out |= live_in[x]
            new = use[i] | (out - defs[i])
            if new != live_in[i]:
                live_in[i] = new
                changed = True
    bi = (joins, live_in, borrowed)
    _BODY_INFO[id(body)] = bi
    return bi


# ---------------------------------------------------------------------------------------------------------------- library models
# Iterator::try_fold / fold / for_each / try_for_each with a closure whose body is available are interpreted through a small synthetic
# MIR body (a loop around Iterator::next that calls the closure), so that a rule sees `xs.iter().try_fold(init, |acc, x| ..)` exactly as
# it sees the equivalent `for x in xs { .. }`.  Only used when the rule's hooks opt in to inlining that closure.
# Second-chance mode (engine.framework): private helper functions of the analysed function's own file are interpreted in place instead of
# being treated as opaque calls.  Inlining preserves semantics, so an obligation that holds in this mode holds; it is used only to
# re-decide obligations that failed in the normal mode, so that extracting a few lines into a private helper does not raise an alarm.
INLINE_PRIVATE_HELPERS = False


def is_private_fn(fn):
    vis = fn.get("vis") or ""
    key = fn.get("key", "")
    if fn.get("kind") not in ("fn", "assoc") or key.startswith("<") and " as " in key.split(">::")[0]:
        return False
    owner = key.rsplit("::", 1)[0].lstrip("<")
    return vis is None or vis == "" or (vis.startswith("in:") and owner.startswith(vis[3:]))


FOLD_DECLS = {"std::iter::Iterator::try_fold": "try_fold", "std::iter::Iterator::fold": "fold",
              "std::iter::Iterator::for_each": "for_each", "std::iter::Iterator::try_for_each": "try_for_each"}
# adaptors that only carry a closure along (map, filter, any, ...): the closure is interpreted ONCE on a symbolic element ("probe"), so a
# rule observes what the closure body does with the captured values; the adaptor's own result stays opaque
PROBE_DECLS = {"std::iter::Iterator::map": "map", "std::iter::Iterator::filter": "filter", "std::iter::Iterator::filter_map": "filter_map",
               "std::iter::Iterator::flat_map": "flat_map", "std::iter::Iterator::any": "any", "std::iter::Iterator::all": "all",
               "std::iter::Iterator::find": "find", "std::iter::Iterator::position": "position", "std::iter::Iterator::inspect": "inspect",
               "std::iter::Iterator::take_while": "take_while", "std::iter::Iterator::skip_while": "skip_while", "std::iter::Iterator::map_while": "map_while"}
_SYNTH = {}
# combinators that apply a closure to the payload: Option::map / and_then, Result::map / and_then (the `match` they abbreviate)
PAYLOAD_DECLS = {"std::option::Option::map": ("option", "map"), "std::option::Option::and_then": ("option", "and_then"),
                 "std::result::Result::map": ("result", "map"), "std::result::Result::and_then": ("result", "and_then"),
                 # the error-side twins: `r.or_else(f)` == match r { Ok(v) => Ok(v), Err(e) => f(e) }; unwrap_or_else yields v / f(e)
                 "std::result::Result::or_else": ("result", "or_else"), "std::result::Result::unwrap_or_else": ("result", "unwrap_or_else"),
                 # `o.ok_or_else(f)` == match o { Some(v) => Ok(v), None => Err(f()) }
                 "std::option::Option::ok_or_else": ("option", "ok_or_else")}


def synth_payload_body(cr, container, kind, ckey, recv_ty):
    """locals: 0 ret | 1 receiver | 2 closure | 3 discr | 4 payload | 5 closure result | 6 residual"""
    ck = ("payload", container, kind, ckey, recv_ty, id(cr))
    if ck in _SYNTH:
        return _SYNTH[ck]
    clo = cr.fns[ckey]
    other = _other_type(cr)
    locals_ = [other] * 7
    locals_[1] = recv_ty if recv_ty is not None else other
    locals_[4] = clo["locals"][2] if len(clo["locals"]) > 2 else other
    locals_[5] = clo["locals"][0]
    meta = {"f": "<model of %s::%s>" % (container, kind), "ln": 0}
    adt = OPTION if container == "option" else RESULT
    some_vi, none_vi = (1, 0) if container == "option" else (0, 1)

    def stmt(p_, rv):
        d = {"p": p_, "rv": rv}
        d.update(meta)
        return d
    b0 = {"s": [stmt(3, {"r": "discr", "p": 1})], "term": dict({"t": "switch", "d": {"m": 3}, "cases": [[some_vi, 1], [none_vi, 3]], "else": 4, "dty": other}, **meta)}
    call = {"t": "call", "fn": {"decl": "std::ops::FnOnce::call_once", "dkey": "std::ops::FnOnce::call_once", "path": "std::ops::FnOnce::call_once", "key": "std::ops::FnOnce::call_once",
                                "via": "trait", "local": 0, "ga": []}, "args": [{"m": 2}, {"m": 4}], "dest": 5, "to": 2}
    call.update(meta)
    if kind == "ok_or_else":
        b0 = {"s": [stmt(3, {"r": "discr", "p": 1})], "term": dict({"t": "switch", "d": {"m": 3}, "cases": [[1, 3], [0, 1]], "else": 4, "dty": other}, **meta)}
        b1 = {"s": [stmt(4, {"r": "agg", "ak": "tuple", "ops": []})], "term": dict(call, args=[{"m": 2}, {"m": 4}])}
        b2 = {"s": [stmt(0, {"r": "agg", "ak": "adt", "adt": RESULT, "vi": 1, "vn": "Err", "ops": [{"m": 5}]})], "term": dict({"t": "return"}, **meta)}
        b3 = {"s": [stmt(6, {"r": "use", "o": {"m": [1, [["dc", 1, "Some"], ["f", 0, "0"]]]}}), stmt(0, {"r": "agg", "ak": "adt", "adt": RESULT, "vi": 0, "vn": "Ok", "ops": [{"m": 6}]})],
              "term": dict({"t": "return"}, **meta)}
        b4 = {"s": [], "term": dict({"t": "unreachable"}, **meta)}
        body = {"key": "model::%s_%s<%s>" % (container, kind, ckey), "path": "model::%s_%s" % (container, kind), "kind": "fn", "file": "<model>", "line": 0, "hi": 0, "vis": "",
                "argc": 2, "locals": locals_, "names": [], "blocks": [b0, b1, b2, b3, b4], "promoted": [], "closure": ckey}
        _SYNTH[ck] = body
        return body
    if kind in ("or_else", "unwrap_or_else"):
        # the closure runs on the Err payload; the Ok side passes through (or_else) / is unwrapped (unwrap_or_else)
        b0 = {"s": [stmt(3, {"r": "discr", "p": 1})], "term": dict({"t": "switch", "d": {"m": 3}, "cases": [[0, 3], [1, 1]], "else": 4, "dty": other}, **meta)}
        b1 = {"s": [stmt(4, {"r": "use", "o": {"m": [1, [["dc", 1, "Err"], ["f", 0, "0"]]]}})], "term": call}
        b2 = {"s": [stmt(0, {"r": "use", "o": {"m": 5}})], "term": dict({"t": "return"}, **meta)}
        if kind == "or_else":
            b3 = {"s": [stmt(6, {"r": "use", "o": {"m": [1, [["dc", 0, "Ok"], ["f", 0, "0"]]]}}), stmt(0, {"r": "agg", "ak": "adt", "adt": RESULT, "vi": 0, "vn": "Ok", "ops": [{"m": 6}]})],
                  "term": dict({"t": "return"}, **meta)}
        else:
            b3 = {"s": [stmt(0, {"r": "use", "o": {"m": [1, [["dc", 0, "Ok"], ["f", 0, "0"]]]}})], "term": dict({"t": "return"}, **meta)}
        b4 = {"s": [], "term": dict({"t": "unreachable"}, **meta)}
        body = {"key": "model::%s_%s<%s>" % (container, kind, ckey), "path": "model::%s_%s" % (container, kind), "kind": "fn", "file": "<model>", "line": 0, "hi": 0, "vis": "",
                "argc": 2, "locals": locals_, "names": [["payload", 4]], "blocks": [b0, b1, b2, b3, b4], "promoted": [], "closure": ckey}
        _SYNTH[ck] = body
        return body
    b1 = {"s": [stmt(4, {"r": "use", "o": {"m": [1, [["dc", some_vi, "Some" if container == "option" else "Ok"], ["f", 0, "0"]]]}})], "term": call}
    if kind == "map":
        b2 = {"s": [stmt(0, {"r": "agg", "ak": "adt", "adt": adt, "vi": some_vi, "vn": "Some", "ops": [{"m": 5}]})], "term": dict({"t": "return"}, **meta)}
    else:
        b2 = {"s": [stmt(0, {"r": "use", "o": {"m": 5}})], "term": dict({"t": "return"}, **meta)}
    if container == "option":
        b3 = {"s": [stmt(0, {"r": "agg", "ak": "adt", "adt": adt, "vi": 0, "vn": "None", "ops": []})], "term": dict({"t": "return"}, **meta)}
    else:
        b3 = {"s": [stmt(6, {"r": "use", "o": {"m": [1, [["dc", 1, "Err"], ["f", 0, "0"]]]}}), stmt(0, {"r": "agg", "ak": "adt", "adt": adt, "vi": 1, "vn": "Err", "ops": [{"m": 6}]})],
              "term": dict({"t": "return"}, **meta)}
    b4 = {"s": [], "term": dict({"t": "unreachable"}, **meta)}
    body = {"key": "model::%s_%s<%s>" % (container, kind, ckey), "path": "model::%s_%s" % (container, kind), "kind": "fn", "file": "<model>", "line": 0, "hi": 0, "vis": "",
            "argc": 2, "locals": locals_, "names": [["payload", 4]], "blocks": [b0, b1, b2, b3, b4], "promoted": [], "closure": ckey}
    _SYNTH[ck] = body
    return body


def synth_probe_body(cr, kind, ckey):
    """locals: 0 ret | 1 iter | 2 closure | 3 &mut closure | 4 symbolic element | 5 closure result"""
    ck = ("probe", kind, ckey, id(cr))
    if ck in _SYNTH:
        return _SYNTH[ck]
    clo = cr.fns[ckey]
    other = _other_type(cr)
    locals_ = [other] * 6
    locals_[4] = clo["locals"][2] if len(clo["locals"]) > 2 else other
    locals_[5] = clo["locals"][0]
    meta = {"f": "<model of Iterator::%s>" % kind, "ln": 0}

    def call(decl, args, dest, to, via):
        t = {"t": "call", "fn": {"decl": decl, "dkey": decl, "path": decl, "key": decl, "via": via, "local": 0, "ga": []}, "args": args, "dest": dest, "to": to}
        t.update(meta)
        return t
    b0 = {"s": [dict({"p": 3, "rv": {"r": "ref", "m": 1, "p": 2}}, **meta)], "term": call("std::ops::FnMut::call_mut", [{"m": 3}, {"c": 4}], 5, 1, "trait")}
    b1 = {"s": [], "term": call("model::opaque", [{"c": 1}], 0, 2, "direct")}
    b2 = {"s": [], "term": dict({"t": "return"}, **meta)}
    body = {"key": "model::%s<%s>" % (kind, ckey), "path": "model::%s" % kind, "kind": "fn", "file": "<model>", "line": 0, "hi": 0, "vis": "", "argc": 2,
            "locals": locals_, "names": [["item", 4]], "blocks": [b0, b1, b2], "promoted": [], "closure": ckey}
    _SYNTH[ck] = body
    return body


# ---------------------------------------------------------------------------------------------------------------------------------
# Lazy adaptor chains (`xs.iter().map(f).chain(ys.iter().map(g)).collect()`) as the loops they abbreviate.  Opt-in (hooks.lazy_pipes):
# map / filter / filter_map / inspect / chain build a PIPE value that remembers its source iterator(s) and closure; Iterator::next on a
# pipe runs a synthetic body (next on the source, then the closure); collect / extend on a pipe run `loop { match next { Some(x) =>
# push(x), None => break } }`.  A rule that watches `next` on a source and `Vec::push` therefore sees the same events for a `for` loop
# and for the adaptor chain.
PIPE = ("str", "__pipe__")
PIPE_DECLS = {"std::iter::Iterator::map": "map", "std::iter::Iterator::filter": "filter", "std::iter::Iterator::filter_map": "filter_map",
              "std::iter::Iterator::inspect": "inspect", "std::iter::Iterator::chain": "chain"}
PIPE_IDENTITY = ("std::iter::Iterator::copied", "std::iter::Iterator::cloned", "std::iter::Iterator::fuse", "std::iter::Iterator::by_ref",
                 "std::iter::IntoIterator::into_iter")


def is_pipe(v):
    return isinstance(v, tuple) and v and v[0] == "tuple" and len(v[1]) == 4 and v[1][0] == PIPE


def _bool_type(cr):
    for i, t in enumerate(cr.types):
        if t.get("n") == "bool":
            return i
    return _other_type(cr)


def _mcall(meta, decl, args, dest, to, via="trait", path=None):
    t = {"t": "call", "fn": {"decl": decl, "dkey": decl, "path": path or decl, "key": path or decl, "via": via, "local": 0, "ga": []}, "args": args, "dest": dest, "to": to}
    t.update(meta)
    return t


def synth_pipe_next_body(cr, kind, ckey):
    """locals: 0 ret | 1 &mut pipe | 2 source | 3 &mut source | 4 next() result | 5 discr | 6 element | 7 closure (chain: second source) |
    8 &mut closure | 9 closure result | 10 &element | 11 discr"""
    ck = ("pipe_next", kind, ckey, id(cr))
    if ck in _SYNTH:
        return _SYNTH[ck]
    other = _other_type(cr)
    locals_ = [other] * 12
    clo = cr.fns.get(ckey) if ckey else None
    if clo is not None:
        locals_[9] = clo["locals"][0]
    meta = {"f": "<model of %s::next>" % kind, "ln": 0}

    def stmt(p_, rv):
        d = {"p": p_, "rv": rv}
        d.update(meta)
        return d
    ret = dict({"t": "return"}, **meta)
    some = lambda local: {"r": "agg", "ak": "adt", "adt": OPTION, "vi": 1, "vn": "Some", "ops": [{"m": local}]}
    none = {"r": "agg", "ak": "adt", "adt": OPTION, "vi": 0, "vn": "None", "ops": []}
    NEXT = "std::iter::Iterator::next"
    b0 = {"s": [stmt(3, {"r": "ref", "m": 1, "p": 2})], "term": _mcall(meta, NEXT, [{"c": 3}], 4, 1)}
    b1 = {"s": [stmt(5, {"r": "discr", "p": 4})], "term": dict({"t": "switch", "d": {"m": 5}, "cases": [[0, 2], [1, 3]], "else": 7, "dty": other}, **meta)}
    unreachable = {"s": [], "term": dict({"t": "unreachable"}, **meta)}
    take = stmt(6, {"r": "use", "o": {"m": [4, [["dc", 1, "Some"], ["f", 0, "0"]]]}})
    if kind == "chain":
        # exhausted first half: continue with the second
        b2 = {"s": [stmt(8, {"r": "ref", "m": 1, "p": 7})], "term": _mcall(meta, NEXT, [{"c": 8}], 0, 4)}
        b3 = {"s": [stmt(0, {"r": "use", "o": {"m": 4}})], "term": ret}
        blocks = [b0, b1, b2, b3, {"s": [], "term": ret}, unreachable, unreachable, unreachable]
    else:
        b2 = {"s": [stmt(0, none)], "term": ret}
        if kind == "map":
            b3 = {"s": [take, stmt(8, {"r": "ref", "m": 1, "p": 7})], "term": _mcall(meta, "std::ops::FnMut::call_mut", [{"m": 8}, {"m": 6}], 9, 4)}
            b4 = {"s": [stmt(0, some(9))], "term": ret}
            blocks = [b0, b1, b2, b3, b4, unreachable, unreachable, unreachable]
        elif kind == "filter_map":
            b3 = {"s": [take, stmt(8, {"r": "ref", "m": 1, "p": 7})], "term": _mcall(meta, "std::ops::FnMut::call_mut", [{"m": 8}, {"m": 6}], 9, 4)}
            b4 = {"s": [stmt(11, {"r": "discr", "p": 9})], "term": dict({"t": "switch", "d": {"m": 11}, "cases": [[0, 0], [1, 5]], "else": 7, "dty": other}, **meta)}
            b5 = {"s": [stmt(0, {"r": "use", "o": {"m": 9}})], "term": ret}
            blocks = [b0, b1, b2, b3, b4, b5, unreachable, unreachable]
        elif kind == "filter":
            b3 = {"s": [take, stmt(8, {"r": "ref", "m": 1, "p": 7}), stmt(10, {"r": "ref", "m": 0, "p": 6})],
                  "term": _mcall(meta, "std::ops::FnMut::call_mut", [{"m": 8}, {"c": 10}], 9, 4)}
            b4 = {"s": [], "term": dict({"t": "switch", "d": {"m": 9}, "cases": [[0, 0]], "else": 5, "dty": _bool_type(cr)}, **meta)}
            b5 = {"s": [stmt(0, some(6))], "term": ret}
            blocks = [b0, b1, b2, b3, b4, b5, unreachable, unreachable]
        else:       # inspect
            b3 = {"s": [take, stmt(8, {"r": "ref", "m": 1, "p": 7}), stmt(10, {"r": "ref", "m": 0, "p": 6})],
                  "term": _mcall(meta, "std::ops::FnMut::call_mut", [{"m": 8}, {"c": 10}], 9, 4)}
            b4 = {"s": [stmt(0, some(6))], "term": ret}
            blocks = [b0, b1, b2, b3, b4, unreachable, unreachable, unreachable]
    body = {"key": "model::pipe_next_%s<%s>" % (kind, ckey or ""), "path": "model::pipe_next_%s" % kind, "kind": "fn", "file": "<model>", "line": 0, "hi": 0, "vis": "",
            "argc": 1, "locals": locals_, "names": [["item", 6]], "blocks": blocks, "promoted": [], "closure": ckey}
    _SYNTH[ck] = body
    return body


def synth_pipe_drain_body(cr, kind, into_vec):
    """collect(pipe) / extend(&mut v, pipe) as the loop they abbreviate.
    locals: 0 ret | 1 pipe | 2 &mut pipe | 3 next() result | 4 discr | 5 element | 6 collection (collect) / &mut collection (extend) |
    7 &mut collection | 8 unit"""
    ck = ("pipe_drain", kind, into_vec, id(cr))
    if ck in _SYNTH:
        return _SYNTH[ck]
    other = _other_type(cr)
    locals_ = [other] * 9
    meta = {"f": "<model of %s over an adaptor chain>" % kind, "ln": 0}

    def stmt(p_, rv):
        d = {"p": p_, "rv": rv}
        d.update(meta)
        return d
    ret = dict({"t": "return"}, **meta)
    push = "std::vec::Vec::push" if into_vec else "model::collect_item"
    if kind == "collect":
        b0 = {"s": [], "term": _mcall(meta, "model::opaque", [], 6, 1, via="direct")}
        target = [stmt(7, {"r": "ref", "m": 1, "p": 6})]
        done = {"s": [stmt(0, {"r": "use", "o": {"m": 6}})], "term": ret}
    else:
        b0 = {"s": [], "term": dict({"t": "goto", "to": 1}, **meta)}
        target = [stmt(7, {"r": "use", "o": {"c": 6}})]
        done = {"s": [stmt(0, {"r": "agg", "ak": "tuple", "ops": []})], "term": ret}
    b1 = {"s": [stmt(2, {"r": "ref", "m": 1, "p": 1})], "term": _mcall(meta, "std::iter::Iterator::next", [{"c": 2}], 3, 2)}
    b2 = {"s": [stmt(4, {"r": "discr", "p": 3})], "term": dict({"t": "switch", "d": {"m": 4}, "cases": [[0, 3], [1, 4]], "else": 5, "dty": other}, **meta)}
    b4 = {"s": [stmt(5, {"r": "use", "o": {"m": [3, [["dc", 1, "Some"], ["f", 0, "0"]]]}})] + target, "term": _mcall(meta, push, [{"c": 7}, {"m": 5}], 8, 1, via="direct")}
    b5 = {"s": [], "term": dict({"t": "unreachable"}, **meta)}
    body = {"key": "model::pipe_%s" % kind, "path": "model::pipe_%s" % kind, "kind": "fn", "file": "<model>", "line": 0, "hi": 0, "vis": "",
            "argc": 1 if kind == "collect" else 2, "locals": locals_, "names": [["item", 5]], "blocks": [b0, b1, b2, done, b4, b5], "promoted": []}
    _SYNTH[ck] = body
    return body


def synth_pipe_collect_result_body(cr, item_ty):
    """`pipe.collect::<Result<Vec<T>, E>>()`: push the Ok payloads, return the first Err.
    locals: 0 ret | 1 pipe | 2 &mut pipe | 3 next() result | 4 discr | 5 element (a Result) | 6 collection | 7 &mut collection | 8 unit |
    9 ControlFlow | 10 discr | 11 payload | 12 residual"""
    ck = ("pipe_collect_result", item_ty, id(cr))
    if ck in _SYNTH:
        return _SYNTH[ck]
    other = _other_type(cr)
    locals_ = [other] * 13
    locals_[5] = item_ty
    meta = {"f": "<model of collect::<Result<Vec<_>, _>> over an adaptor chain>", "ln": 0}

    def stmt(p_, rv):
        d = {"p": p_, "rv": rv}
        d.update(meta)
        return d
    ret = dict({"t": "return"}, **meta)
    b0 = {"s": [], "term": _mcall(meta, "model::opaque", [], 6, 1, via="direct")}
    b1 = {"s": [stmt(2, {"r": "ref", "m": 1, "p": 1})], "term": _mcall(meta, "std::iter::Iterator::next", [{"c": 2}], 3, 2)}
    b2 = {"s": [stmt(4, {"r": "discr", "p": 3})], "term": dict({"t": "switch", "d": {"m": 4}, "cases": [[0, 3], [1, 4]], "else": 5, "dty": other}, **meta)}
    b3 = {"s": [stmt(0, {"r": "agg", "ak": "adt", "adt": RESULT, "vi": 0, "vn": "Ok", "ops": [{"m": 6}]})], "term": ret}
    b4 = {"s": [stmt(5, {"r": "use", "o": {"m": [3, [["dc", 1, "Some"], ["f", 0, "0"]]]}})], "term": _mcall(meta, "std::ops::Try::branch", [{"m": 5}], 9, 6)}
    b5 = {"s": [], "term": dict({"t": "unreachable"}, **meta)}
    b6 = {"s": [stmt(10, {"r": "discr", "p": 9})], "term": dict({"t": "switch", "d": {"m": 10}, "cases": [[0, 7], [1, 8]], "else": 5, "dty": other}, **meta)}
    b7 = {"s": [stmt(11, {"r": "use", "o": {"m": [9, [["dc", 0, "Continue"], ["f", 0, "0"]]]}}), stmt(7, {"r": "ref", "m": 1, "p": 6})],
          "term": _mcall(meta, "std::vec::Vec::push", [{"c": 7}, {"m": 11}], 8, 1, via="direct")}
    b8 = {"s": [stmt(12, {"r": "use", "o": {"m": [9, [["dc", 1, "Break"], ["f", 0, "0"]]]}})],
          "term": _mcall(meta, "std::ops::FromResidual::from_residual", [{"m": 12}], 0, 9)}
    b9 = {"s": [], "term": ret}
    body = {"key": "model::pipe_collect_result", "path": "model::pipe_collect_result", "kind": "fn", "file": "<model>", "line": 0, "hi": 0, "vis": "",
            "argc": 1, "locals": locals_, "names": [["item", 5]], "blocks": [b0, b1, b2, b3, b4, b5, b6, b7, b8, b9], "promoted": []}
    _SYNTH[ck] = body
    return body


def _other_type(cr):
    for i, t in enumerate(cr.types):
        if t["k"] == "other":
            return i
    cr.types.append({"k": "other", "s": "?"})
    return len(cr.types) - 1


def _option_of(cr, idx):
    for i, t in enumerate(cr.types):
        if t["k"] == "adt" and t.get("p") == OPTION and t.get("a") == [idx]:
            return i
    cr.types.append({"k": "adt", "p": OPTION, "a": [idx], "s": "std::option::Option<%s>" % cr.ty_str(idx)})
    return len(cr.types) - 1


def synth_fold_body(cr, kind, ckey, ret_kind, iter_is_ref):
    """locals: 0 ret | 1 iter | 2 init (fold kinds) / closure | 3 closure | 4 acc | 5 next() result | 6 discr | 7 item | 8 &mut closure |
    9 (acc, item) | 10 closure result | 11 ControlFlow | 12 discr | 13 residual | 14 &mut iter"""
    ck = (kind, ckey, ret_kind, iter_is_ref, id(cr))
    if ck in _SYNTH:
        return _SYNTH[ck]
    clo = cr.fns[ckey]
    other = _other_type(cr)
    has_acc = kind in ("try_fold", "fold")
    trying = kind in ("try_fold", "try_for_each")
    item_ty = clo["locals"][3] if has_acc and len(clo["locals"]) > 3 else (clo["locals"][2] if len(clo["locals"]) > 2 else other)
    locals_ = [other] * 15
    locals_[5] = _option_of(cr, item_ty)
    locals_[7] = item_ty
    locals_[10] = clo["locals"][0]
    f_local = 3 if has_acc else 2
    meta = {"f": "<model of Iterator::%s>" % kind, "ln": 0}

    def call(decl, path, args, dest, to, via="trait", key=None):
        t = {"t": "call", "fn": {"decl": decl, "dkey": decl, "path": path, "key": key or path, "via": via, "local": 0, "ga": []}, "args": args, "dest": dest, "to": to}
        t.update(meta)
        return t

    def stmt(p_, rv):
        d = {"p": p_, "rv": rv}
        d.update(meta)
        return d
    blocks = []
    # bb0: acc = init
    b0 = [stmt(4, {"r": "use", "o": {"m": 2}})] if has_acc else [stmt(4, {"r": "agg", "ak": "tuple", "ops": []})]
    if not iter_is_ref:
        b0.append(stmt(14, {"r": "ref", "m": 1, "p": 1}))
    blocks.append({"s": b0, "term": dict({"t": "goto", "to": 1}, **meta)})
    # bb1: next
    blocks.append({"s": [], "term": call("std::iter::Iterator::next", "std::iter::Iterator::next", [{"c": 1} if iter_is_ref else {"c": 14}], 5, 2)})
    # bb2: switch on Some/None
    blocks.append({"s": [stmt(6, {"r": "discr", "p": 5})], "term": dict({"t": "switch", "d": {"m": 6}, "cases": [[0, 3], [1, 4]], "else": 9, "dty": other}, **meta)})
    # bb3: exhausted -> from_output(acc)
    blocks.append({"s": [], "term": call("model::from_output", "model::from_output", [{"m": 4}], 0, 8, via="direct")})
    # bb4: call the closure
    args_op = [{"m": 8}, {"m": 9}]
    pre = [stmt(7, {"r": "use", "o": {"m": [5, [["dc", 1, "Some"], ["f", 0, "0"]]]}}), stmt(8, {"r": "ref", "m": 1, "p": f_local})]
    if has_acc:
        pre.append(stmt(9, {"r": "agg", "ak": "tuple", "ops": [{"m": 4}, {"m": 7}]}))
    else:
        pre.append(stmt(9, {"r": "use", "o": {"m": 7}}))        # one parameter: passed as it is (the interpreter untuples only when needed)
    blocks.append({"s": pre, "term": call("std::ops::FnMut::call_mut", "std::ops::FnMut::call_mut", args_op, 10, 5)})
    if trying:
        # bb5: branch on the closure's result
        blocks.append({"s": [], "term": call("std::ops::Try::branch", "std::ops::Try::branch", [{"m": 10}], 11, 6)})
        blocks.append({"s": [stmt(12, {"r": "discr", "p": 11})], "term": dict({"t": "switch", "d": {"m": 12}, "cases": [[0, 7], [1, 10]], "else": 9, "dty": other}, **meta)})
        # bb7: continue with the new accumulator
        blocks.append({"s": [stmt(4, {"r": "use", "o": {"m": [11, [["dc", 0, "Continue"], ["f", 0, "0"]]]}})], "term": dict({"t": "goto", "to": 1}, **meta)})
    else:
        blocks.append({"s": [stmt(4, {"r": "use", "o": {"m": 10}})] if has_acc else [], "term": dict({"t": "goto", "to": 1}, **meta)})
        blocks.append({"s": [], "term": dict({"t": "goto", "to": 1}, **meta)})
        blocks.append({"s": [], "term": dict({"t": "goto", "to": 1}, **meta)})
    # bb8: return
    blocks.append({"s": [], "term": dict({"t": "return"}, **meta)})
    # bb9: unreachable
    blocks.append({"s": [], "term": dict({"t": "unreachable"}, **meta)})
    # bb10: break -> from_residual
    blocks.append({"s": [stmt(13, {"r": "use", "o": {"m": [11, [["dc", 1, "Break"], ["f", 0, "0"]]]}})],
                   "term": call("std::ops::FromResidual::from_residual", "std::ops::FromResidual::from_residual", [{"m": 13}], 0, 8)})
    body = {"key": "model::%s<%s>" % (kind, ckey), "path": "model::%s" % kind, "kind": "fn", "file": "<model>", "line": 0, "hi": 0, "vis": "", "argc": 3 if has_acc else 2,
            "locals": locals_, "names": [["acc", 4], ["item", 7]], "blocks": blocks, "promoted": [], "ret_kind": ret_kind, "closure": ckey}
    _SYNTH[ck] = body
    return body


class Frame:
    __slots__ = ("fkey", "body", "bb", "locals", "ret_place", "ret_to", "prefix", "depth", "promoted_of", "post")

    def __init__(self, fkey, body, prefix, depth):
        self.fkey = fkey
        self.body = body
        self.bb = 0
        self.locals = {}
        self.ret_place = None
        self.ret_to = None
        self.prefix = prefix
        self.depth = depth
        self.promoted_of = None
        self.post = None

    def clone(self):
        f = Frame(self.fkey, self.body, self.prefix, self.depth)
        f.bb = self.bb
        f.locals = dict(self.locals)
        f.ret_place = self.ret_place
        f.ret_to = self.ret_to
        f.promoted_of = self.promoted_of
        f.post = self.post
        return f


class State:
    __slots__ = ("frames", "ext", "cons", "mon", "trace")

    def __init__(self):
        self.frames = []
        self.ext = {}
        self.cons = {}
        self.mon = None
        self.trace = ()

    def clone(self):
        s = State()
        s.frames = [f.clone() for f in self.frames]
        s.ext = dict(self.ext)
        s.cons = dict(self.cons)
        s.mon = self.mon
        s.trace = self.trace
        return s

    @property
    def top(self):
        return self.frames[-1]

    def key(self):
        fr = tuple((f.fkey, f.bb, tuple(sorted(f.locals.items())), f.ret_to, f.post) for f in self.frames)
        return (fr, tuple(sorted(self.ext.items())), tuple(sorted(self.cons.items())), self.mon)


class Hooks:
    """Rule plug-in.  Override what is needed."""

    def call(self, ai, st, term, callee, args):
        """Return None (default handling) or a list of (result_value, new_mon) alternatives.
        A result_value of ai.DIVERGE ends the path."""
        return None

    def inline(self, ai, st, callee_key, fn):
        return False

    def ret(self, ai, st, value):
        """Outermost return."""
        pass

    def assert_fail(self, ai, st, term):
        pass

    def stmt(self, ai, st, frame, stmt):
        pass

    def on_assert(self, ai, st, term, cond):
        """called for every assert terminator with the resolved condition value"""
        pass

    def constrained(self, ai, st, sid, val):
        """a fork refined the unknown `sid` to `val` (switchInt / discriminant); may update st.mon"""
        pass


class AI:
    DIVERGE = ("diverge",)

    def __init__(self, cr, hooks, max_states=400000, max_depth=6):
        self.cr = cr
        self.hooks = hooks
        self.max_states = max_states
        self.max_depth = max_depth
        self.violations = []
        self.returns = []       # (value, mon, trace) at outermost returns
        self.n_states = 0
        self.n_transitions = 0
        self.notes = []
        self.blocks_seen = set()
        self.pinned = ()        # sym ids whose refinements are never garbage-collected
        self.deps = {}          # result sym of an opaque call -> sym ids its arguments mention (may-depend, per call site)

    # ------------------------------------------------------------------ values
    def resolve(self, st, v):
        n = 0
        while v[0] == "sym" and v[1] in st.cons and n < 50:
            v = st.cons[v[1]]
            n += 1
        return v

    def deep(self, st, v, depth=0):
        """resolve recursively (for reporting / monitors)"""
        v = self.resolve(st, v)
        if depth > 6:
            return v
        if v[0] == "enum":
            return ("enum", v[1], v[2], tuple(self.deep(st, x, depth + 1) for x in v[3]))
        if v[0] == "tuple":
            return ("tuple", tuple(self.deep(st, x, depth + 1) for x in v[1]))
        return v

    def sym(self, st, name):
        # (re)creating a sym at a site forgets any refinement of the previous incarnation
        for k in [k for k in st.cons if name in k]:
            del st.cons[k]
        return ("sym", name)

    def site(self, st, extra=""):
        f = st.top
        return "%s%s:%d%s" % (f.prefix, short(f.fkey), f.bb, extra)

    # ------------------------------------------------------------------ cells
    def get_cell(self, st, cell):
        if cell[0] == "L":
            fr = st.frames[cell[1]]
            v = fr.locals.get(cell[2])
            if v is None:
                v = ("sym", "%suninit:%s:%d" % (fr.prefix, short(fr.fkey), cell[2]))
            return v
        v = st.ext.get(cell[1])
        if v is None:
            if cell[1].startswith("str:"):
                return ("str", cell[1][4:])      # string literals are their own (constant) pointee
            v = ("sym", cell[1] + "*")
        return v

    def set_cell(self, st, cell, v):
        if cell[0] == "L":
            st.frames[cell[1]].locals[cell[2]] = v
        else:
            st.ext[cell[1]] = v

    def project(self, st, v, pr):
        v = self.resolve(st, v)
        k = pr[0]
        if k == "f":
            i = pr[1]
            if v[0] == "enum":
                return v[3][i] if i < len(v[3]) else ("sym", "badfield")
            if v[0] == "tuple":
                return v[1][i] if i < len(v[1]) else ("sym", "badfield")
            if v[0] == "closure":
                return v[2][i] if i < len(v[2]) else ("sym", "badfield")
            if v[0] == "sym":
                return ("sym", "%s.%d" % (v[1], i))
            if v[0] == "rec":
                for fi, fv in v[2]:
                    if fi == i:
                        return fv
                return ("sym", "%s.%d" % (v[1], i))
            return ("sym", "proj?%s.%d" % (v[0], i))
        if k == "dc":
            if v[0] == "enum":
                if v[2] == pr[1]:
                    return v
                return ("sym", "wrongvariant")
            if v[0] == "sym":
                return ("sym", "%s@%d" % (v[1], pr[1]))
            return v
        if k == "idx":
            if v[0] == "tuple" and pr[1] is not None and pr[1] < len(v[1]):
                return v[1][pr[1]]
            if v[0] == "sym":
                return ("sym", v[1] + "[]")
            return ("sym", "elem?")
        return v

    def proj_norm(self, pr):
        if pr == "*":
            return ("*",)
        if pr[0] == "f":
            return ("f", pr[1])
        if pr[0] == "dc":
            return ("dc", pr[1])
        if pr[0] == "ci":
            return ("idx", pr[1] if not pr[2] else None)
        return ("idx", None)

    def locate(self, st, frame, place):
        """place -> (cell, path) after resolving a leading deref."""
        local = M.place_local(place)
        projs = [self.proj_norm(p) for p in M.place_projs(place)]
        cell = ("L", frame.depth, local)
        path = ()
        i = 0
        while i < len(projs):
            p = projs[i]
            if p[0] == "*":
                # value at (cell,path) must be a pointer
                v = self.read_at(st, cell, path)
                v = self.resolve(st, v)
                if v[0] == "ref":
                    cell, path = v[1], v[2]
                elif v[0] == "sym":
                    cell, path = ("X", v[1]), ()
                elif v[0] == "str":
                    cname = "str:" + v[1]
                    cell, path = ("X", cname), ()
                elif v[0] == "enum" and v[3]:
                    # Box/Rc-like wrappers built concretely: treat first field as the pointee holder
                    cell, path = ("X", "box:" + repr(v)[:60]), ()
                else:
                    cell, path = ("X", "ptr?" + repr(v)[:40]), ()
            else:
                path = path + (p,)
            i += 1
        return cell, path

    def read_at(self, st, cell, path):
        v = self.get_cell(st, cell)
        for p in path:
            v = self.project(st, v, p)
        return v

    def read_place(self, st, frame, place):
        cell, path = self.locate(st, frame, place)
        return self.read_at(st, cell, path)

    @staticmethod
    def _havoc(root):
        if root[0] == "sym":
            return root if root[1].startswith("havoc:") else ("sym", "havoc:" + root[1])
        return ("sym", "havoc:w")

    def write_into(self, st, root, path, newv, ty):
        """functional update of `root` at `path`."""
        if not path:
            return newv
        root = self.resolve(st, root)
        p = path[0]
        if p[0] == "f":
            i = p[1]
            if root[0] == "enum":
                fs = list(root[3])
                if i < len(fs):
                    fs[i] = self.write_into(st, fs[i], path[1:], newv, None)
                    return ("enum", root[1], root[2], tuple(fs))
            if root[0] == "tuple":
                fs = list(root[1])
                if i < len(fs):
                    fs[i] = self.write_into(st, fs[i], path[1:], newv, None)
                    return ("tuple", tuple(fs))
            if root[0] == "closure":
                fs = list(root[2])
                if i < len(fs):
                    fs[i] = self.write_into(st, fs[i], path[1:], newv, None)
                    return ("closure", root[1], tuple(fs))
            if root[0] == "sym" and ty is not None:
                exp = self.expand_sym(root, ty, None)
                if exp is not None:
                    return self.write_into(st, exp, path, newv, None)
            if root[0] in ("sym", "rec"):
                # struct of unknown layout: remember the overridden fields over the unknown base
                base = root[1]
                fields = dict(root[2]) if root[0] == "rec" else {}
                old = fields.get(i, ("sym", "%s.%d" % (base, i)))
                fields[i] = self.write_into(st, old, path[1:], newv, None)
                return ("rec", base, tuple(sorted(fields.items())))
            return self._havoc(root)
        if p[0] == "dc":
            if root[0] == "enum" and root[2] == p[1]:
                return self.write_into(st, root, path[1:], newv, None)
            if root[0] == "sym" and ty is not None:
                exp = self.expand_sym(root, ty, p[1])
                if exp is not None:
                    return self.write_into(st, exp, path[1:], newv, None)
            return self._havoc(root)
        # index writes: weak
        return self._havoc(root)

    def expand_sym(self, symv, ty, variant):
        """sym of struct/tuple/enum-variant type -> structured value with derived field syms."""
        t = ty.t
        sid = symv[1]
        if t["k"] == "tuple":
            return ("tuple", tuple(("sym", "%s.%d" % (sid, i)) for i in range(len(t["e"]))))
        a = ty.adt()
        if a is None:
            return None
        if a["kind"] == "struct" and a["variants"] and (a["local"] or a["variants"][0]["fields"]):
            n = len(a["variants"][0]["fields"])
            return ("enum", a["path"], 0, tuple(("sym", "%s.%d" % (sid, i)) for i in range(n)))
        if a["kind"] == "enum" and variant is not None:
            n = len(a["variants"][variant]["fields"])
            return ("enum", a["path"], variant, tuple(("sym", "%s@%d.%d" % (sid, variant, i)) for i in range(n)))
        return None

    def write_place(self, st, frame, place, v):
        cell, path = self.locate(st, frame, place)
        if not path:
            self.set_cell(st, cell, v)
            return
        root = self.get_cell(st, cell)
        ty = None
        if cell[0] == "L":
            fr = st.frames[cell[1]]
            try:
                ty = M.Ty(self.cr, fr.body["locals"][cell[2]])
            except Exception:
                ty = None
        self.set_cell(st, cell, self.write_into(st, root, path, v, ty))

    # ------------------------------------------------------------------ operands
    def const_val(self, st, frame, k):
        ty = M.Ty(self.cr, k["ty"])
        t = ty.t
        if "promoted" in k:
            return self.eval_promoted(st, frame, k["promoted"])
        if t["k"] == "fndef":
            return ("fn", t["key"], M.norm_path(t["p"]))
        if t["k"] == "closure":
            return ("closure", t["key"], ())
        if "str" in k:
            return ("str", k["str"])
        if "pbytes" in k and t["k"] == "ref":
            # `&Status::PASS` as a constant pointer: one byte holding the discriminant of a field-less enum
            inner = ty.strip_refs()
            a = inner.adt() if inner is not None else None
            if a and a["kind"] == "enum" and all(not var["fields"] for var in a["variants"]) and len(k["pbytes"]) == 2:
                try:
                    d = int(k["pbytes"], 16)
                except ValueError:
                    d = None
                for vi, var in enumerate(a["variants"]):
                    if var["discr"] == d:
                        cname = "constptr:%s:%d" % (a["path"], vi)
                        st.ext[cname] = ("enum", a["path"], vi, ())
                        return ("ref", ("X", cname), ())
        if "pbytes" in k:
            tpl = M.fmt_template(k["pbytes"])
            if tpl is not None:
                return ("ref", ("X", "str:" + tpl), ())
        if "v" in k:
            v = k["v"]
            if t["k"] == "prim":
                if t["n"] == "bool":
                    return ("bool", bool(v))
                if t["n"] == "char":
                    return ("chr", v)
                if isinstance(v, str):
                    return ("flt", v)
                return ("int", v)
            a = ty.adt()
            if a and a["kind"] == "enum" and isinstance(v, int):
                for vi, var in enumerate(a["variants"]):
                    if var["discr"] == v and not var["fields"]:
                        return ("enum", a["path"], vi, ())
            return ("int", v) if isinstance(v, int) else ("sym", "const:" + str(v))
        if "zst" in k:
            a = ty.adt()
            if a and len(a["variants"]) == 1:
                return ("enum", a["path"], 0, ())
            if t["k"] == "tuple":
                return ("tuple", ())
            return ("sym", "zst:" + str(ty))
        return ("sym", "const:%s" % (k.get("named") or k.get("uneval") or k.get("indirect") or "?"))

    def eval_promoted(self, st, frame, idx):
        owner = frame.body if frame.promoted_of is None else frame.promoted_of
        proms = owner.get("promoted", [])
        if idx >= len(proms):
            return ("sym", "promoted?%d" % idx)
        pb = proms[idx]
        name = "prom:%s:%d" % (short(frame.fkey), idx)
        # straight-line evaluation of the promoted body in a scratch frame
        sub = Frame(frame.fkey + "#p%d" % idx, pb, frame.prefix + "p%d/" % idx, len(st.frames))
        sub.promoted_of = owner
        st.frames.append(sub)
        try:
            bb = 0
            for _ in range(64):
                blk = pb["blocks"][bb]
                sub.bb = bb
                for si, s in enumerate(blk["s"]):
                    if "p" in s and "rv" in s:
                        outs = self.rvalue(st, sub, s["rv"], ":%d" % si)
                        if len(outs) != 1:
                            return ("sym", name)
                        st2, v = outs[0]
                        self.write_place(st, sub, s["p"], v)
                t = blk["term"]
                if t["t"] == "return":
                    break
                if t["t"] in ("goto", "drop", "assert"):
                    bb = t["to"]
                    continue
                return ("sym", name)
            v = sub.locals.get(0, ("sym", name))
            # references into the scratch frame become external cells
            v = self.externalize(st, v, sub.depth, name)
            return v
        finally:
            st.frames.pop()

    def externalize(self, st, v, depth, name, n=0):
        if v[0] == "ref" and v[1][0] == "L" and v[1][1] == depth:
            inner = self.get_cell(st, v[1])
            cname = "%s/%d" % (name, v[1][2])
            st.ext[cname] = self.externalize(st, inner, depth, name, n + 1) if n < 4 else inner
            return ("ref", ("X", cname), v[2])
        if v[0] == "enum":
            return ("enum", v[1], v[2], tuple(self.externalize(st, x, depth, name, n + 1) for x in v[3]))
        if v[0] == "tuple":
            return ("tuple", tuple(self.externalize(st, x, depth, name, n + 1) for x in v[1]))
        return v

    def operand(self, st, frame, o):
        if "c" in o:
            return self.read_place(st, frame, o["c"])
        if "m" in o:
            return self.read_place(st, frame, o["m"])
        if "k" in o:
            return self.const_val(st, frame, o["k"])
        return ("bool", False)  # runtime checks (ub checks) are off

    # ------------------------------------------------------------------ rvalues
    def rvalue(self, st, frame, rv, sfx):
        """-> list of (state, value) (forks only for discriminant reads)"""
        r = rv["r"]
        if r == "use":
            return [(st, self.operand(st, frame, rv["o"]))]
        if r in ("ref", "rawptr"):
            cell, path = self.locate(st, frame, rv["p"])
            return [(st, ("ref", cell, path))]
        if r == "agg":
            ops = tuple(self.operand(st, frame, o) for o in rv["ops"])
            ak = rv["ak"]
            if ak == "adt":
                return [(st, ("enum", rv["adt"], rv["vi"], ops))]
            if ak == "closure":
                return [(st, ("closure", rv["key"], ops))]
            return [(st, ("tuple", ops))]
        if r == "discr":
            v = self.resolve(st, self.read_place(st, frame, rv["p"]))
            if v[0] == "enum":
                a = self.cr.adts.get(v[1])
                d = a["variants"][v[2]]["discr"] if a else v[2]
                return [(st, ("int", d))]
            if v[0] == "sym":
                ty, _ = M.place_ty(self.cr, None, rv["p"], frame.body)
                a = ty.adt() if ty is not None else None
                if a and a["kind"] == "enum" and 0 < len(a["variants"]) <= 40:
                    outs = []
                    for vi, var in enumerate(a["variants"]):
                        s2 = st.clone()
                        fields = tuple(("sym", "%s@%d.%d" % (v[1], vi, i)) for i in range(len(var["fields"])))
                        s2.cons[v[1]] = ("enum", a["path"], vi, fields)
                        self.hooks.constrained(self, s2, v[1], s2.cons[v[1]])
                        outs.append((s2, ("int", var["discr"])))
                    return outs
            return [(st, self.sym(st, self.site(st, sfx + ":discr")))]
        if r == "bin":
            a = self.resolve(st, self.operand(st, frame, rv["a"]))
            b = self.resolve(st, self.operand(st, frame, rv["b"]))
            return [(st, self.binop(st, rv["op"], a, b, sfx))]
        if r == "un":
            a = self.resolve(st, self.operand(st, frame, rv["a"]))
            op = rv["op"]
            if op == "Not":
                if a[0] == "bool":
                    return [(st, ("bool", not a[1]))]
                if a[0] == "sym":
                    return [(st, ("not", a[1]))] if False else [(st, self.derived_not(st, a))]
            if op == "Neg" and a[0] == "int":
                return [(st, ("int", -a[1]))]
            if op == "PtrMetadata":
                # the length of the slice a fat pointer leads to: named like `<that slice>.len()` (pointee of the pointer value)
                n = ("LEN(%s*)" % a[1]) if a[0] == "sym" else self.len_name(st, a)
                if n is not None:
                    return [(st, ("sym", n))]
            return [(st, self.sym(st, self.site(st, sfx + ":un")))]
        if r == "cast":
            v = self.operand(st, frame, rv["o"])
            ck = rv["ck"]
            if ck.startswith("ptr:") or ck in ("IntToInt", "PtrToPtr", "Transmute"):
                rvv = self.resolve(st, v)
                if ck == "IntToInt" and rvv[0] not in ("int", "ge"):
                    if rvv[0] == "bool":
                        return [(st, ("int", int(rvv[1])))]
                    return [(st, v)]
                return [(st, v)]
            return [(st, self.sym(st, self.site(st, sfx + ":cast")))]
        if r == "repeat":
            return [(st, self.sym(st, self.site(st, sfx + ":repeat")))]
        return [(st, self.sym(st, self.site(st, sfx + ":rv")))]

    def derived_not(self, st, a):
        # boolean negation of an unknown: a derived sym that is refined together with its source
        nid = a[1] + "!"
        return ("sym", nid)

    def binop(self, st, op, a, b, sfx):
        ovf = op.endswith("WithOverflow")
        base = op[:-12] if ovf else op
        res = None
        if a[0] in ("int",) and b[0] in ("int",):
            x, y = a[1], b[1]
            if base == "Add":
                res = ("int", x + y)
            elif base == "Sub":
                res = ("int", x - y)
            elif base == "Mul":
                res = ("int", x * y)
            elif base == "BitAnd":
                res = ("int", x & y)
            elif base == "BitOr":
                res = ("int", x | y)
            elif base == "BitXor":
                res = ("int", x ^ y)
            elif base == "Eq":
                res = ("bool", x == y)
            elif base == "Ne":
                res = ("bool", x != y)
            elif base == "Lt":
                res = ("bool", x < y)
            elif base == "Le":
                res = ("bool", x <= y)
            elif base == "Gt":
                res = ("bool", x > y)
            elif base == "Ge":
                res = ("bool", x >= y)
            cap = getattr(self, "cap", None) or CAP     # a rule that bounds its loops itself (concrete lengths) may raise the cap
            if res is not None and res[0] == "int" and base == "Add" and res[1] >= cap and x >= 0 and y >= 0 and min(x, y) <= 1:
                res = ("ge", cap)
        elif a[0] == "ge" and b[0] == "int":
            k, y = a[1], b[1]
            if base == "Add" and y >= 0:
                res = ("ge", k)
            elif base in ("Gt", "Ge", "Lt", "Le", "Eq", "Ne"):
                if base == "Gt" and y < k:
                    res = ("bool", True)
                elif base == "Ge" and y <= k:
                    res = ("bool", True)
                elif base == "Lt" and y <= k:
                    res = ("bool", False)
                elif base == "Le" and y < k:
                    res = ("bool", False)
                elif base == "Eq" and y < k:
                    res = ("bool", False)
                elif base == "Ne" and y < k:
                    res = ("bool", True)
        elif a[0] == "ge" and b[0] == "ge":
            if base == "Add":
                res = ("ge", min(CAP, a[1] + b[1]))
        elif a[0] == "int" and b[0] == "ge":
            flip = {"Gt": "Lt", "Lt": "Gt", "Ge": "Le", "Le": "Ge", "Eq": "Eq", "Ne": "Ne", "Add": "Add"}
            if base in flip:
                r2 = self.binop(st, flip[base], b, a, sfx)
                if r2[0] != "sym":
                    res = r2
        elif a[0] == "bool" and b[0] == "bool":
            x, y = a[1], b[1]
            res = {"BitAnd": ("bool", x and y), "BitOr": ("bool", x or y), "BitXor": ("bool", x != y),
                   "Eq": ("bool", x == y), "Ne": ("bool", x != y)}.get(base)
        elif a[0] == "chr" and b[0] == "chr":
            res = {"Eq": ("bool", a[1] == b[1]), "Ne": ("bool", a[1] != b[1])}.get(base)
        elif base in ("BitXor", "Eq", "Ne") and (a[0] == "bool" or b[0] == "bool") and (a[0] == "sym" or b[0] == "sym"):
            # xor / (in)equality of an unknown bool with a constant: identity or negation of the unknown
            s, c = (a, b) if a[0] == "sym" else (b, a)
            flip = c[1] if base in ("BitXor", "Ne") else (not c[1])
            res = self.derived_not(st, s) if flip else s
        elif base in ("BitAnd", "BitOr") and (a[0] == "bool" or b[0] == "bool") and (a[0] == "sym" or b[0] == "sym"):
            s, c = (a, b) if a[0] == "sym" else (b, a)
            if base == "BitAnd":
                res = s if c[1] else ("bool", False)
            else:
                res = ("bool", True) if c[1] else s
        if res is None and base in ("Eq", "Ne", "Lt", "Le", "Gt", "Ge") and (a[0] == "sym" or b[0] == "sym") \
                and a[0] in ("sym", "int", "chr", "bool", "ge") and b[0] in ("sym", "int", "chr", "bool", "ge"):
            # semantic name: the same comparison of the same unknowns is the same unknown
            an = ">=%d" % a[1] if a[0] == "ge" else a[1]
            bn = ">=%d" % b[1] if b[0] == "ge" else b[1]
            res = ("sym", "(%s %s %s)" % (an, base, bn))
        if res is None and base in ("BitAnd", "BitOr", "BitXor") and (a[0] == "sym" or b[0] == "sym") \
                and a[0] in ("sym", "int") and b[0] in ("sym", "int"):
            res = ("sym", "(%s %s %s)" % (a[1], base, b[1]))
        if res is None:
            res = self.sym(st, self.site(st, sfx + ":" + op))
        if ovf:
            return ("tuple", (res, ("bool", False)))
        return res

    # ------------------------------------------------------------------ sym refinement helpers
    def constrain(self, st, sid, val):
        """record sid == val; keeps `x!` (negations) coherent"""
        st.cons[sid] = val
        self.hooks.constrained(self, st, sid, val)
        if val[0] == "bool":
            if sid.endswith("!"):
                base = sid[:-1]
                # propagate down a chain of negations
                st.cons[base] = ("bool", not val[1])
                n = 0
                while base.endswith("!") and n < 8:
                    nb = base[:-1]
                    st.cons[nb] = ("bool", not st.cons[base][1])
                    base = nb
                    n += 1

    def resolve_bool(self, st, v):
        v = self.resolve(st, v)
        if v[0] == "sym":
            # look through negation chains for a refined base
            sid = v[1]
            neg = False
            while sid.endswith("!"):
                sid = sid[:-1]
                neg = not neg
                if sid in st.cons and st.cons[sid][0] == "bool":
                    return ("bool", st.cons[sid][1] != neg)
        return v

    def fork_enum(self, st, v, ty):
        """v: resolved value; returns list of (state, concrete enum value)"""
        v = self.resolve(st, v)
        if v[0] == "enum":
            return [(st, v)]
        a = ty.adt() if ty is not None else None
        if v[0] == "sym" and a and a["kind"] == "enum":
            outs = []
            for vi, var in enumerate(a["variants"]):
                s2 = st.clone()
                fields = tuple(("sym", "%s@%d.%d" % (v[1], vi, i)) for i in range(len(var["fields"])))
                ev = ("enum", a["path"], vi, fields)
                s2.cons[v[1]] = ev
                self.hooks.constrained(self, s2, v[1], ev)
                outs.append((s2, ev))
            return outs
        return None

    # ------------------------------------------------------------------ calls
    def operand_ty(self, frame, o):
        if "k" in o:
            return M.Ty(self.cr, o["k"]["ty"])
        p = M.op_place(o)
        if p is None:
            return None
        ty, _ = M.place_ty(self.cr, None, p, frame.body)
        return ty

    def fold_model(self, st, frame, term, callee, args, to):
        pay = PAYLOAD_DECLS.get(M.norm_path(callee.get("path", "")))
        if pay is not None and to is not None and len(args) == 2 and len(st.frames) < self.max_depth:
            fv = self.resolve(st, args[1])
            if fv[0] == "closure" and fv[1] in self.cr.fns and self.cr.fns[fv[1]]["argc"] == (1 if pay[1] == "ok_or_else" else 2) and (
                    INLINE_PRIVATE_HELPERS or self.hooks.inline(self, st, fv[1], self.cr.fns[fv[1]])):
                pl = M.op_place(term["args"][0])
                recv_ty = frame.body["locals"][pl] if isinstance(pl, int) and pl < len(frame.body["locals"]) else None
                body = synth_payload_body(self.cr, pay[0], pay[1], fv[1], recv_ty)
                nf = Frame(body["key"], body, "%s%s:%d>" % (frame.prefix, short(frame.fkey), frame.bb), len(st.frames))
                nf.locals[1] = args[0]
                nf.locals[2] = args[1]
                nf.ret_place = term["dest"]
                nf.ret_to = to
                st.frames.append(nf)
                return [st]
            return None
        if getattr(self.hooks, "lazy_pipes", False) and to is not None and args:
            pm = self.pipe_model(st, frame, term, callee, args, to)
            if pm is not None:
                return pm
        pk = PROBE_DECLS.get(M.norm_path(callee.get("decl", "")))
        if pk is not None and to is not None and len(args) == 2 and len(st.frames) < self.max_depth:
            fv = self.resolve(st, args[1])
            if fv[0] == "ref":
                fv = self.resolve(st, self.read_at(st, fv[1], fv[2]))
            if fv[0] == "closure" and fv[1] in self.cr.fns and self.cr.fns[fv[1]]["argc"] == 2 and (
                    INLINE_PRIVATE_HELPERS or self.hooks.inline(self, st, fv[1], self.cr.fns[fv[1]])):
                body = synth_probe_body(self.cr, pk, fv[1])
                nf = Frame(body["key"], body, "%s%s:%d>" % (frame.prefix, short(frame.fkey), frame.bb), len(st.frames))
                nf.locals[1] = args[0]
                nf.locals[2] = args[1]
                nf.ret_place = term["dest"]
                nf.ret_to = to
                st.frames.append(nf)
                return [st]
            return None
        kind = FOLD_DECLS.get(M.norm_path(callee.get("decl", "")))
        if kind is None or to is None or not args or len(st.frames) >= self.max_depth:
            return None
        fv = self.resolve(st, args[-1])
        if fv[0] == "ref":
            fv = self.resolve(st, self.read_at(st, fv[1], fv[2]))
        if fv[0] != "closure" or fv[1] not in self.cr.fns or not (INLINE_PRIVATE_HELPERS or self.hooks.inline(self, st, fv[1], self.cr.fns[fv[1]])):
            return None
        want = 3 if kind in ("try_fold", "fold") else 2
        if len(args) != want:
            return None
        dty, _ = M.place_ty(self.cr, None, term["dest"], frame.body)
        ret_kind = "result" if dty is not None and dty.adt_path() == RESULT else "option" if dty is not None and dty.adt_path() == OPTION else "plain"
        ity = self.operand_ty(frame, term["args"][0])
        body = synth_fold_body(self.cr, kind, fv[1], ret_kind, bool(ity is not None and ity.kind == "ref"))
        nf = Frame(body["key"], body, "%s%s:%d>" % (frame.prefix, short(frame.fkey), frame.bb), len(st.frames))
        for i, v in enumerate(args):
            nf.locals[i + 1] = v
        nf.ret_place = term["dest"]
        nf.ret_to = to
        st.frames.append(nf)
        return [st]

    def pipe_model(self, st, frame, term, callee, args, to):
        """lazy adaptor chains (see PIPE above) -> None | list of successor states"""
        decl = M.norm_path(callee.get("decl", ""))

        def arg_val(v):
            v = self.resolve(st, v)
            if v[0] == "ref":
                inner = self.resolve(st, self.read_at(st, v[1], v[2]))
                if is_pipe(inner):
                    return inner
            return v

        def is_cursor(v):
            return v[0] == "tuple" and len(v[1]) == 3 and v[1][0] == ("str", "__array_cursor__")

        def done(val):
            self.write_place(st, frame, term["dest"], val)
            frame.bb = to
            return [st]

        def push(body, locs):
            if len(st.frames) >= self.max_depth + 4:
                return None
            nf = Frame(body["key"], body, "%s%s:%d>" % (frame.prefix, short(frame.fkey), frame.bb), len(st.frames))
            for i, v in locs.items():
                nf.locals[i] = v
            nf.ret_place = term["dest"]
            nf.ret_to = to
            st.frames.append(nf)
            return [st]
        kind = PIPE_DECLS.get(decl)
        if kind is not None and len(args) == 2 and not callee.get("local"):
            src = arg_val(args[0])
            if is_cursor(src) or src[0] not in ("sym", "tuple"):
                return None
            if kind == "chain":
                other = arg_val(args[1])
                if is_cursor(other) or other[0] not in ("sym", "tuple"):
                    return None
                return done(("tuple", (PIPE, ("str", kind), src, other)))
            fv = self.resolve(st, args[1])
            if fv[0] == "closure" and fv[1] in self.cr.fns and self.cr.fns[fv[1]]["argc"] == 2:
                return done(("tuple", (PIPE, ("str", kind), src, fv)))
            return None
        if decl in PIPE_IDENTITY and len(args) == 1 and not callee.get("local"):
            v = arg_val(args[0])
            if is_pipe(v):
                return done(v)
            return None
        if decl == "std::iter::Iterator::next" and len(args) == 1:
            v = self.resolve(st, args[0])
            if v[0] == "ref":
                p = self.resolve(st, self.read_at(st, v[1], v[2]))
                if is_pipe(p):
                    kind = p[1][1][1]
                    ckey = p[1][3][1] if kind != "chain" else None
                    return push(synth_pipe_next_body(self.cr, kind, ckey), {1: args[0], 2: p[1][2], 7: p[1][3]})
            return None
        if decl in ("std::iter::Iterator::collect", "std::iter::FromIterator::from_iter") and len(args) == 1:
            v = arg_val(args[0])
            if is_pipe(v):
                dty, _ = M.place_ty(self.cr, None, term["dest"], frame.body)
                into_vec = bool(dty is not None and (dty.adt_path() or "").endswith("vec::Vec"))
                if dty is not None and dty.adt_path() == RESULT and dty.args() and (dty.args()[0].adt_path() or "").endswith("vec::Vec"):
                    # Result<Vec<T>, E> from an iterator of Results: needs the element type (known for a `map` stage: its closure's result)
                    if v[1][1][1] == "map" and v[1][3][0] == "closure" and v[1][3][1] in self.cr.fns:
                        return push(synth_pipe_collect_result_body(self.cr, self.cr.fns[v[1][3][1]]["locals"][0]), {1: v})
                    return None
                return push(synth_pipe_drain_body(self.cr, "collect", into_vec), {1: v})
            return None
        if decl == "std::iter::Extend::extend" and len(args) == 2:
            v = arg_val(args[1])
            if is_pipe(v):
                rty = self.operand_ty(frame, term["args"][0])
                into_vec = bool(rty is not None and (rty.strip_refs().adt_path() or "").endswith("vec::Vec"))
                return push(synth_pipe_drain_body(self.cr, "extend", into_vec), {1: v, 6: args[0]})
        return None

    def model_call(self, st, frame, term, callee, args):
        """Built-in models of a few std functions. -> None | list of (state, value)"""
        decl = M.norm_path(callee.get("decl", ""))
        path = M.norm_path(callee.get("path", ""))
        if decl == "model::opaque":
            return [(st, self.sym(st, "%s:adaptor" % frame.prefix.rstrip(">")))]
        if decl == "model::from_output" and args:
            rk = frame.body.get("ret_kind")
            v = args[0]
            if rk == "result":
                return [(st, ("enum", RESULT, 0, (v,)))]
            if rk == "option":
                return [(st, ("enum", OPTION, 1, (v,)))]
            return [(st, v)]
        if decl == "std::ops::Try::branch" and args:
            ty = self.operand_ty(frame, term["args"][0])
            alts = self.fork_enum(st, args[0], ty)
            if alts is None:
                return None
            outs = []
            for s2, ev in alts:
                if ev[1] == RESULT:
                    if ev[2] == 0:
                        outs.append((s2, ("enum", CFLOW, 0, (ev[3][0],))))
                    else:
                        outs.append((s2, ("enum", CFLOW, 1, (("enum", RESULT, 1, (ev[3][0],)),))))
                elif ev[1] == OPTION:
                    if ev[2] == 1:
                        outs.append((s2, ("enum", CFLOW, 0, (ev[3][0],))))
                    else:
                        outs.append((s2, ("enum", CFLOW, 1, (("enum", OPTION, 0, ()),))))
                else:
                    return None
            return outs
        if decl == "std::ops::FromResidual::from_residual" and args:
            v = self.resolve(st, args[0])
            if v[0] == "enum" and v[1] == RESULT and v[2] == 1:
                return [(st, ("enum", RESULT, 1, (v[3][0],)))]
            if v[0] == "enum" and v[1] == OPTION and v[2] == 0:
                return [(st, ("enum", OPTION, 0, ()))]
            return None
        # iteration over an array / slice whose elements are known (`for (a, b) in [(x, y), (z, w)] { .. }`): the iterator is a concrete
        # cursor over the element values, so a loop over a fixed table is unrolled instead of being treated as an unknown sequence
        if decl == "std::iter::IntoIterator::into_iter" and len(args) == 1 and not callee.get("local"):
            v = self.resolve(st, args[0])
            by_ref = False
            if v[0] == "ref":
                inner = self.resolve(st, self.read_at(st, v[1], v[2]))
                if inner[0] == "tuple":
                    v, by_ref = inner, True
            sty = self.operand_ty(frame, term["args"][0])
            sk = sty.strip_refs().kind if sty is not None else None
            if v[0] == "tuple" and sk in ("array", "slice") and 0 < len(v[1]) <= 8:
                elems = v[1] if not by_ref else tuple(("ref", args[0][1] if args[0][0] == "ref" else None, ()) for _ in v[1])
                if not by_ref:
                    return [(st, ("tuple", (("str", "__array_cursor__"), ("tuple", tuple(v[1])), ("int", 0))))]
        if decl == "std::iter::Iterator::next" and len(args) == 1:
            it = self.resolve(st, args[0])
            if it[0] == "ref":
                cur = self.resolve(st, self.read_at(st, it[1], it[2]))
                if cur[0] == "tuple" and len(cur[1]) == 3 and cur[1][0] == ("str", "__array_cursor__"):
                    elems, idx = cur[1][1][1], cur[1][2][1]
                    if idx < len(elems):
                        self.write_ref(st, it, ("tuple", (cur[1][0], cur[1][1], ("int", idx + 1))))
                        return [(st, ("enum", OPTION, 1, (elems[idx],)))]
                    return [(st, ("enum", OPTION, 0, ()))]
        # error-plumbing combinators that leave the success value alone (`r.map_err(f)?` == `match r { Ok(v) => v, Err(e) => return Err(f(e)) }`)
        if path in ("std::result::Result::map_err", "std::option::Option::ok_or", "std::option::Option::ok_or_else", "std::result::Result::ok",
                    "std::result::Result::err") and args:
            ty = self.operand_ty(frame, term["args"][0])
            alts = self.fork_enum(st, args[0], ty)
            if alts is not None:
                outs = []
                for s2, ev in alts:
                    site = self.site(s2, ":" + path.split("::")[-1])
                    if path == "std::result::Result::map_err" and ev[1] == RESULT:
                        outs.append((s2, ev if ev[2] == 0 else ("enum", RESULT, 1, (self.sym(s2, site),))))
                    elif path in ("std::option::Option::ok_or", "std::option::Option::ok_or_else") and ev[1] == OPTION:
                        errv = args[1] if path.endswith("ok_or") and len(args) > 1 else self.sym(s2, site)
                        outs.append((s2, ("enum", RESULT, 0, (ev[3][0],)) if ev[2] == 1 else ("enum", RESULT, 1, (errv,))))
                    elif path == "std::result::Result::ok" and ev[1] == RESULT:
                        outs.append((s2, ("enum", OPTION, 1, (ev[3][0],)) if ev[2] == 0 else ("enum", OPTION, 0, ())))
                    elif path == "std::result::Result::err" and ev[1] == RESULT:
                        outs.append((s2, ("enum", OPTION, 1, (ev[3][0],)) if ev[2] == 1 else ("enum", OPTION, 0, ())))
                    else:
                        outs = None
                        break
                if outs is not None:
                    return outs
        if path in ("std::result::Result::map", "std::option::Option::map", "std::result::Result::and_then", "std::option::Option::and_then") and len(args) == 2:
            # the function is not an interpretable closure (a fn item such as `Ordering::is_lt`, or the rule did not opt in): the
            # Err / None side passes through unchanged, the other side is some value of the mapped type
            ty = self.operand_ty(frame, term["args"][0])
            alts = self.fork_enum(st, args[0], ty)
            if alts is not None:
                outs = []
                for s2, ev in alts:
                    is_res = ev[1] == RESULT
                    passthrough = (is_res and ev[2] == 1) or (ev[1] == OPTION and ev[2] == 0)
                    if passthrough:
                        outs.append((s2, ev))
                    elif path.endswith("::map"):
                        mapped = None
                        fv_ = self.resolve(s2, args[1])
                        pv_ = self.resolve(s2, ev[3][0]) if ev[3] else None
                        if fv_[0] == "fn" and pv_ is not None and pv_[0] == "enum" and pv_[1] == "std::cmp::Ordering":
                            # `cmp(..).map(Ordering::is_lt)`: the std predicates on a known Ordering (Less, Equal, Greater)
                            table = {"is_lt": (True, False, False), "is_le": (True, True, False), "is_gt": (False, False, True), "is_ge": (False, True, True),
                                     "is_eq": (False, True, False), "is_ne": (True, False, True)}.get(str(fv_[2]).split("::")[-1])
                            if table is not None and pv_[2] < 3:
                                mapped = ("bool", table[pv_[2]])
                        outs.append((s2, ("enum", ev[1], ev[2], (mapped if mapped is not None else self.sym(s2, self.site(s2, ":mapped")),))))
                    else:
                        outs.append((s2, self.sym(s2, self.site(s2, ":and_then"))))
                return outs
        if path == "core::str::<impl str>::strip_prefix" and len(args) == 2:
            a0, a1 = self.deref_val(st, args[0]), self.deref_val(st, args[1])
            if a0 is not None and a1 is not None and a0[0] == "str" and a1[0] == "str":
                if a0[1].startswith(a1[1]):
                    return [(st, ("enum", OPTION, 1, (("str", a0[1][len(a1[1]):]),)))]
                return [(st, ("enum", OPTION, 0, ()))]
        if decl == "std::clone::Clone::clone" and args:
            v = self.resolve(st, args[0])
            if v[0] == "ref":
                inner = self.read_at(st, v[1], v[2])
                return [(st, inner)]
            if v[0] == "sym":
                return [(st, self.get_cell(st, ("X", v[1])))]
        if decl in ("std::convert::From::from", "std::convert::Into::into") and args and not callee.get("local"):
            ga = callee.get("ga", [])
            if len(ga) == 2 and ga[0] == ga[1]:
                return [(st, args[0])]
        if decl in ("std::ops::Deref::deref", "std::convert::AsRef::as_ref", "std::borrow::Borrow::borrow",
                    "std::ops::DerefMut::deref_mut") and args and not callee.get("local"):
            v = self.resolve(st, args[0])
            if v[0] in ("ref", "sym"):
                return [(st, v)]
        if path in ("std::string::String::as_str", "std::vec::Vec::as_slice") and args:
            return [(st, self.resolve(st, args[0]))]
        if path in ("std::intrinsics::discriminant_value", "core::intrinsics::discriminant_value") and args:
            v = self.deref_val(st, args[0])
            ga = callee.get("ga", [])
            ty = M.Ty(self.cr, ga[0]) if ga else None
            alts = self.fork_enum(st, v, ty) if v is not None else None
            if alts is not None:
                outs = []
                for s2, ev in alts:
                    a = self.cr.adts.get(ev[1])
                    d = a["variants"][ev[2]]["discr"] if a else ev[2]
                    outs.append((s2, ("int", d)))
                return outs
        if path in ("std::option::Option::is_some", "std::option::Option::is_none", "std::result::Result::is_ok",
                    "std::result::Result::is_err") and args:
            ty = self.operand_ty(frame, term["args"][0])
            v = self.deref_val(st, args[0])
            alts = self.fork_enum(st, v, ty.strip_refs() if ty is not None else None) if v is not None else None
            if alts is not None:
                outs = []
                for s2, ev in alts:
                    if ev[1] == OPTION:
                        r = (ev[2] == 1) == path.endswith("is_some")
                    else:
                        r = (ev[2] == 0) == path.endswith("is_ok")
                    outs.append((s2, ("bool", r)))
                return outs
        if path == "std::option::Option::map_or" and len(args) == 3:
            ty = self.operand_ty(frame, term["args"][0])
            alts = self.fork_enum(st, args[0], ty)
            if alts is not None:
                outs = []
                for s2, ev in alts:
                    if ev[2] == 0:
                        outs.append((s2, args[1]))
                    else:
                        rs = self.call_value(s2, args[2], [ev[3][0]])
                        if rs is not None and len(rs) == 1:
                            outs.append((s2, next(iter(rs))))
                        else:
                            nm = self.site(s2, ":map_or")
                            dep = self.deps.setdefault(nm, set())
                            for v in args:
                                self._collect_syms(s2, v, dep, 0)
                            self._collect_syms(s2, ev, dep, 0)
                            outs.append((s2, self.sym(s2, nm)))
                return outs
        if path in ("std::vec::Vec::len", "core::slice::<impl [T]>::len", "std::string::String::len", "core::str::<impl str>::len",
                    "std::collections::VecDeque::len") and args:
            n = self.len_name(st, args[0])
            if n is not None:
                return [(st, ("sym", n))]
        if path in ("std::vec::Vec::is_empty", "core::slice::<impl [T]>::is_empty") and args and getattr(self.hooks, "model_is_empty", False):
            n = self.len_name(st, args[0])
            if n is not None:
                return [(st, ("sym", "(%s Eq 0)" % n))]
        if path in ("std::mem::replace",) and len(args) == 2:
            v = self.resolve(st, args[0])
            if v[0] == "ref":
                old = self.read_at(st, v[1], v[2])
                self.write_ref(st, v, args[1])
                return [(st, old)]
        if decl in ("std::cmp::PartialEq::eq", "std::cmp::PartialEq::ne") and len(args) == 2 and not callee.get("local"):
            a = self.deref_val(st, args[0])
            b = self.deref_val(st, args[1])
            if a is not None and b is not None and a[0] in ("int", "bool", "chr", "str") and a[0] == b[0]:
                eq = a[1] == b[1]
                return [(st, ("bool", eq if decl.endswith("eq") else not eq))]
        return None

    def _collect_syms(self, st, v, acc, depth):
        if depth > 5 or not isinstance(v, tuple) or not v:
            return
        v = self.resolve(st, v) if v[0] == "sym" else v
        if v[0] == "sym":
            acc.add(v[1])
            return
        if v[0] == "ref":
            acc.add("cell:%s" % (v[1],))
            if v[1][0] == "X":
                acc.add(v[1][1])
            self._collect_syms(st, self.read_at(st, v[1], v[2]), acc, depth + 1)
            return
        for x in v:
            if isinstance(x, tuple):
                self._collect_syms(st, x, acc, depth + 1)

    def call_value(self, st, fv, args):
        """abstractly evaluate a closure / fn value on args in a nested interpreter; -> set of deep results"""
        fv = self.resolve(st, fv)
        if fv[0] not in ("closure", "fn") or fv[1] not in self.cr.fns:
            return None
        fn = self.cr.fns[fv[1]]
        sub = AI(self.cr, Hooks(), max_states=20000, max_depth=4)
        sub.deps = self.deps
        cargs = list(args)
        ext = dict(st.ext)
        if fn["kind"] == "closure":
            envty = M.Ty(self.cr, fn["locals"][1]) if len(fn["locals"]) > 1 else None
            if envty is not None and envty.kind == "ref":
                ext["NESTED_ENV"] = fv
                cargs = [("ref", ("X", "NESTED_ENV"), ())] + cargs
            else:
                cargs = [fv] + cargs
        if len(cargs) != fn["argc"]:
            return None
        try:
            sub.run(fv[1], args=cargs, ext=ext)
        except (Undecided, IndexError, KeyError):
            # (a reference into a frame of the calling interpreter cannot be followed in the nested one: treat the call as opaque)
            return None
        out = set(v for v, m, t in sub.returns)
        argsyms = set()
        for v in args:
            self._collect_syms(st, v, argsyms, 0)
        for v in out:
            rs = set()
            self._collect_syms(st, v, rs, 0)
            for r in rs:
                self.deps.setdefault(r, set()).update(argsyms)
        return out

    def len_name(self, st, v):
        """stable name for the length of the container a pointer chain leads to (named by the container's value identity)"""
        cur = self.resolve(st, v)
        for _ in range(5):
            if cur[0] == "ref":
                inner = self.resolve(st, self.read_at(st, cur[1], cur[2]))
                if inner[0] in ("ref", "sym"):
                    cur = inner
                    continue
                return None
            break
        if cur[0] == "sym":
            return "LEN(%s)" % cur[1]
        return None

    def deref_val(self, st, v, n=0):
        v = self.resolve(st, v)
        if v[0] == "ref" and n < 4:
            return self.deref_val(st, self.read_at(st, v[1], v[2]), n + 1)
        return v

    def write_ref(self, st, ref, v):
        cell, path = ref[1], ref[2]
        if not path:
            self.set_cell(st, cell, v)
        else:
            root = self.get_cell(st, cell)
            self.set_cell(st, cell, self.write_into(st, root, path, v, None))

    def havoc_mut_args(self, st, frame, term, args, site):
        for i, (o, v) in enumerate(zip(term["args"], args)):
            ty = self.operand_ty(frame, o)
            if ty is None:
                continue
            t = ty.t
            if t["k"] == "ref" and t.get("m") == 1:
                rv = self.resolve(st, v)
                if rv[0] == "ref":
                    self.write_ref(st, rv, self.sym(st, "%s:hv%d" % (site, i)))
            elif t["k"] == "closure":
                # a closure passed by value may write through the &mut it captured
                rv = self.resolve(st, v)
                ups = t.get("up", [])
                if rv[0] == "closure":
                    for j, uv in enumerate(rv[2]):
                        ut = self.cr.types[ups[j]] if j < len(ups) else None
                        ruv = self.resolve(st, uv)
                        if ut is not None and ut["k"] == "ref" and ut.get("m") == 1 and ruv[0] == "ref":
                            self.write_ref(st, ruv, self.sym(st, "%s:hv%d.%d" % (site, i, j)))

    def do_call(self, st, term):
        """-> list of successor states"""
        frame = st.top
        callee = term["fn"]
        args = [self.operand(st, frame, o) for o in term["args"]]
        site = self.site(st, ":call")
        to = term.get("to")

        def finish(s2, val):
            if val is AI.DIVERGE or to is None:
                return None
            fr = s2.top
            self.write_place(s2, fr, term["dest"], val)
            fr.bb = to
            return s2

        # 1. rule hook
        alts = self.hooks.call(self, st, term, callee, args)
        if alts is not None:
            outs = []
            for val, mon in alts:
                s2 = st.clone()
                s2.mon = mon
                s3 = finish(s2, val)
                if s3 is not None:
                    outs.append(s3)
            return outs
        fm = self.fold_model(st, frame, term, callee, args, to)
        if fm is not None:
            return fm
        # indirect calls through a known closure / fn value
        key = callee.get("key")
        via = callee.get("via")
        target_key = None
        call_args = args
        if via == "indirect":
            fv = self.resolve(st, self.operand(st, frame, callee["op"]))
            if fv[0] == "fn":
                target_key = fv[1]
        elif via in ("closure", "resolved", "direct"):
            target_key = key
        elif via == "trait":
            # Fn*/call on a closure or fn item value held in a generic parameter
            decl = M.norm_path(callee.get("decl", ""))
            if decl in ("std::ops::Fn::call", "std::ops::FnMut::call_mut", "std::ops::FnOnce::call_once") and args:
                fv = self.deref_val(st, args[0])
                if fv is not None and fv[0] == "closure":
                    target_key = fv[1]
                    call_args = [args[0]] + list(args[1:])
                elif fv is not None and fv[0] == "fn":
                    target_key = fv[1]
                    tup = self.resolve(st, args[1]) if len(args) > 1 else ("tuple", ())
                    call_args = list(tup[1]) if tup[0] == "tuple" else None
        post = None
        if via in ("direct", "trait") and M.norm_path(callee.get("path", "")) == "std::cmp::PartialEq::ne" and "self" in callee:
            sp = self.cr.ty_adt(callee["self"])
            if sp:
                ek = "<%s as std::cmp::PartialEq<%s>>::eq" % (sp, sp)
                if ek in self.cr.fns:
                    target_key = ek
                    post = "not"
        # 2. models
        m = self.model_call(st, frame, term, callee, args) if post is None else None
        if m is not None:
            outs = []
            for s2, val in m:
                s3 = finish(s2, val)
                if s3 is not None:
                    outs.append(s3)
            return outs
        # 3. inline
        if target_key is not None and call_args is not None and target_key in self.cr.fns and len(st.frames) < self.max_depth:
            fn = self.cr.fns[target_key]
            if self.hooks.inline(self, st, target_key, fn) or (frame.body.get("file") == "<model>" and frame.body.get("closure") == target_key) or (
                    INLINE_PRIVATE_HELPERS and is_private_fn(fn) and target_key != st.frames[0].fkey
                                                              and fn.get("file") == st.frames[0].body.get("file") and target_key not in [fr.fkey for fr in st.frames]):
                if to is None:
                    return []
                s2 = st
                nf = Frame(target_key, fn, "%s%s:%d>" % (frame.prefix, short(frame.fkey), frame.bb), len(s2.frames))
                argc = fn["argc"]
                cargs = list(call_args)
                if fn["kind"] == "closure" and len(cargs) == 2 and argc != 2:
                    tup = self.resolve(s2, cargs[1])
                    if tup[0] == "tuple":
                        cargs = [cargs[0]] + list(tup[1])
                if fn["kind"] == "closure" and len(cargs) >= 1:
                    # closure bodies take the environment by reference (Fn/FnMut) or by value (FnOnce)
                    envty = M.Ty(self.cr, fn["locals"][1]) if len(fn["locals"]) > 1 else None
                    ev = self.resolve(s2, cargs[0])
                    if envty is not None and envty.kind == "ref" and ev[0] == "closure":
                        cname = "%s:env" % site
                        s2.ext[cname] = ev
                        cargs[0] = ("ref", ("X", cname), ())
                    elif envty is not None and envty.kind == "closure" and ev[0] == "ref":
                        cargs[0] = self.read_at(s2, ev[1], ev[2])
                if len(cargs) != argc:
                    self.notes.append("arity mismatch inlining %s (%d vs %d)" % (target_key, len(cargs), argc))
                else:
                    for i, v in enumerate(cargs):
                        nf.locals[i + 1] = v
                    nf.ret_place = term["dest"]
                    nf.ret_to = to
                    nf.post = post
                    s2.frames.append(nf)
                    return [s2]
        # 4. opaque
        dep = self.deps.setdefault(site, set())
        for v in args:
            self._collect_syms(st, v, dep, 0)
        self.havoc_mut_args(st, frame, term, args, site)
        s3 = finish(st, self.sym(st, site))
        return [s3] if s3 is not None else []

    # ------------------------------------------------------------------ driver
    def gc(self, st):
        live = set()
        stack = []
        for f in st.frames:
            stack.extend(f.locals.values())
        stack.extend(st.ext.values())
        if st.mon is not None:
            stack.append(("monwrap", st.mon))
        seen_x = set()

        def visit(v):
            if not isinstance(v, tuple):
                return
            if v and v[0] == "sym":
                sid = v[1]
                if sid not in live:
                    live.add(sid)
                    if sid in st.cons:
                        visit(st.cons[sid])
                    b = sid
                    while b.endswith("!"):
                        b = b[:-1]
                        live.add(b)
                        if b in st.cons:
                            visit(st.cons[b])
                return
            if v and v[0] == "ref" and v[1][0] == "X":
                if v[1][1] not in seen_x:
                    seen_x.add(v[1][1])
                    if v[1][1] in st.ext:
                        visit(st.ext[v[1][1]])
            for x in v:
                if isinstance(x, tuple):
                    visit(x)

        for v in stack:
            visit(v)
        for p in self.pinned:
            visit(("sym", p))
        for k in [k for k in st.cons if k not in live]:
            del st.cons[k]

    def run(self, fkey, args=None, mon=None, ext=None):
        fn = self.cr.fns[fkey]
        st = State()
        fr = Frame(fkey, fn, "", 0)
        for i in range(fn["argc"]):
            if args and i < len(args) and args[i] is not None:
                fr.locals[i + 1] = args[i]
            else:
                fr.locals[i + 1] = ("sym", "arg%d" % (i + 1))
        st.frames.append(fr)
        st.mon = mon
        if ext:
            st.ext.update(ext)
        work = [st]
        seen = set()
        while work:
            st = work.pop()
            fr = st.top
            joins, live_in, borrowed = body_info(fr.body)
            if fr.bb in joins or fr.bb == 0:
                li = live_in[fr.bb]
                for l in [l for l in fr.locals if l not in li and l not in borrowed and l != 0 and l > fr.body["argc"]]:
                    del fr.locals[l]
                self.gc(st)
                k = st.key()
                if k in seen:
                    continue
                seen.add(k)
            self.n_states += 1
            if self.n_states > self.max_states:
                raise Undecided("state budget exceeded in %s" % fkey)
            for s2 in self.step_block(st):
                self.n_transitions += 1
                work.append(s2)
        return self

    def step_block(self, st):
        frame = st.top
        blk = frame.body["blocks"][frame.bb]
        self.blocks_seen.add((frame.fkey, frame.bb))
        st.trace = (st.trace + ((len(st.frames), short(frame.fkey), frame.bb, blk["term"].get("ln")),))[-80:]
        states = [st]
        for si, s in enumerate(blk["s"]):
            nxt = []
            for cur in states:
                fr = cur.top
                if "rv" in s:
                    for s2, v in self.rvalue(cur, fr, s["rv"], ":%d" % si):
                        self.write_place(s2, s2.top, s["p"], v)
                        nxt.append(s2)
                elif "dead" in s:
                    fr.locals.pop(s["dead"], None)
                    nxt.append(cur)
                elif "setdiscr" in s:
                    nxt.append(cur)
                else:
                    nxt.append(cur)
            states = nxt
            if self.hooks.stmt.__func__ is not Hooks.stmt:
                for cur in states:
                    self.hooks.stmt(self, cur, cur.top, s)
        outs = []
        term = blk["term"]
        for cur in states:
            outs.extend(self.terminator(cur, term))
        return outs

    def terminator(self, st, term):
        t = term["t"]
        fr = st.top
        if t == "goto":
            fr.bb = term["to"]
            return [st]
        if t == "drop":
            fr.bb = term["to"]
            return [st]
        if t == "call":
            return self.do_call(st, term)
        if t == "switch":
            v = self.resolve_bool(st, self.operand(st, fr, term["d"]))
            if v[0] == "chr":
                v = ("int", ord(v[1]) if v[1] else 0)
            cases = term["cases"]
            if v[0] in ("int", "bool"):
                x = int(v[1])
                for cv, bb in cases:
                    if cv == x:
                        fr.bb = bb
                        return [st]
                fr.bb = term["else"]
                return [st]
            is_bool = M.Ty(self.cr, term["dty"]).t.get("n") == "bool"
            outs = []
            if v[0] == "ge":
                k = v[1]
                for cv, bb in cases:
                    if cv >= k:
                        s2 = st.clone()
                        s2.top.bb = bb
                        outs.append(s2)
                s2 = st.clone()
                s2.top.bb = term["else"]
                outs.append(s2)
                return outs
            for cv, bb in cases:
                s2 = st.clone()
                if v[0] == "sym":
                    self.constrain(s2, v[1], ("bool", bool(cv)) if is_bool else ("int", cv))
                s2.top.bb = bb
                outs.append(s2)
            s2 = st.clone()
            if v[0] == "sym" and is_bool and len(cases) == 1:
                self.constrain(s2, v[1], ("bool", not bool(cases[0][0])))
            s2.top.bb = term["else"]
            outs.append(s2)
            return outs
        if t == "assert":
            v = self.resolve_bool(st, self.operand(st, fr, term["cond"]))
            self.hooks.on_assert(self, st, term, v)
            if v[0] == "bool" and v[1] != term["exp"]:
                self.hooks.assert_fail(self, st, term)
                return []
            fr.bb = term["to"]
            return [st]
        if t == "return":
            val = fr.locals.get(0, ("tuple", ()))
            if len(st.frames) == 1:
                dv = self.deep(st, val)
                self.returns.append((dv, st.mon, st.trace))
                self.hooks.ret(self, st, dv)
                return []
            depth = fr.depth
            val = self.externalize(st, val, depth, "ret:%s%s" % (fr.prefix, short(fr.fkey)))
            if fr.post == "not":
                rv = self.resolve_bool(st, val)
                val = ("bool", not rv[1]) if rv[0] == "bool" else (self.derived_not(st, rv) if rv[0] == "sym" else val)
            st.frames.pop()
            caller = st.top
            self.write_place(st, caller, fr.ret_place, val)
            caller.bb = fr.ret_to
            return [st]
        if t in ("unreachable", "resume", "terminate"):
            return []
        raise Undecided("unsupported terminator %s" % t)


def short(key):
    return key.split("::")[-1] if not key.startswith("<") else key[-40:]


def fmt_val(v, cr=None):
    if not isinstance(v, tuple):
        return str(v)
    k = v[0]
    if k == "enum":
        name = v[1].split("::")[-1]
        vn = str(v[2])
        if cr is not None and v[1] in cr.adts:
            vs = cr.adts[v[1]]["variants"]
            if v[2] < len(vs):
                vn = vs[v[2]]["name"]
        if v[3]:
            return "%s::%s(%s)" % (name, vn, ", ".join(fmt_val(x, cr) for x in v[3]))
        return "%s::%s" % (name, vn)
    if k == "tuple":
        return "(" + ", ".join(fmt_val(x, cr) for x in v[1]) + ")"
    if k in ("int", "bool", "chr", "str"):
        return repr(v[1])
    if k == "ge":
        return ">=%d" % v[1]
    if k == "sym":
        return "?" + v[1]
    if k == "ref":
        return "&%s%s" % (v[1], list(v[2]) if v[2] else "")
    return str(v)

"""E5: enumerate panic-capable constructs in MIR (reachable code), with stable keys (no line numbers)."""
from . import mirlib as M

PANIC_FNS = ("core::panicking::", "std::rt::begin_panic", "std::rt::panic_fmt", "core::option::expect_failed", "core::result::unwrap_failed",
             "core::option::unwrap_failed", "core::slice::index::", "core::str::slice_error_fail", "std::process::abort")
UNWRAPS = {
    "std::option::Option::unwrap": "Option::unwrap", "std::option::Option::expect": "Option::expect",
    "std::result::Result::unwrap": "Result::unwrap", "std::result::Result::expect": "Result::expect",
    "std::result::Result::unwrap_err": "Result::unwrap_err", "std::result::Result::expect_err": "Result::expect_err",
}
PANICKY_METHODS = {
    "std::vec::Vec::remove": "Vec::remove", "std::vec::Vec::swap_remove": "Vec::swap_remove", "std::vec::Vec::drain": "Vec::drain",
    "std::vec::Vec::insert": "Vec::insert", "std::vec::Vec::split_off": "Vec::split_off", "std::slice::split_at": "slice::split_at",
    "core::slice::<impl [T]>::split_at": "slice::split_at", "core::str::<impl str>::split_at": "str::split_at",
    "std::cell::RefCell::borrow": "RefCell::borrow", "std::cell::RefCell::borrow_mut": "RefCell::borrow_mut",
    "core::slice::<impl [T]>::copy_from_slice": "copy_from_slice", "std::string::String::remove": "String::remove",
    "std::string::String::insert": "String::insert", "std::string::String::truncate": "String::truncate",
    "std::string::String::drain": "String::drain", "std::string::String::replace_range": "String::replace_range",
    "std::process::exit": "process::exit", "std::process::abort": "process::abort",
}
ASSERT_KINDS = ("BoundsCheck", "Overflow:Sub", "OverflowNeg", "DivisionByZero", "RemainderByZero", "Overflow:Shl", "Overflow:Shr")
INFO_ASSERTS = ("Overflow:Add", "Overflow:Mul")


def self_ty_str(cr, fn):
    i = fn.get("self")
    if i is None:
        ga = fn.get("ga") or []
        i = ga[0] if ga else None
    if i is None:
        return "?"
    return cr.ty_str(cr.strip_refs(i))


def short_ty(s):
    import re
    s = re.sub(r"<.*", "", s)
    return s.split("::")[-1] if "::" in s else s


def enumerate_sites(cr, keys):
    """-> list of dict(fn, kind, what, line, file, bb, term/stmt, ordinal-based key)"""
    out = []
    for k in sorted(keys):
        f = cr.fns[k]
        counters = {}

        def add(kind, what, bb, term, extra=None):
            base = "%s:%s:%s" % (k, kind, what)
            n = counters.get(base, 0)
            counters[base] = n + 1
            out.append({"fn": k, "kind": kind, "what": what, "bb": bb, "line": term.get("ln", 0), "file": term.get("f", f.get("file", "")),
                        "key": "%s#%d" % (base, n), "term": term, "mac": term.get("mac", []), "extra": extra})
        for bi, b in enumerate(f["blocks"]):
            if b.get("cleanup"):
                continue
            t = b["term"]
            if t["t"] == "assert":
                kind = t["kind"]
                if kind in ASSERT_KINDS:
                    add("assert", kind, bi, t)
                elif kind in INFO_ASSERTS:
                    pass
                else:
                    add("assert", kind, bi, t)
            elif t["t"] == "call":
                fn = t["fn"]
                if fn.get("via") == "indirect":
                    continue
                path = M.norm_path(fn.get("path", ""))
                decl = M.norm_path(fn.get("decl", ""))
                if t.get("to") is None and path.startswith(PANIC_FNS):
                    macs = t.get("mac", [])
                    mname = "panic"
                    for m in macs:
                        for cand in ("unreachable", "unimplemented", "todo", "assert_eq", "assert_ne", "debug_assert", "assert", "panic"):
                            if cand in m:
                                mname = cand
                                break
                        else:
                            continue
                        break
                    add("panic", mname, bi, t)
                elif path in UNWRAPS:
                    add("unwrap", UNWRAPS[path], bi, t)
                elif path in PANICKY_METHODS:
                    add("method", PANICKY_METHODS[path], bi, t)
                elif decl.endswith("Slice::slice") and decl.startswith("nom::"):
                    add("index", "nom-slice(%s)" % short_ty(self_ty_str(cr, fn)), bi, t)
                elif decl in ("std::ops::Index::index", "std::ops::IndexMut::index_mut"):
                    st = self_ty_str(cr, fn)
                    if st.startswith("serde_json::Value") or st.startswith("serde_yaml::Value"):
                        continue        # non-panicking Index impls (return Null)
                    idx_ty = cr.ty_str(fn["ga"][1]) if len(fn.get("ga", [])) > 1 else "?"
                    add("index", "%s[%s]" % (short_ty(st), short_ty(idx_ty) if "Range" not in idx_ty else "range"), bi, t)
    return out

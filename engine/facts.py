"""E0 front end: (re)extract facts for /repo's current working tree and load them.

Facts are produced by the rustc_private driver /verif/driver (guard-facts) run as
RUSTC_WORKSPACE_WRAPPER with /repo's own cargo (1.77.2) driving the nightly rustc.
The extraction is keyed by a content hash of every *.rs / Cargo.toml / Cargo.lock under /repo
(recomputed on every invocation), so an edited tree is always re-extracted; nothing in /repo is run.
"""
import fcntl
import hashlib
import json
import os
import shutil
import subprocess
import sys
import time

VERIF = os.path.dirname(os.path.dirname(os.path.abspath(__file__)))
REPO = os.environ.get("GUARD_REPO", "/repo")
CACHE = os.path.join(VERIF, ".cache")
DRIVER_DIR = os.path.join(VERIF, "driver")
DRIVER = os.path.join(DRIVER_DIR, "target", "release", "guard-facts")

EXPECTED_CRATES = ["cfn_guard-lib", "cfn_guard-bin", "cfn_guard_ffi-lib", "cfn_guard_lambda-lib",
                   "cfn_guard_lambda-bin", "library-bin"]


def tree_hash():
    h = hashlib.sha256()
    files = []
    for root, dirs, fs in os.walk(REPO):
        dirs[:] = [d for d in dirs if d not in ("target", ".git", "node_modules", "fuzz")]
        for f in fs:
            if f.endswith(".rs") or f in ("Cargo.toml", "Cargo.lock", "rust-toolchain.toml"):
                files.append(os.path.join(root, f))
    files.sort()
    for p in files:
        h.update(os.path.relpath(p, REPO).encode())
        h.update(b"\0")
        with open(p, "rb") as fh:
            h.update(fh.read())
        h.update(b"\0")
    # the driver is part of the key
    with open(os.path.join(DRIVER_DIR, "src", "main.rs"), "rb") as fh:
        h.update(fh.read())
    return h.hexdigest()[:20]


def nightly_sysroot():
    return subprocess.check_output(["rustc", "+nightly", "--print", "sysroot"], text=True).strip()


def build_driver():
    src = os.path.join(DRIVER_DIR, "src", "main.rs")
    if os.path.exists(DRIVER) and os.path.getmtime(DRIVER) >= os.path.getmtime(src):
        return
    env = dict(os.environ, CARGO_NET_OFFLINE="true")
    r = subprocess.run(["cargo", "+nightly", "build", "--release", "--offline"], cwd=DRIVER_DIR, env=env,
                       stdout=subprocess.PIPE, stderr=subprocess.STDOUT, text=True)
    if r.returncode != 0:
        sys.stderr.write(r.stdout)
        raise SystemExit("guard-facts driver failed to build")


def extract(force=False):
    """Return the directory holding the fact files for the current tree (extracting if needed)."""
    os.makedirs(CACHE, exist_ok=True)
    # one build directory (and lock) per analysed tree location: the registered commands always use /repo (slot ""); the seed / neutral
    # matrix runs point GUARD_REPO at scratch worktrees and may extract several trees at once
    slot = "" if os.path.realpath(REPO) == "/repo" else "-" + os.path.basename(os.path.normpath(REPO))
    lock = open(os.path.join(CACHE, "extract%s.lock" % slot), "w")
    fcntl.flock(lock, fcntl.LOCK_EX)
    try:
        build_driver()
        hsh = tree_hash()
        out = os.path.join(CACHE, "facts", hsh)
        ok = os.path.join(out, "OK")
        if os.path.exists(ok) and not force:
            return out
        if os.path.exists(out):
            shutil.rmtree(out)
        tmp = out + ".tmp%d" % os.getpid()
        if os.path.exists(tmp):
            shutil.rmtree(tmp)
        os.makedirs(tmp)
        target = os.path.join(CACHE, "target" + slot)
        # cargo's freshness cache would skip the wrapper: drop the members' fingerprints
        fp = os.path.join(target, "debug", ".fingerprint")
        if os.path.isdir(fp):
            for d in os.listdir(fp):
                if d.startswith(("cfn-guard", "cfn_guard", "library-")):
                    shutil.rmtree(os.path.join(fp, d), ignore_errors=True)
        ns = nightly_sysroot()
        env = dict(os.environ)
        env.update({
            "LD_LIBRARY_PATH": ns + "/lib",
            "RUSTC": ns + "/bin/rustc",
            "RUSTC_WORKSPACE_WRAPPER": DRIVER,
            "RUSTFLAGS": "-Zmir-opt-level=0 -Awarnings -Adangerous_implicit_autorefs",
            "CARGO_NET_OFFLINE": "true",
            "GUARD_FACTS_OUT": tmp,
            "CARGO_TARGET_DIR": target,
        })
        env.pop("RUSTUP_TOOLCHAIN", None)
        t0 = time.time()
        r = subprocess.run(["cargo", "check", "--offline", "--workspace"], cwd=REPO, env=env,
                           stdout=subprocess.PIPE, stderr=subprocess.STDOUT, text=True)
        if r.returncode != 0:
            sys.stderr.write(r.stdout[-6000:])
            raise SystemExit("fact extraction failed: /repo does not type-check with the analysis build")
        missing = [c for c in EXPECTED_CRATES if not os.path.exists(os.path.join(tmp, c + ".json"))]
        if missing:
            sys.stderr.write(r.stdout[-3000:])
            raise SystemExit("fact extraction incomplete (fail closed): missing %s" % missing)
        with open(os.path.join(tmp, "OK"), "w") as fh:
            json.dump({"wall_s": time.time() - t0, "hash": hsh}, fh)
        try:
            os.rename(tmp, out)
        except OSError:
            # another extraction of the very same tree (a matrix stream working on an identical patch) finished first
            shutil.rmtree(tmp, ignore_errors=True)
            if not os.path.exists(os.path.join(out, "OK")):
                raise
        # keep the cache small: retain the 6 most recent fact sets
        fdir = os.path.join(CACHE, "facts")
        ds = sorted((os.path.getmtime(os.path.join(fdir, d)), d) for d in os.listdir(fdir))
        for _, d in ds[:-(6 if not slot else 40)]:
            shutil.rmtree(os.path.join(fdir, d), ignore_errors=True)
        return out
    finally:
        fcntl.flock(lock, fcntl.LOCK_UN)
        lock.close()



# --------------------------------------------------------------------------- positive-control fixture

def extract_fixture(name="poscontrol"):
    """facts of /verif/fixtures/<name> (a dependency-free crate of constructs the zero-count rules must report)"""
    fdir = os.path.join(VERIF, "fixtures", name)
    os.makedirs(CACHE, exist_ok=True)
    lock = open(os.path.join(CACHE, "extract.lock"), "w")
    fcntl.flock(lock, fcntl.LOCK_EX)
    try:
        build_driver()
        h = hashlib.sha256()
        for root, dirs, fs in os.walk(fdir):
            dirs[:] = [d for d in dirs if d != "target"]
            for f in sorted(fs):
                with open(os.path.join(root, f), "rb") as fh:
                    h.update(f.encode() + b"\0" + fh.read())
        with open(os.path.join(DRIVER_DIR, "src", "main.rs"), "rb") as fh:
            h.update(fh.read())
        out = os.path.join(CACHE, "fixture-%s-%s" % (name, h.hexdigest()[:16]))
        if os.path.exists(os.path.join(out, "OK")):
            return out
        if os.path.exists(out):
            shutil.rmtree(out)
        os.makedirs(out)
        target = os.path.join(CACHE, "fixture-target")
        shutil.rmtree(os.path.join(target, "debug", ".fingerprint"), ignore_errors=True)
        ns = nightly_sysroot()
        env = dict(os.environ)
        env.update({"LD_LIBRARY_PATH": ns + "/lib", "RUSTC": ns + "/bin/rustc", "RUSTC_WORKSPACE_WRAPPER": DRIVER,
                    "RUSTFLAGS": "-Zmir-opt-level=0 -Awarnings", "CARGO_NET_OFFLINE": "true", "GUARD_FACTS_OUT": out,
                    "CARGO_TARGET_DIR": target})
        env.pop("RUSTUP_TOOLCHAIN", None)
        r = subprocess.run(["cargo", "+nightly", "check", "--offline"], cwd=fdir, env=env, stdout=subprocess.PIPE, stderr=subprocess.STDOUT, text=True)
        if r.returncode != 0 or not any(f.endswith(".json") for f in os.listdir(out)):
            sys.stderr.write(r.stdout[-3000:])
            raise SystemExit("positive-control fixture failed to compile under the fact extractor")
        with open(os.path.join(out, "OK"), "w") as fh:
            fh.write("ok")
        return out
    finally:
        fcntl.flock(lock, fcntl.LOCK_UN)
        lock.close()

# --------------------------------------------------------------------------- loading

class Crate:
    def __init__(self, d, name):
        self.name = name
        self.raw = d
        self.types = d["types"]
        self.adts = {a["path"]: a for a in d["adts"]}
        self.statics = d["statics"]
        self.impls = d["impls"]
        self.traits = {t["path"]: t for t in d["traits"]}
        self.fns = {}
        for f in d["fns"]:
            k = f["key"]
            if k in self.fns:
                # disambiguate deterministically (derive-generated anonymous consts and the like)
                n = 1
                while "%s#dup%d" % (k, n) in self.fns:
                    n += 1
                k = "%s#dup%d" % (k, n)
                f["key"] = k
            self.fns[k] = f

    # ---- types
    def ty(self, i):
        return self.types[i]

    def ty_str(self, i):
        t = self.types[i]
        if t["k"] == "prim":
            return t["n"]
        if t["k"] == "param":
            return t["n"]
        return t.get("s", "?")

    def ty_adt(self, i):
        """ADT path of type i (looking through references), or None."""
        t = self.types[i]
        while t["k"] in ("ref", "ptr"):
            t = self.types[t["t"]]
        if t["k"] == "adt":
            return t["p"]
        return None

    def strip_refs(self, i):
        t = self.types[i]
        while t["k"] in ("ref", "ptr"):
            i = t["t"]
            t = self.types[i]
        return i

    def variant_by_discr(self, adt_path, val):
        a = self.adts.get(adt_path)
        if not a:
            return None
        for idx, v in enumerate(a["variants"]):
            if v["discr"] == val:
                return idx, v["name"]
        return None

    def fn(self, key):
        return self.fns[key]

    def find_fns(self, suffix):
        return [k for k in self.fns if k == suffix or k.endswith("::" + suffix)]


_loaded = {}


def load(crate="cfn_guard-lib", facts_dir=None):
    d = facts_dir or extract()
    key = (d, crate)
    if key not in _loaded:
        with open(os.path.join(d, crate + ".json")) as fh:
            _loaded[key] = Crate(json.load(fh), crate)
    return _loaded[key]


if __name__ == "__main__":
    t = time.time()
    d = extract(force="--force" in sys.argv)
    print("facts:", d, "%.1fs" % (time.time() - t))
    for c in EXPECTED_CRATES:
        cr = load(c, d)
        print("  %-22s fns=%d types=%d adts=%d" % (c, len(cr.fns), len(cr.types), len(cr.adts)))

"""Small intraprocedural data-flow helpers over the MIR facts (flow-insensitive, per body)."""
from . import mirlib as M


def backward_slice(f, start_local, stop=None, stop_locals=None):
    """Flow-insensitive backward data slice inside body f.
    Returns (calls, consts, locals): the call terminators whose result (or whose `&mut` argument) may flow into start_local,
    the constants met on the way, and every local on the slice.
      x = rvalue                -> sources of the rvalue
      x = call(args)            -> the call, and its args
      (*p).. = rvalue           -> the local p was derived from depends on the rvalue (writes through pointers, vec![..] storage)
      call(.., &mut x, ..)      -> the call may define x: the call, and its other args
    stop(term) -> True marks a source: the call is recorded but its arguments are not followed
    stop_locals: locals that are sources themselves (they are part of the result, what defines them is not followed)"""
    seen, calls, consts = set(), [], []
    work = [start_local]
    ptr_writes, derived, mut_borrows = {}, {}, {}
    for b in f["blocks"]:
        for s in b["s"]:
            if "rv" not in s:
                continue
            if not isinstance(s["p"], int):
                ptr_writes.setdefault(M.place_local(s["p"]), []).append(s["rv"])
            elif s["rv"]["r"] in ("cast", "use", "ref", "rawptr"):
                rv = s["rv"]
                src = M.op_place(rv["o"]) if "o" in rv else rv.get("p")
                if src is not None:
                    derived.setdefault(M.place_local(src), []).append(s["p"])
                    if rv["r"] in ("ref", "rawptr") and rv.get("m"):
                        mut_borrows.setdefault(M.place_local(src), []).append(s["p"])
    arg_users = {}
    for b in f["blocks"]:
        t = b["term"]
        if t["t"] == "call":
            for x in t["args"]:
                pl = M.op_place(x)
                if pl is not None:
                    arg_users.setdefault(M.place_local(pl), []).append(t)

    def rv_sources(rv):
        out = []
        for k in ("o", "a", "b"):
            if k in rv:
                pl = M.op_place(rv[k])
                if pl is not None:
                    out.append(M.place_local(pl))
                elif "k" in rv[k]:
                    consts.append(rv[k]["k"])
        if "p" in rv:
            out.append(M.place_local(rv["p"]))
        for o in rv.get("ops", []):
            pl = M.op_place(o)
            if pl is not None:
                out.append(M.place_local(pl))
            elif "k" in o:
                consts.append(o["k"])
        return out

    def add_call(t):
        if not any(t is c for c in calls):
            calls.append(t)
        if stop is not None and stop(t):
            return
        for x in t["args"]:
            pl = M.op_place(x)
            if pl is not None:
                work.append(M.place_local(pl))
            elif "k" in x:
                consts.append(x["k"])

    while work:
        l = work.pop()
        if l in seen:
            continue
        seen.add(l)
        if stop_locals is not None and l in stop_locals:
            continue
        for b in f["blocks"]:
            for s in b["s"]:
                if "rv" in s and M.place_local(s["p"]) == l:
                    work.extend(rv_sources(s["rv"]))
            t = b["term"]
            if t["t"] == "call" and M.place_local(t["dest"]) == l:
                add_call(t)
        # storage written through a pointer derived from l; calls handed a mutable borrow of l
        stack, dseen = [l], set()
        while stack:
            d = stack.pop()
            if d in dseen:
                continue
            dseen.add(d)
            for rv in ptr_writes.get(d, []):
                work.extend(rv_sources(rv))
            stack.extend(derived.get(d, []))
        stack, mseen = list(mut_borrows.get(l, [])), set()
        while stack:
            r = stack.pop()
            if r in mseen:
                continue
            mseen.add(r)
            for t in arg_users.get(r, []):
                add_call(t)
            stack.extend(x for x in derived.get(r, []))
    return calls, consts, seen


def unit_functions(cr, root, module_prefixes, depth=2):
    """the root function together with its closures and the local (same-module, non-test) helpers it calls, transitively to `depth`:
    the unit over which a rule anchored at `root` looks, so that extracting lines into a private helper or a closure does not hide them"""
    out, work = [], [(root, 0)]
    seen = set()
    while work:
        k, d = work.pop()
        if k in seen or k not in cr.fns:
            continue
        seen.add(k)
        out.append(k)
        for kk in cr.fns:
            if kk.startswith(k + "::{closure") and kk not in seen:
                work.append((kk, d))
        if d >= depth:
            continue
        for bi, t in M.iter_calls(cr.fns[k]):
            c = t["fn"].get("key", "")
            if t["fn"].get("local") and c in cr.fns and c.startswith(tuple(module_prefixes)) and not cr.fns[c].get("file", "").endswith("_tests.rs"):
                work.append((c, d + 1))
    return out


def backward_slice_ip(cr, f, start_local, depth=2, stop=None):
    """backward_slice that descends into local (crate-defined) callees found on the slice: their return value's slice is added, so a
    computation extracted into a private helper is seen exactly as when it is written in place.
    Returns (calls, casts): calls = [(body_key, call term)], casts = [(cast kind, target type string)] over all bodies visited."""
    out_calls, out_casts = [], []
    seen = set()

    def visit(body, local, d):
        calls, consts, locs = backward_slice(body, local, stop=stop)
        for bi, si, st in M.iter_stmts(body):
            rv = st.get("rv")
            if rv and rv["r"] == "cast" and isinstance(st["p"], int) and st["p"] in locs:
                out_casts.append((rv["ck"], cr.ty_str(rv["ty"])))
        for c in calls:
            key = c["fn"].get("key", "")
            callee = cr.fns.get(key) if c["fn"].get("local") else None
            if callee is not None and callee.get("kind") in ("fn", "assoc", "closure") and d < depth and (key, 0) not in seen:
                seen.add((key, 0))
                out_calls.append((body.get("key"), c, True))
                visit(callee, 0, d + 1)
            else:
                out_calls.append((body.get("key"), c, False))
    visit(f, start_local, 0)
    return out_calls, out_casts


def dominators(f):
    """dom[b] = set of blocks that dominate b (iterative; bodies have a few hundred blocks at most); unreachable blocks get {b}"""
    n = len(f["blocks"])
    succ = [M.successors(b["term"]) for b in f["blocks"]]
    pred = [[] for _ in range(n)]
    for i, ss in enumerate(succ):
        for y in ss:
            if 0 <= y < n:
                pred[y].append(i)
    reach, st = {0}, [0]
    while st:
        x = st.pop()
        for y in succ[x]:
            if y not in reach and 0 <= y < n:
                reach.add(y)
                st.append(y)
    full = set(reach)
    dom = [set(full) if i in reach else {i} for i in range(n)]
    dom[0] = {0}
    changed = True
    order = sorted(reach)
    while changed:
        changed = False
        for b in order:
            if b == 0:
                continue
            ps = [dom[p] for p in pred[b] if p in reach]
            new = (set.intersection(*ps) if ps else set()) | {b}
            if new != dom[b]:
                dom[b] = new
                changed = True
    return dom


def natural_loop(f, header, dom=None):
    """the natural loop of `header`: header plus every block that reaches a back edge (t -> header, header dominates t) without passing
    through the header.  Unlike a strongly-connected-component test this separates an inner loop from the loop around it."""
    dom = dom or dominators(f)
    n = len(f["blocks"])
    succ = [M.successors(b["term"]) for b in f["blocks"]]
    pred = [[] for _ in range(n)]
    for i, ss in enumerate(succ):
        for y in ss:
            if 0 <= y < n:
                pred[y].append(i)
    tails = [t for t in pred[header] if header in dom[t]]
    body, st = {header}, list(tails)
    while st:
        x = st.pop()
        if x in body:
            continue
        body.add(x)
        st.extend(pred[x])
    return body

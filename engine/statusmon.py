"""Shared monitor hooks for the PASS/FAIL/SKIP evaluators (used by C01, C02, C04, C09, C16).

Event sources (all recognised from the resolved MIR, never from text):
  * a call whose destination type is Result<Status, Error> (not Try/FromResidual)  -> child status:
    forks Ok(PASS) / Ok(FAIL) / Ok(SKIP) / Err and records the outcome under the role chosen by
    `role_of(callee, term)` ("child", "cond", ...)
  * RecordTracer::start_record / end_record                                      -> typestate events
  * refinements of unknowns that derive from an Iterator::next result to a Status value
    (per-value statuses inside a clause)
The monitor state is a small hashable record; everything is finite.
"""
from . import ai as AIM
from . import mirlib as M

STATUS = "rules::Status"
NAMES = ("PASS", "FAIL", "SKIP")


def status_val(i):
    return ("enum", STATUS, i, ())


def status_of(v):
    """index of a concrete Status value or None"""
    if v and v[0] == "enum" and v[1] == STATUS:
        return v[2]
    return None


def find_status(a, st, v, depth=0):
    """first Status value inside an aggregate (record payload); ClauseCheck::Success counts as PASS"""
    v = a.resolve(st, v)
    if depth > 6:
        return None
    if v[0] == "enum":
        if v[1] == STATUS:
            return NAMES[v[2]]
        if v[1] == "rules::ClauseCheck":
            vs = a.cr.adts.get("rules::ClauseCheck", {}).get("variants", [])
            if v[2] < len(vs) and vs[v[2]]["name"] == "Success":
                return "PASS"
            if v[2] < len(vs) and vs[v[2]]["name"] == "NoValueForEmptyCheck":
                return "FAIL"     # this variant carries no status field and exists only for failures
        for x in v[3]:
            r = find_status(a, st, x, depth + 1)
            if r is not None:
                return r
    if v[0] == "tuple":
        for x in v[1]:
            r = find_status(a, st, x, depth + 1)
            if r is not None:
                return r
    return None


def record_kind(a, st, v):
    v = a.resolve(st, v)
    if v[0] == "enum" and v[1] == "rules::RecordType":
        vs = a.cr.adts["rules::RecordType"]["variants"]
        return vs[v[2]]["name"] if v[2] < len(vs) else "?"
    return None


def ctx_id(a, st, v):
    """identity of a record-context argument (&str): the cell it points into"""
    v = a.resolve(st, v)
    n = 0
    while v[0] == "ref" and n < 4:
        inner = a.resolve(st, a.read_at(st, v[1], v[2]))
        if inner[0] == "ref":
            v = inner
            n += 1
        else:
            break
    if v[0] == "ref":
        c = v[1]
        return "%s%s" % (c[0], c[2] if c[0] == "L" else ":" + str(c[1]))
    if v[0] == "sym":
        return "sym:" + v[1]
    if v[0] == "str":
        return "lit:" + v[1]
    return "?"


class Mon:
    """immutable monitor record"""
    __slots__ = ("d",)

    def __init__(self, d=None):
        self.d = d or {}

    def get(self, k, default=None):
        return self.d.get(k, default)

    def set(self, **kw):
        d = dict(self.d)
        d.update(kw)
        return Mon(d)

    def add(self, k, item):
        d = dict(self.d)
        d[k] = frozenset(d.get(k, frozenset())) | {item}
        return Mon(d)

    def _key(self):
        return tuple(sorted((k, v if not isinstance(v, frozenset) else tuple(sorted(v, key=str))) for k, v in self.d.items()))

    def __hash__(self):
        return hash(self._key())

    def __eq__(self, o):
        return isinstance(o, Mon) and self._key() == o._key()

    def __lt__(self, o):
        return str(self._key()) < str(o._key())

    def __repr__(self):
        return "Mon(%s)" % ", ".join("%s=%s" % (k, sorted(v, key=str) if isinstance(v, frozenset) else v) for k, v in sorted(self.d.items()))


def is_status_result(cr, body, place):
    ty, _ = M.place_ty(cr, None, place, body)
    if ty is None or ty.adt_path() != AIM.RESULT:
        return False
    args = ty.args()
    return bool(args) and args[0].adt_path() == STATUS


def is_plain_status(cr, body, place):
    ty, _ = M.place_ty(cr, None, place, body)
    return ty is not None and ty.adt_path() == STATUS


def helper_to_inline(a, st, callee):
    key = callee.get("key", "")
    fn = a.cr.fns.get(key) if callee.get("local") else None
    return bool(fn is not None and AIM.is_private_fn(fn) and key != st.frames[0].fkey and fn.get("file") == st.frames[0].body.get("file")
                and key not in [fr.fkey for fr in st.frames] and len(st.frames) < a.max_depth)


class StatusHooks(AIM.Hooks):
    """Generic hooks; subclasses override role_of / extra_call / check_ret."""
    MAX_DEPTH = 5

    def __init__(self, cr, track_records=True):
        self.cr = cr
        self.track_records = track_records
        self.results = []        # (value, mon, trace) at outermost return
        self.problems = []       # (kind, detail, trace)

    # -- customisation points
    def role_of(self, a, st, term, callee):
        return "child"

    def extra_call(self, a, st, term, callee, args):
        return None

    def watch(self, a, st, sid, val):
        """called for every refinement; return a new mon or None"""
        return None

    # -- hooks
    def call(self, a, st, term, callee, args):
        if AIM.INLINE_PRIVATE_HELPERS and helper_to_inline(a, st, callee):
            return None         # second-chance mode: a private helper of the same file is interpreted, not treated as a source
        r = self.extra_call(a, st, term, callee, args)
        if r is not None:
            return r
        decl = M.norm_path(callee.get("decl", ""))
        mon = st.mon if st.mon is not None else Mon()
        if decl.endswith("RecordTracer::start_record") and self.track_records and len(args) >= 2:
            cid = ctx_id(a, st, args[1])
            stack = mon.get("stack", ())
            if len(stack) >= self.MAX_DEPTH:
                self.problems.append(("record-depth", "records nest without bound (start_record in a loop without its end_record)", st.trace))
                return [(AIM.AI.DIVERGE, mon)]
            m2 = mon.set(stack=stack + (cid,))
            return [(("enum", AIM.RESULT, 0, (("tuple", ()),)), m2), (("enum", AIM.RESULT, 1, (("sym", "TRACER_ERR"),)), m2.add("ev", "tracer_err"))]
        if decl.endswith("RecordTracer::end_record") and self.track_records and len(args) >= 3:
            cid = ctx_id(a, st, args[1])
            stack = mon.get("stack", ())
            status = find_status(a, st, args[2])
            kind = record_kind(a, st, args[2])
            if not stack or stack[-1] != cid:
                self.problems.append(("record-nesting", "end_record(%s, %s) does not close the innermost open record %s" % (cid, kind, list(stack)), st.trace))
                return [(AIM.AI.DIVERGE, mon)]
            m2 = mon.set(stack=stack[:-1], last=(cid, kind, status, len(stack) - 1))
            return [(("enum", AIM.RESULT, 0, (("tuple", ()),)), m2), (("enum", AIM.RESULT, 1, (("sym", "TRACER_ERR"),)), m2.add("ev", "tracer_err"))]
        if decl in ("std::ops::Try::branch", "std::ops::FromResidual::from_residual"):
            return None
        if term.get("to") is not None and is_status_result(self.cr, st.top.body, term["dest"]):
            role = self.role_of(a, st, term, callee)
            if role is None:
                return None
            outs = []
            for i, n in enumerate(NAMES):
                outs.append((("enum", AIM.RESULT, 0, (status_val(i),)), mon.add(role, n)))
            outs.append((("enum", AIM.RESULT, 1, (("sym", "CHILD_ERR:" + role),)), mon.add(role, "Err")))
            return outs
        return None

    def constrained(self, a, st, sid, val):
        m = self.watch(a, st, sid, val)
        if m is not None:
            st.mon = m

    def ret(self, a, st, v):
        self.results.append((v, st.mon if st.mon is not None else Mon(), st.trace))

    def inline(self, a, st, key, fn):
        # derived PartialEq / Default / Clone on the small enums are interpreted, not assumed
        it = fn.get("impl_trait", "")
        if it in ("std::cmp::PartialEq", "std::default::Default", "std::clone::Clone", "std::marker::Copy"):
            self_ty = fn.get("impl_self")
            if self_ty is not None:
                p = self.cr.ty_adt(self_ty)
                if p in (STATUS, "rules::values::CmpOperator"):
                    return True
        return False


def ret_status(v):
    """('ok', idx) | ('err', payload) | ('other', v)"""
    if v[0] == "enum" and v[1] == AIM.RESULT:
        if v[2] == 0:
            s = status_of(v[3][0])
            if s is not None:
                return ("ok", NAMES[s])
            return ("okval", v[3][0])
        return ("err", v[3][0])
    return ("other", v)


def fold_all(seen):
    """FAIL iff some FAIL; PASS iff none FAIL and some PASS; else SKIP"""
    return "FAIL" if "FAIL" in seen else "PASS" if "PASS" in seen else "SKIP"


def fold_some(seen):
    return "PASS" if "PASS" in seen else "FAIL" if "FAIL" in seen else "SKIP"


def trace_str(tr, n=14):
    return " > ".join("%s:bb%d(l.%s)" % (t[1], t[2], t[3]) for t in tr[-n:])

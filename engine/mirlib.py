"""Helpers over the fact format written by guard-facts (see driver/src/main.rs).

place    : int | [int, [proj...]]         proj: "*" | ["f",i,name] | ["dc",i,name] | ["i",local] | ["ci",..] | ["ss",..]
operand  : {"c":place} | {"m":place} | {"k":{const}} | {"rt":..}
rvalue   : {"r":"use"|"ref"|"rawptr"|"cast"|"bin"|"un"|"discr"|"agg"|"repeat"|"tls", ...}
term     : {"t":"goto"|"switch"|"return"|"unreachable"|"drop"|"call"|"assert"|"resume"|..., ...}
"""
import re


def place_local(p):
    return p if isinstance(p, int) else p[0]


def place_projs(p):
    return [] if isinstance(p, int) else p[1]


def op_place(o):
    if "c" in o:
        return o["c"]
    if "m" in o:
        return o["m"]
    return None


def op_const(o):
    return o.get("k")


_GEN = re.compile(r"::<(?!impl )[^<>]*(?:<[^<>]*(?:<[^<>]*>[^<>]*)*>[^<>]*)*>")


def norm_path(p):
    """Drop generic argument lists: std::option::Option::<T>::unwrap -> std::option::Option::unwrap"""
    prev = None
    while prev != p:
        prev = p
        p = _GEN.sub("", p)
    return p


def callee_paths(term):
    """(resolved path, declared path) of a call terminator, generics stripped; ('', '') for indirect."""
    fn = term.get("fn", {})
    return norm_path(fn.get("path", "")), norm_path(fn.get("decl", ""))


def iter_calls(f, include_promoted=False):
    for bi, b in enumerate(f["blocks"]):
        t = b["term"]
        if t["t"] in ("call", "tailcall"):
            yield bi, t


def iter_stmts(f):
    for bi, b in enumerate(f["blocks"]):
        for si, s in enumerate(b["s"]):
            yield bi, si, s


def successors(term):
    t = term["t"]
    if t == "goto":
        return [term["to"]]
    if t == "switch":
        return [c[1] for c in term["cases"]] + [term["else"]]
    if t in ("drop", "assert"):
        return [term["to"]]
    if t == "call":
        return [] if term["to"] is None else [term["to"]]
    return []


def local_names(f):
    """local id -> user variable name (only for whole-local debug entries)."""
    out = {}
    for name, p in f.get("names", []):
        if isinstance(p, int):
            out.setdefault(p, name)
    return out


def macro_of(term):
    return term.get("mac", [])


def in_macro(term, *names):
    macs = term.get("mac", [])
    return any(any(n in m for n in names) for m in macs)


class Ty:
    """A type = index into the crate's type table + substitution environment for params."""
    __slots__ = ("cr", "idx", "env")

    def __init__(self, cr, idx, env=None):
        self.cr = cr
        self.idx = idx
        self.env = env or {}
        # resolve params eagerly
        t = cr.types[idx]
        n = 0
        while t["k"] == "param" and t["n"] in self.env and n < 20:
            other = self.env[t["n"]]
            self.idx, self.env = other.idx, other.env
            t = cr.types[self.idx]
            n += 1

    @property
    def t(self):
        return self.cr.types[self.idx]

    @property
    def kind(self):
        return self.t["k"]

    def deref(self):
        t = self.t
        if t["k"] in ("ref", "ptr"):
            return Ty(self.cr, t["t"], self.env)
        if t["k"] == "adt" and t["p"] in ("std::boxed::Box", "std::rc::Rc", "std::sync::Arc") and t["a"]:
            return Ty(self.cr, t["a"][0], self.env)
        return None

    def strip_refs(self):
        cur = self
        while cur.kind in ("ref", "ptr"):
            cur = Ty(self.cr, cur.t["t"], cur.env)
        return cur

    def adt_path(self):
        t = self.t
        return t["p"] if t["k"] == "adt" else None

    def adt(self):
        p = self.adt_path()
        return self.cr.adts.get(p) if p else None

    def args(self):
        t = self.t
        return [Ty(self.cr, a, self.env) for a in t.get("a", [])]

    def field(self, variant, i):
        t = self.t
        if t["k"] == "tuple":
            return Ty(self.cr, t["e"][i], self.env)
        if t["k"] == "closure":
            ups = t.get("up", [])
            return Ty(self.cr, ups[i], self.env) if i < len(ups) else None
        a = self.adt()
        if not a:
            return None
        vs = a["variants"]
        if variant is None:
            variant = 0
        if variant >= len(vs) or i >= len(vs[variant]["fields"]):
            return None
        fty = vs[variant]["fields"][i]["ty"]
        env = {}
        tps = a.get("tparams") or []
        for name, arg in zip(tps, t.get("a", [])):
            env[name] = Ty(self.cr, arg, self.env)
        return Ty(self.cr, fty, env)

    def elem(self):
        t = self.t
        if t["k"] in ("slice", "array"):
            return Ty(self.cr, t["t"], self.env)
        if t["k"] == "adt" and t["p"] == "std::vec::Vec" and t["a"]:
            return Ty(self.cr, t["a"][0], self.env)
        return None

    def __str__(self):
        t = self.t
        if t["k"] in ("prim", "param"):
            return t["n"]
        return t.get("s", "?")


def place_ty(cr, f, place, body=None):
    """Type of a place (Ty) and the active variant index (after a downcast) or None."""
    body = body or f
    local = place_local(place)
    ty = Ty(cr, body["locals"][local])
    variant = None
    for pr in place_projs(place):
        if ty is None:
            return None, None
        if pr == "*":
            ty = ty.deref()
            variant = None
        elif isinstance(pr, list) and pr[0] == "dc":
            variant = pr[1]
        elif isinstance(pr, list) and pr[0] == "f":
            ty = ty.field(variant, pr[1])
            variant = None
        elif isinstance(pr, list) and pr[0] in ("i", "ci"):
            ty = ty.elem()
            variant = None
        elif isinstance(pr, list) and pr[0] == "ss":
            variant = None
        else:
            variant = None
    return ty, variant


def fmt_template(hexbytes):
    """decode a core::fmt::Arguments template (this toolchain's byte encoding) back to format-string source form:
    literal text with `{{`/`}}` escapes and `{}` for every placeholder; None if the encoding is not understood"""
    try:
        b = bytes.fromhex(hexbytes)
    except ValueError:
        return None
    out = []
    i = 0
    while i < len(b):
        c = b[i]
        i += 1
        if c == 0:
            return "".join(out)
        if c < 0x80:
            lit = b[i:i + c]
            i += c
        elif c == 0x80:
            n = b[i] | (b[i + 1] << 8)
            i += 2
            lit = b[i:i + n]
            i += n
        elif c >= 0xC0:
            opts = c & 0x3F
            # option bits: 1 flags(u32) 2 width(u16) 4 precision(u16) 8 arg index(u16)
            if opts & 1:
                i += 4
            if opts & 2:
                i += 2
            if opts & 4:
                i += 2
            if opts & 8:
                i += 2
            out.append("{}" if opts == 0 else "{:?}")
            continue
        else:
            return None
        try:
            out.append(lit.decode("utf-8").replace("{", "{{").replace("}", "}}"))
        except UnicodeDecodeError:
            return None
    return "".join(out)

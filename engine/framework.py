"""Check framework: obligations, known findings, evidence, exit protocol."""
import json
import os
import re
import sys
import time
import traceback

from . import facts

VERIF = facts.VERIF
KNOWN = os.path.join(VERIF, "known_findings.txt")


class Ob:
    """One obligation of one rule.  ok: True (discharged), False (violated / cannot be discharged)."""

    def __init__(self, rule, key, ok, detail="", file="", line=0, sample=None, kind="obligation"):
        self.rule = rule
        self.key = key
        self.ok = ok
        self.detail = detail
        self.file = file
        self.line = line
        self.sample = sample
        self.kind = kind

    def as_json(self):
        return {"rule": self.rule, "key": self.key, "ok": self.ok, "detail": self.detail,
                "file": self.file, "line": self.line, "sample": self.sample}


class Ctx:
    def __init__(self, tier):
        self.tier = tier
        self.facts_dir = facts.extract()
        self.lib = facts.load("cfn_guard-lib", self.facts_dir)
        self._bin = None
        self._others = {}
        self.obs = []
        self.analysed = {}      # free-form: what was looked at (functions, call sites, ...)
        self.assumptions = []
        self.notes = []
        self.states = 0
        self.transitions = 0

    @property
    def bin(self):
        if self._bin is None:
            self._bin = facts.load("cfn_guard-bin", self.facts_dir)
        return self._bin

    def crate(self, name):
        if name not in self._others:
            self._others[name] = facts.load(name, self.facts_dir)
        return self._others[name]

    def crates(self):
        """the crates a rule over 'the guard code' must cover: the library and the CLI binary's own copy"""
        return [self.lib, self.bin]

    def fixture(self, name="poscontrol"):
        if name not in self._others:
            self._others[name] = facts.load(name + "-lib", facts.extract_fixture(name))
        return self._others[name]

    def positive_control(self, rule, what, run, expect):
        """run(sub_ctx, fixture_crate) applies a rule to the positive-control fixture; every substring in `expect` must occur in the key
        or detail of some obligation the rule FAILS there.  Recorded as one obligation of `rule`: a rule that no longer sees the
        construct it exists for fails here instead of passing vacuously on the repository."""
        sub = Ctx.__new__(Ctx)
        sub.__dict__.update(self.__dict__)
        sub.obs = []
        sub.analysed = {}
        sub.assumptions = []
        try:
            run(sub, self.fixture())
            failed = ["%s %s" % (o.key, o.detail) for o in sub.obs if not o.ok]
            missing = [e for e in expect if not any(e in x for x in failed)]
            self.ob(rule, "%s:positive-control:%s" % (rule, what), not missing,
                    ("the rule does not report %s in the fixture /verif/fixtures/poscontrol (it reported: %s)" % (missing, [x[:60] for x in failed][:4])) if missing
                    else "reports all %d planted constructs of the fixture (%s)" % (len(expect), ", ".join(expect)), file="/verif/fixtures/poscontrol/src/lib.rs")
        except Exception as e:                                  # a crash of the rule on the fixture is a failed control, not a checker error
            self.ob(rule, "%s:positive-control:%s" % (rule, what), False, "the rule crashed on the fixture: %r" % (e,), file="/verif/fixtures/poscontrol/src/lib.rs")

    def ob(self, rule, key, ok, detail="", fn=None, line=0, file="", sample=None):
        if fn is not None:
            file = file or fn.get("file", "")
            line = line or fn.get("line", 0)
        o = Ob(rule, key, bool(ok), detail, file, line, sample)
        self.obs.append(o)
        return o

    def lost(self, rule, key, what):
        """fail closed: an anchor the rule depends on is gone"""
        return self.ob(rule, key, False, "anchor lost (fail closed): " + what)

    def note_analysed(self, k, v):
        self.analysed.setdefault(k, [])
        if isinstance(v, list):
            self.analysed[k].extend(v)
        else:
            self.analysed[k].append(v)


def load_known():
    out = {}
    if not os.path.exists(KNOWN):
        return out
    for ln in open(KNOWN):
        ln = ln.strip()
        m = re.match(r"finding:\s+property=(C\d+)\s+key=(.*?)\s+\|\|\s+(.*)", ln)
        if m:
            out[(m.group(1), m.group(2))] = m.group(3)
    return out


def thorough_passes(ctx, module):
    """The thorough tier re-decides the property on everything else the build compiles and with deeper abstract domains:
      [bin-copy]  the CLI binary compiles its OWN copy of rules::/commands::/utils:: (guard/src/main.rs declares the modules again), and
                  that copy — not the library's — is what `cfn-guard` executes; rules that read `ctx.lib` are run again on it
      [lib-copy]  the converse for rules anchored in the binary's copy (C06, C19): run again on the library's copy of commands::
      [cap=3]     loop counters of the abstract interpreter saturate one step later (3 instead of 2), so every counter-guarded
                  branch is explored for one more iteration before widening
    Obligation keys of the extra passes carry the pass name as a prefix; a known finding matches with the prefix removed."""
    from . import ai as AIM
    views = getattr(module, "THOROUGH_VIEWS", ("bin-copy", "cap=3"))
    base_obs = ctx.obs
    for view in views:
        sub = Ctx.__new__(Ctx)
        sub.__dict__.update(ctx.__dict__)
        sub.obs = []
        sub.analysed = {}
        sub.assumptions = []
        old_cap = AIM.CAP
        try:
            if view == "bin-copy":
                sub.lib = ctx.bin
            elif view == "lib-copy":
                sub._bin = ctx.lib
            elif view.startswith("cap="):
                AIM.CAP = int(view[4:])
            module.run(sub)
        finally:
            AIM.CAP = old_cap
        for o in sub.obs:
            o.key = "[%s] %s" % (view, o.key)
            if o.sample is not None:
                o.sample = None
        base_obs.extend(sub.obs)
        ctx.states, ctx.transitions = sub.states, sub.transitions
        ctx.note_analysed("thorough_passes", "%s: %d obligations re-decided" % (view, len(sub.obs)))
    ctx.obs = base_obs


def second_chance(ctx, module, prop):
    """Obligations that failed are re-decided with the private helper functions of the analysed function's file interpreted in place
    (engine.ai.INLINE_PRIVATE_HELPERS).  Interpreting a callee instead of treating it as opaque preserves semantics, so an obligation that
    holds in this mode holds; a genuine violation fails in both modes.  This makes the verdict independent of whether a few lines live
    in the function itself or in a private helper next to it."""
    from . import ai as AIM
    known = load_known()
    failed = [o for o in ctx.obs if not o.ok and (prop, o.key) not in known and not o.key.startswith("[")]
    if not failed:
        return
    sub = Ctx.__new__(Ctx)
    sub.__dict__.update(ctx.__dict__)
    sub.obs = []
    sub.analysed = {}
    sub.assumptions = []
    AIM.INLINE_PRIVATE_HELPERS = True
    try:
        module.run(sub)
    except Exception:
        return
    finally:
        AIM.INLINE_PRIVATE_HELPERS = False
    second = {}
    for o in sub.obs:
        second.setdefault(o.key, o)
    n = 0
    failing2 = [k for k, x in second.items() if not x.ok]
    for o in failed:
        o2 = second.get(o.key)
        if o2 is None:
            # rules that key a failure by its message (`<rule>:<function>:<what went wrong>`) report the passing case under the shorter key
            # `<rule>:<function>`: take that one, provided nothing under it fails in the second run
            cands = [x for k, x in second.items() if x.ok and o.key.startswith(k + ":") and not any(fk.startswith(k) for fk in failing2)]
            o2 = max(cands, key=lambda x: len(x.key)) if cands else None
        if o2 is not None and o2.ok:
            o.ok = True
            o.detail = "(re-decided with private helpers interpreted in place) " + o2.detail
            n += 1
    if n:
        ctx.note_analysed("second_chance", "%d of %d failed obligations discharged with private helpers inlined" % (n, len(failed)))


def run_check(prop, tier, module, level, explanation, checker_cmd):
    t0 = time.time()
    seed = int(os.environ.get("VERIF_SEED", "0") or 0)
    evid_dir = os.environ.get("VERIF_EVIDENCE_DIR") or os.path.join(VERIF, "evidence")   # (override: seed-matrix runs on a scratch worktree only)
    os.makedirs(os.path.join(evid_dir, "replay"), exist_ok=True)
    evid_path = os.path.join(evid_dir, prop + ".json")
    try:
        ctx = Ctx(tier)
        module.run(ctx)
        if tier == "thorough":
            thorough_passes(ctx, module)
        second_chance(ctx, module, prop)
    except SystemExit:
        raise
    except Exception:
        traceback.print_exc()
        print("CHECK-ERROR property=%s (checker failure, not a verdict)" % prop)
        sys.exit(2)
    known = load_known()
    violations = []
    known_hits = []
    for o in ctx.obs:
        if o.ok:
            continue
        if (prop, o.key) in known or (prop, re.sub(r"^\[[a-z0-9=-]+\] ", "", o.key)) in known:
            known_hits.append(o)
        else:
            violations.append(o)
    n_ob = len(ctx.obs)
    n_ok = sum(1 for o in ctx.obs if o.ok)
    rules = {}
    for o in ctx.obs:
        r = rules.setdefault(o.rule, {"obligations": 0, "discharged": 0})
        r["obligations"] += 1
        r["discharged"] += 1 if o.ok else 0
    samples = [o.as_json() for o in ctx.obs if o.sample is not None][:12]
    if not samples:
        samples = [o.as_json() for o in ctx.obs[:8]]
    distinct = len(set(o.key for o in ctx.obs))
    cov = {
        "explanation": explanation,
        "obligations": n_ob,
        "discharged": n_ok + len(known_hits) if level != "proof" else n_ok,
        "known_findings": [o.key for o in known_hits],
        "checker_cmd": checker_cmd,
        "trusted_base": ["rustc nightly front end + MIR construction (mir-opt-level=0)",
                         "guard-facts extractor (/verif/driver)", "python engines (/verif/engine)",
                         "spec tables written from the property text (/verif/rules)"],
        "evaluations": n_ob,
        "distinct_nontrivial": distinct,
        "rule": "one evaluation = one obligation of a static rule (table row, monitor assertion, call site, "
                "construct); distinct = distinct obligation keys; every obligation is non-trivial by "
                "construction (it names a code construct that exists in the analysed tree)",
        "samples": samples,
        "rules": rules,
        "analysed": {k: (v if len(v) <= 60 else v[:60] + ["... %d more" % (len(v) - 60)]) for k, v in ctx.analysed.items()},
        "states": ctx.states,
        "transitions": ctx.transitions,
        "exhaustive": True,
        "facts": os.path.basename(ctx.facts_dir),
    }
    ev = {
        "property_id": prop,
        "tier": tier,
        "seed": seed,
        "level": level,
        "coverage": cov,
        "assumptions": ctx.assumptions,
        "wall_s": round(time.time() - t0, 2),
        "violations": len(violations),
    }
    with open(evid_path, "w") as fh:
        json.dump(ev, fh, indent=1)
    for o in known_hits:
        print("KNOWN-FINDING: property=%s %s %s" % (prop, o.key, known.get((prop, o.key)) or known[(prop, re.sub(r"^\[[a-z0-9=-]+\] ", "", o.key))]))
    print("%s tier=%s: %d obligations, %d discharged, %d known findings, %d violations (%.1fs)" % (
        prop, tier, n_ob, n_ok, len(known_hits), len(violations), time.time() - t0))
    for r, c in sorted(rules.items()):
        print("  %-40s %d/%d" % (r, c["discharged"], c["obligations"]))
    if violations:
        for i, o in enumerate(violations):
            rp = os.path.join(evid_dir, "replay", "%s-%d.json" % (prop, i))
            with open(rp, "w") as fh:
                json.dump(o.as_json(), fh, indent=1)
            print("  violated: [%s] %s  %s:%s  %s" % (o.rule, o.key, o.file, o.line, o.detail[:600]))
            print("VIOLATION property=%s replay=%s" % (prop, rp))
        sys.exit(1)
    sys.exit(0)

"""E1: whole-crate call graph with class-hierarchy resolution of dyn / generic-parameter calls.

Edges:
  direct / resolved / closure  : the resolved callee key
  dyn / trait (unresolved)     : every local impl of that trait method (CHA); for Fn*/call* every closure or fn item
                                 whose value is created in the caller chain is approximated by: every closure defined
                                 inside a function that is itself reachable + every fn item used as a value
  closures                     : a function that constructs a closure (aggregate) or mentions a fn item as a value has an
                                 edge to it (it may pass it to std, which calls it)
"""
from . import mirlib as M


class CallGraph:
    def __init__(self, cr, over_approx=True):
        self.cr = cr
        self.over_approx = over_approx
        self.edges = {}       # key -> set(keys) (all edges, CHA)
        self.vedges = {}      # key -> set(impl keys reached only through dynamic dispatch on a LOCAL trait)
        self.impl_self = {}   # impl method key -> self ADT path
        self.ext_calls = {}   # key -> list of (norm path, term) for non-local callees
        self.trait_impls = {}  # (trait path, method name) -> [impl fn keys]
        self.trait_defaults = {}
        for imp in cr.impls:
            tr = imp.get("trait")
            if not tr:
                continue
            for name, key in imp["methods"]:
                self.trait_impls.setdefault((tr, name), []).append(key)
                self.impl_self[key] = cr.ty_adt(imp["self"])
        for tpath, t in cr.traits.items():
            for m in t["methods"]:
                if len(m) > 2 and m[2]:
                    self.trait_defaults[(tpath, m[0])] = m[1]
        # local impls of external traits, by self ADT: external code reaches local code only through these
        self.ext_trait_impls = {}
        for imp in cr.impls:
            tr = imp.get("trait")
            if not tr or tr in cr.traits:
                continue
            adt = cr.ty_adt(imp["self"])
            if adt:
                self.ext_trait_impls.setdefault(adt, []).extend(k for _, k in imp["methods"])
        self._adt_cache = {}
        # which concrete types are ever turned into `dyn Trait` (unsizing casts): a call through `&dyn Trait` can only reach their impls
        self.unsized_to = {}
        for k, f in cr.fns.items():
            for body in [f] + f.get("promoted", []):
                for b in body.get("blocks", []):
                    for st in b["s"]:
                        rv = st.get("rv")
                        if not (rv and rv.get("r") == "cast" and "Unsize" in str(rv.get("ck", ""))):
                            continue
                        tgt = cr.ty_str(rv["ty"]) if isinstance(rv.get("ty"), int) else ""
                        if "dyn " not in tgt:
                            continue
                        pl = M.op_place(rv.get("o", {}))
                        src = None
                        if pl is not None:
                            ty, _ = M.place_ty(cr, None, pl, body)
                            if ty is None and isinstance(pl, int) and pl < len(body.get("locals", [])):
                                ty = M.Ty(cr, body["locals"][pl])
                            src = ty.strip_refs().adt_path() if ty is not None else None
                            if src is None and ty is not None and "dyn " in cr.ty_str(ty.idx if hasattr(ty, "idx") else body["locals"][pl]):
                                continue        # dyn -> dyn reborrow: no new concrete type
                        elif "k" in rv.get("o", {}) and "ty" in rv["o"]["k"]:
                            src = M.Ty(cr, rv["o"]["k"]["ty"]).strip_refs().adt_path()
                        for tr in cr.traits:
                            if ("dyn " + tr) in tgt:
                                self.unsized_to.setdefault(tr, set()).add(src)
        self._build()

    def _adts_in(self, tyidx, depth=0):
        """local ADT paths mentioned in a type (through refs, generic args, tuples, slices)"""
        if tyidx in self._adt_cache:
            return self._adt_cache[tyidx]
        out = set()
        self._adt_cache[tyidx] = out
        if depth > 6:
            return out
        t = self.cr.types[tyidx]
        k = t["k"]
        if k == "adt":
            if t["p"] in self.ext_trait_impls:
                out.add(t["p"])
            for a in t.get("a", []):
                out |= self._adts_in(a, depth + 1)
        elif k in ("ref", "ptr", "slice", "array"):
            out |= self._adts_in(t["t"], depth + 1)
        elif k == "tuple":
            for e in t["e"]:
                out |= self._adts_in(e, depth + 1)
        return out

    def _scan_values(self, body, out):
        """closures constructed and fn items mentioned as values"""
        def scan_op(o):
            k = o.get("k") if isinstance(o, dict) else None
            if k:
                t = self.cr.types[k["ty"]]
                if t["k"] == "fndef" and t.get("key") in self.cr.fns:
                    out.add(t["key"])
                if t["k"] == "closure" and t.get("key") in self.cr.fns:
                    out.add(t["key"])
        for b in body["blocks"]:
            for s in b["s"]:
                rv = s.get("rv")
                if not rv:
                    continue
                if rv.get("r") == "agg":
                    if rv.get("ak") in ("closure", "coroutine") and rv.get("key") in self.cr.fns:
                        out.add(rv["key"])
                    for o in rv["ops"]:
                        scan_op(o)
                elif rv.get("r") in ("use", "cast"):
                    scan_op(rv["o"])
            t = b["term"]
            if t["t"] in ("call", "tailcall"):
                for o in t["args"]:
                    scan_op(o)

    def _build(self):
        cr = self.cr
        for key, f in cr.fns.items():
            outs = set()
            vouts = set()
            ext = []
            bodies = [f] + f.get("promoted", [])
            for body in bodies:
                self._scan_values(body, outs)
                for b in body["blocks"]:
                    t = b["term"]
                    if t["t"] not in ("call", "tailcall"):
                        continue
                    fn = t["fn"]
                    via = fn.get("via")
                    if via == "indirect":
                        continue
                    k = fn.get("key")
                    if k in cr.fns:
                        outs.add(k)
                        if via not in ("trait", "dyn"):
                            continue
                    decl = M.norm_path(fn.get("decl", ""))
                    if via in ("trait", "dyn"):
                        # local trait? -> all impls
                        parts = decl.rsplit("::", 1)
                        if len(parts) == 2:
                            impls = self.trait_impls.get((parts[0], parts[1]))
                            if impls and via == "dyn" and not self.over_approx:
                                # precise graph: only types that are unsized to this dyn trait somewhere (None = unknown source: keep all)
                                srcs = self.unsized_to.get(parts[0])
                                if srcs and None not in srcs:
                                    impls = [i for i in impls if self.impl_self.get(i) in srcs] or impls
                            if impls:
                                outs.update(i for i in impls if i in cr.fns)
                                if parts[0] in cr.traits:
                                    vouts.update(i for i in impls if i in cr.fns)
                                d = self.trait_defaults.get((parts[0], parts[1]))
                                if d in cr.fns:
                                    outs.add(d)
                                continue
                    ext.append((M.norm_path(fn.get("path", "")), t))
                    for ga in (fn.get("ga", []) if self.over_approx else []):
                        for adt in self._adts_in(ga):
                            outs.update(k2 for k2 in self.ext_trait_impls.get(adt, ()) if k2 in cr.fns)
                    # std trait methods implemented locally (Display::fmt, Iterator::next, From::from, ...):
                    parts = decl.rsplit("::", 1)
                    if len(parts) == 2:
                        impls = self.trait_impls.get((parts[0], parts[1]))
                        if impls and via in ("trait", "dyn"):
                            outs.update(i for i in impls if i in cr.fns)
            self.edges[key] = outs
            self.vedges[key] = vouts
            self.ext_calls[key] = ext

    def _constructed(self, key):
        """ADTs instantiated (aggregate / unit constant) in a function"""
        c = self._cons_cache.get(key)
        if c is not None:
            return c
        c = set()
        f = self.cr.fns[key]
        for body in [f] + f.get("promoted", []):
            for b in body["blocks"]:
                for s in b["s"]:
                    rv = s.get("rv")
                    if not rv:
                        continue
                    if rv.get("r") == "agg" and rv.get("ak") == "adt":
                        c.add(rv["adt"])
                    for o in ([rv.get("o")] if rv.get("o") else []) + list(rv.get("ops", [])):
                        k = o.get("k") if isinstance(o, dict) else None
                        if k and "zst" in k:
                            p = self.cr.ty_adt(k["ty"])
                            if p:
                                c.add(p)
                t = b["term"]
                if t["t"] in ("call", "tailcall"):
                    for o in t["args"]:
                        k = o.get("k") if isinstance(o, dict) else None
                        if k and "zst" in k:
                            p = self.cr.ty_adt(k["ty"])
                            if p:
                                c.add(p)
        self._cons_cache[key] = c
        return c

    def reachable(self, roots, rta=True):
        """reachable functions; with rta, dynamic dispatch on a local trait only reaches impls whose Self type is
        instantiated somewhere in the reachable code (rapid type analysis, iterated to a fixpoint)"""
        if not hasattr(self, "_cons_cache"):
            self._cons_cache = {}
        seen = set()
        inst = set()
        pending = {}      # self adt -> impl keys waiting for the type to be instantiated
        stack = [r for r in roots if r in self.cr.fns]
        while stack:
            k = stack.pop()
            if k in seen:
                continue
            seen.add(k)
            if rta:
                for adt in self._constructed(k):
                    if adt not in inst:
                        inst.add(adt)
                        stack.extend(pending.pop(adt, ()))
            v = self.vedges.get(k, ())
            for w in self.edges.get(k, ()):
                if rta and w in v:
                    adt = self.impl_self.get(w)
                    if adt is not None and adt not in inst:
                        pending.setdefault(adt, set()).add(w)
                        continue
                stack.append(w)
        return seen

    def callers(self, key):
        return sorted(k for k, outs in self.edges.items() if key in outs)

    def sccs(self, within=None):
        """Tarjan; returns list of SCCs (lists) with more than one node or a self loop"""
        nodes = list(within) if within is not None else list(self.edges)
        nodeset = set(nodes)
        index = {}
        low = {}
        onstack = set()
        stack = []
        out = []
        counter = [0]
        import sys
        sys.setrecursionlimit(100000)

        def strong(v):
            index[v] = low[v] = counter[0]
            counter[0] += 1
            stack.append(v)
            onstack.add(v)
            for w in self.edges.get(v, ()):
                if w not in nodeset:
                    continue
                if w not in index:
                    strong(w)
                    low[v] = min(low[v], low[w])
                elif w in onstack:
                    low[v] = min(low[v], index[w])
            if low[v] == index[v]:
                comp = []
                while True:
                    w = stack.pop()
                    onstack.discard(w)
                    comp.append(w)
                    if w == v:
                        break
                if len(comp) > 1 or v in self.edges.get(v, ()):
                    out.append(sorted(comp))
        for v in nodes:
            if v not in index:
                strong(v)
        return out


def entry_points(cr, kind):
    """entry functions of a crate: bin -> main; lib -> pub fns and pub methods (the library API)"""
    if kind == "bin":
        return [k for k in cr.fns if k == "main"]
    roots = []
    for k, f in cr.fns.items():
        if f.get("vis") == "pub" and f["kind"] in ("fn", "assoc") and not k.startswith("<") or (f.get("vis") == "pub" and f.get("impl_trait") is None and f["kind"] == "assoc"):
            roots.append(k)
    # trait impls of the public command traits
    for k, f in cr.fns.items():
        it = f.get("impl_trait", "")
        if it.endswith("commands::Executable") or it.endswith("CommandBuilder"):
            roots.append(k)
    return sorted(set(roots))

"""C19 — generated rules describe the template they were generated from (structural clauses; DESIGN §5 C19).

The round trip generate -> parse -> validate is behavioural and NOT claimed.  Decided necessary conditions, all in
guard/src/commands/rulegen.rs (the CLI binary's crate):
  R-C19-self-check     print_rules writes the generated text to the output only in the Ok arm of rules_file(<that same text>); the Err arm
                       writes an error and nothing else reaches the writer ("reports an error or emits text that parses")
  R-C19-emitted-shape  what print_rules appends, per type and per property, as a token sequence with the format arguments resolved to their
                       sources: `let V = Resources.*[ Type == 'T' ]`, `rule R when %V !empty {`, then `%V.Properties.P == <only value>` when
                       the value set has one element and `%V.Properties.P IN [<all values joined>]` otherwise, then `}` — the same V everywhere,
                       T the map key, P the property key, the values from that property's set
  R-C19-value-flow     gen_rules: every path that reaches the type lookup records the value under (type, property) — a fresh one-element set
                       or an insert into the existing set — and between the template value and the recorded string only operations that are
                       the identity on the property's domain (strings without newlines; non-strings rendered by serde_json) are applied, with
                       strings wrapped in one pair of double quotes
  R-C19-output-starts-empty  every file the CLI opens for output (rulegen --output, parse-tree --output) starts empty: it is created with
                       File::create / create_new, or by an OpenOptions chain that sets truncate(true) or create_new(true) and never
                       append(true) — otherwise a shorter second run leaves the tail of an earlier run behind the emitted rules
"""
import re
from engine import ai, flow, mirlib as M
from engine.statusmon import Mon
from rules.c08 import def_of_local

LEVEL = "other"
THOROUGH_VIEWS = ("lib-copy", "cap=3")   # this module already reads both the library's and the binary's copy where it matters
PR = "commands::rulegen::print_rules"
GR = "commands::rulegen::gen_rules"


def tokens(text):
    """token sequence of emitted guard text; whitespace-insensitive, quote style and `not`/`!` spelling normalised"""
    text = text.replace("{{", "{").replace("}}", "}")
    toks = re.findall(r"\{\}|==|!=|>=|<=|\.\*|[A-Za-z_][A-Za-z_0-9]*|\S", text.replace("{}", " \x01 "))
    out = []
    for t in re.findall(r"\x01|==|!=|>=|<=|[A-Za-z_][A-Za-z_0-9]*|\S", text.replace("{}", "\x01")):
        if t == "\x01":
            out.append("{}")
        elif t in ("'", '"'):
            out.append("Q")
        elif t.lower() == "not":
            out.append("!")
        elif t.lower() in ("in", "empty", "when", "rule", "let"):
            out.append(t.lower())
        else:
            out.append(t)
    return out


SPEC_LET = tokens("let {} = Resources.*[ Type == '{}' ]")
SPEC_RULE = tokens("rule {} when %{} !empty {{")
SPEC_EQ = tokens("%{}.Properties.{} == {}")
SPEC_IN = tokens("%{}.Properties.{} IN [{}]")
SPEC_END = tokens("}}")


class PrintHooks(ai.Hooks):
    def __init__(self, cr):
        self.cr = cr
        self.results = []
        self.writer_calls = set()

    def ret(self, a, st, v):
        self.results.append((v, st.mon or Mon(), st.trace))

    def call(self, a, st, term, callee, args):
        cr = self.cr
        p = M.norm_path(callee.get("path", ""))
        decl = M.norm_path(callee.get("decl", ""))
        mon = st.mon or Mon()

        def val(x):
            x = a.resolve(st, x)
            n = 0
            while x[0] == "ref" and n < 6:
                x = a.resolve(st, a.read_at(st, x[1], x[2]))
                n += 1
            return x

        def name(x):
            x = val(x)
            return x[1] if x[0] in ("sym", "str") else ai.fmt_val(x)

        if decl == "std::iter::Iterator::next" and term.get("to") is not None and name(args[0]).startswith("ITER("):
            return [(("enum", ai.OPTION, 1, (("sym", "FIRST(%s)" % name(args[0])),)), mon)]
        if decl == "std::iter::Iterator::next" and term.get("to") is not None:
            site = a.site(st)
            key = "it:" + site
            if mon.get(key, 0) >= 1:
                return [(("enum", ai.OPTION, 0, ()), mon)]
            ty, _ = M.place_ty(cr, None, term["dest"], st.top.body)
            tag = "OUTER" if not mon.get("depth") else "INNER"
            item = ("tuple", (("ref", ("X", tag + ".key"), ()), ("ref", ("X", tag + ".val"), ())))
            return [(("enum", ai.OPTION, 1, (item,)), mon.set(**{key: 1, "depth": (mon.get("depth") or 0) + 1})), (("enum", ai.OPTION, 0, ()), mon)]
        if p.endswith("BTreeSet::len"):
            return [(("sym", "LEN(%s)" % name(args[0])), mon)]
        if p.endswith("BTreeSet::iter"):
            return [(("sym", "ITER(%s)" % name(args[0])), mon)]
        if p == "itertools::Itertools::join":
            return [(("sym", "JOIN(%s,%r)" % (name(args[0]), name(args[1]))), mon)]
        if p.endswith("Option::unwrap") or p.endswith("Result::unwrap"):
            v = val(args[0])
            if v[0] == "enum":
                return [(v[3][0] if v[3] and v[2] == (1 if p.endswith("Option::unwrap") else 0) else ai.AI.DIVERGE, mon)]
            return [(("sym", "UNWRAP(%s)" % name(args[0])), mon)]
        if p.endswith("<impl str>::replace"):
            return [(("sym", "REPLACE(%s,%r,%r)" % (name(args[0]), name(args[1]), name(args[2]))), mon)]
        if p.endswith("<impl str>::to_lowercase"):
            return [(("sym", "LOWER(%s)" % name(args[0])), mon)]
        if p.endswith("Argument::new_display"):
            return [(("sym", name(args[0])), mon)]
        if p.endswith("fmt::Arguments::new") or p.endswith("fmt::Arguments::from_str"):
            tpl = val(args[0])
            vals = val(args[1]) if len(args) > 1 else ("tuple", ())
            if tpl[0] != "str":
                return [(("sym", "FMT?%s" % a.site(st)), mon)]
            parts = [name(x) for x in vals[1]] if vals[0] == "tuple" else ["?"]
            return [(("sym", "FMT\x02%s\x02%s" % (tpl[1], "\x03".join(parts))), mon)]
        if p in ("std::fmt::format", "std::hint::must_use"):
            return [(val(args[0]), mon)]
        if p == "string_builder::Builder::append":
            return [(("tuple", ()), mon.set(app=mon.get("app", ()) + (name(args[1]),)))]
        if p == "string_builder::Builder::string":
            return [(("enum", ai.RESULT, 0, (("sym", "GEN"),)), mon.set(gen_after=len(mon.get("app", ()))))]
        if p.endswith("Span::new_extra") or p.endswith("LocatedSpan::new_extra"):
            return [(("sym", "SPAN(%s)" % name(args[0])), mon)]
        if p.endswith("parser::rules_file"):
            src = name(args[0])
            return [(("enum", ai.RESULT, 0, (("sym", "RULES"),)), mon.set(parse=("ok", src))), (("enum", ai.RESULT, 1, (("sym", "PERR"),)), mon.set(parse=("err", src)))]
        if "ToString" in p and "to_string" in p:
            return [(("sym", "STR(%s)" % name(args[0])), mon)]
        # anything that is handed the output writer
        body = st.top.body
        if st.top is st.frames[0]:
            for i, x in enumerate(term["args"]):
                pl = M.op_place(x)
                if pl is not None and refers_to(body, pl, 2):
                    what = "write_err" if p.endswith("Writer::write_err") else "write_fmt" if decl == "std::io::Write::write_fmt" else p
                    self.writer_calls.add(what)
                    payload = name(args[1]) if len(args) > 1 else ""
                    ev = (what, payload, mon.get("parse"))
                    ok = ("enum", ai.RESULT, 0, (("tuple", ()),))
                    err = ("enum", ai.RESULT, 1, (("sym", "IOERR"),))
                    m2 = mon.set(out=mon.get("out", ()) + (ev,))
                    return [(ok, m2), (err, m2.set(ioerr=True))]
        return None

    def constrained(self, a, st, sid, val):
        if sid.startswith("(LEN(INNER.val") and val[0] == "bool":
            m = re.match(r"\(LEN\(INNER\.val\*?\) (\w+) (\d+)\)(!?)$", sid)
            mon = st.mon or Mon()
            if m and int(m.group(2)) <= 4:
                op, k, neg = m.group(1), int(m.group(2)), m.group(3) == "!"
                truth = val[1] != neg
                cmpf = {"Gt": lambda n: n > k, "Ge": lambda n: n >= k, "Lt": lambda n: n < k, "Le": lambda n: n <= k, "Eq": lambda n: n == k, "Ne": lambda n: n != k}.get(op)
                if cmpf is None:
                    st.mon = mon.set(many="unrecognised test " + sid)
                else:
                    # a recorded value set is never empty (gen_rules creates it with one element): feasible sizes 1..6 (6 stands for "more")
                    prev = mon.get("many")
                    prev = prev if isinstance(prev, tuple) else tuple(range(1, 7))
                    st.mon = mon.set(many=tuple(n for n in prev if cmpf(n) == truth))
            else:
                st.mon = mon.set(many="unrecognised test " + sid)


def refers_to(body, place, local, depth=0):
    """place is (a reborrow chain of) the given local"""
    l = M.place_local(place)
    if l == local:
        return True
    if depth > 5:
        return False
    d = def_of_local(body, l)
    if d and d[0] == "stmt" and d[2]["rv"]["r"] in ("ref", "use"):
        rv = d[2]["rv"]
        src = rv.get("p") if rv["r"] == "ref" else M.op_place(rv["o"])
        return src is not None and refers_to(body, src, local, depth + 1)
    return False


def split_fmt(s):
    if not s.startswith("FMT\x02"):
        return None, []
    _, tpl, rest = s.split("\x02", 2)
    return tpl, rest.split("\x03") if rest else []


def print_rules(ctx, cr):
    f = cr.fns.get(PR)
    if not f:
        ctx.lost("R-C19-self-check", "R-C19-self-check:print_rules", PR)
        return
    h = PrintHooks(cr)
    a = ai.AI(cr, h)
    a.pinned = ("LEN(",)
    try:
        a.run(PR, mon=Mon())
    except ai.Undecided as e:
        ctx.ob("R-C19-self-check", "R-C19-self-check:print_rules", False, "undecided: %s" % e, fn=f)
        return
    ctx.states += a.n_states
    ctx.note_analysed("functions", PR)
    # ---- R-C19-self-check
    rule = "R-C19-self-check"
    bad = []
    n_ok = n_err = 0
    for v, mon, tr in h.results:
        out = mon.get("out", ())
        parse = mon.get("parse")
        if parse is None:
            if out:
                bad.append("output %s before/without the self-check" % (out,))
            continue
        if parse[1] != "SPAN(GEN)":
            bad.append("the self-check parses %s, not the generated text" % parse[1])
        for what, payload, at in out:
            if at is None:
                bad.append("%s(%s) reaches the writer before the self-check" % (what, payload[:30]))
        if parse[0] == "ok":
            n_ok += 1
            ws = [o for o in out if o[0] != "write_err"]
            if not mon.get("ioerr") and len(ws) != 1:
                bad.append("Ok arm writes %d times" % len(ws))
            for what, payload, at in ws:
                tpl, parts = split_fmt(payload)
                if what != "write_fmt" or tpl != "{}" or parts != ["GEN"]:
                    bad.append("Ok arm writes %s(%s) instead of exactly the checked text" % (what, payload[:40]))
        else:
            n_err += 1
            for what, payload, at in out:
                if what != "write_err":
                    bad.append("Err arm of the self-check still writes to the output through %s(%s)" % (what, payload[:40].replace("\x02", "|")))
                elif "GEN" in split_fmt(payload)[1]:
                    bad.append("Err arm emits the rejected text")
            if not out:
                bad.append("Err arm reports nothing")
        if mon.get("gen_after") is not None and len(mon.get("app", ())) != mon.get("gen_after"):
            bad.append("text appended after the checked string was taken")
    ctx.ob(rule, rule + ":print_rules", not bad and n_ok >= 1 and n_err >= 1, "; ".join(sorted(set(bad))[:3]) or "%d Ok-arm and %d Err-arm paths; writer reached through %s only" % (n_ok, n_err, sorted(h.writer_calls)), fn=f,
           sample={"fn": PR, "ok_paths": n_ok, "err_paths": n_err, "writer_calls": sorted(h.writer_calls)})
    # ---- R-C19-emitted-shape
    rule = "R-C19-emitted-shape"
    bad = []
    shapes = set()
    full = 0
    for v, mon, tr in h.results:
        app = mon.get("app", ())
        if not app:
            continue
        cons = dict(mon.get("cons", ()))
        seq = [split_fmt(x) if x.startswith("FMT\x02") else (x, []) for x in app]
        if len(seq) < 3:
            bad.append("a type with appended text %s lacks the let/rule/closing lines" % [s[0] for s in seq])
            continue
        (t_let, a_let), (t_rule, a_rule) = seq[0], seq[1]
        t_end = seq[-1][0]
        if tokens(t_let) != SPEC_LET:
            bad.append("first line is `%s`, expected the shape `let V = Resources.*[ Type == 'T' ]`" % t_let.strip())
            continue
        if tokens(t_rule) != SPEC_RULE:
            bad.append("second line is `%s`, expected `rule R when %%V !empty {`" % t_rule.strip())
            continue
        if tokens(t_end) != SPEC_END:
            bad.append("last line is `%s`, expected `}`" % t_end.strip())
        V, T = a_let
        if T != "OUTER.key*" and T != "OUTER.key":
            bad.append("the Type literal is %s, not the type the properties were collected under" % T)
        if a_rule[1] != V:
            bad.append("`when %%%s` tests a different variable than `let %s`" % (a_rule[1], V))
        if "OUTER.key" not in V or "OUTER.key" not in a_rule[0]:
            bad.append("variable/rule name is not derived from the type (%s / %s)" % (V, a_rule[0]))
        for tpl, args in seq[2:-1]:
            full += 1
            tk = tokens(tpl)
            if len(args) != 3:
                bad.append("clause `%s` has %d arguments" % (tpl.strip(), len(args)))
                continue
            if args[0] != V:
                bad.append("clause reads %%%s, the rule declared %s" % (args[0], V))
            if not args[1].startswith("INNER.key"):
                bad.append("clause property is %s, not the property key" % args[1])
            many = mon.get("many")
            if many == ():
                continue        # infeasible: no non-empty set satisfies the tests on this path
            if tk == SPEC_IN:
                shapes.add("IN")
                if not re.fullmatch(r"JOIN\(ITER\(INNER\.val\*?\),'[, ]+'\)", args[2]):
                    bad.append("IN list is %s, expected all values of the property joined by commas" % args[2])
            elif tk == SPEC_EQ:
                shapes.add("EQ")
                if not re.fullmatch(r"FIRST\(ITER\(INNER\.val\*?\)\)", args[2]):
                    bad.append("== operand is %s, expected the single value of the property" % args[2])
                if many != (1,):
                    bad.append("`== <first value>` is emitted on a path where the value set may hold more than one value (feasible sizes %s): the other values of the template would FAIL" % (many,))
            else:
                bad.append("clause `%s` is neither `%%V.Properties.P == v` nor `%%V.Properties.P IN [..]`" % tpl.strip())
    ctx.ob(rule, rule + ":print_rules", not bad and "IN" in shapes, "; ".join(sorted(set(bad))[:3]) or "%d clause emissions; shapes %s" % (full, sorted(shapes)), fn=f,
           sample={"let": "let V = Resources.*[ Type == 'T' ]", "clauses": sorted(shapes)})


# ------------------------------------------------------------------------------------------------ gen_rules

IDENTITY_ON_DOMAIN = {
    # callee path suffix -> why the operation leaves a (newline-free string | serde_json rendering) unchanged
    "serde_json::Value::as_str": "borrow of the string payload",
    "<std::string::String as std::convert::From<&str>>::from": "copy",
    "<T as std::string::ToString>::to_string": "serde_json compact rendering of a non-string (Display), or copy of a str",
    "<std::string::String as std::ops::Deref>::deref": "borrow",
    "core::fmt::rt::Argument::new_display": "Display of a String is the string",
    "std::fmt::format": "format!",
    "std::hint::must_use": "identity",
    "std::boxed::Box::new_uninit": "vec! storage",
    "std::boxed::box_assume_init_into_vec_unsafe": "vec! storage",
    "<std::vec::Vec<T, A> as std::iter::IntoIterator>::into_iter": "moves the element",
    "std::iter::Iterator::collect": "one-element set",
    "<std::collections::hash_map::IntoIter<K, V, A> as std::iter::Iterator>::next": "the template's (property, value) pair",
    "<std::collections::HashMap<K, V, S, A> as std::iter::IntoIterator>::into_iter": "the template's properties",
    "serde_json::from_value": "deserialises the Properties object into (name, value) pairs",
    "<serde_json::Value as std::clone::Clone>::clone": "copy",
    "serde_json::value::index::<impl std::ops::Index<I> for serde_json::Value>::index": "member access",
}


def ip_value_slice(cr, f, start_local, depth=2):
    """backward slice of a value, continued into the rulegen-private helpers that compute it (their return value's slice).
    -> [(body, call term, descended)], consts"""
    out, consts, seen = [], [], set()

    def visit(body, local, d):
        calls, ks, locs = flow.backward_slice(body, local)
        consts.extend(ks)
        for c in calls:
            key = c["fn"].get("key", "")
            callee = cr.fns.get(key) if c["fn"].get("local") else None
            if callee is not None and callee.get("file") == f.get("file") and callee.get("kind") in ("fn", "assoc", "closure") and d < depth:
                out.append((body, c, True))
                if key not in seen:
                    seen.add(key)
                    visit(callee, 0, d + 1)
            else:
                out.append((body, c, False))
    visit(f, start_local, 0)
    return out, consts


QUOTE_TEMPLATES = ("{}{}{}", '"{}"', "'{}'")
TAGS = ("TYPE", "K1", "V1", "K2", "V2", "K3", "V3")


def gen_rules(ctx, cr):
    rule = "R-C19-value-flow"
    f = cr.fns.get(GR)
    if not f:
        ctx.lost(rule, rule + ":gen_rules", GR)
        return
    ctx.note_analysed("functions", GR)
    # the leaf writes: BTreeSet::insert(set, v) and BTreeMap::insert(map, k, <BTreeSet>)
    leafs = []
    for bi, t in M.iter_calls(f):
        p = M.norm_path(t["fn"].get("path", ""))
        if p.endswith("BTreeSet::insert"):
            leafs.append((bi, t, 1, "set-insert"))
        elif p.endswith("BTreeMap::insert"):
            ty, _ = M.place_ty(cr, None, M.op_place(t["args"][2]), f)
            if ty is not None and (ty.adt_path() or "").endswith("BTreeSet"):
                leafs.append((bi, t, 2, "map-insert-of-set"))
    if len(leafs) < 1:
        ctx.lost(rule, rule + ":leaf-writes", "no site that records a value into a set found in gen_rules")
    value_fmt_sites = set()
    for n, (bi, t, ai_, kind) in enumerate(leafs):
        pl = M.op_place(t["args"][ai_])
        calls, consts = ip_value_slice(cr, f, M.place_local(pl))
        bad = []
        saw_value = False
        quoted = []
        for body, c, descended in calls:
            p = M.norm_path(c["fn"].get("path", ""))
            if descended:
                continue        # a rulegen-private helper: its body is on the slice instead of the call
            if p.endswith("<impl str>::replace"):
                a1 = c["args"][1].get("k", {}) if isinstance(c["args"][1], dict) else {}
                pat = a1.get("v", a1.get("str"))
                rep = const_of(body, c["args"][2])
                if pat != "\n" or rep != "":
                    bad.append("value rewritten by replace(%r, %r)" % (pat, rep))
                continue
            if p.endswith("fmt::Arguments::new"):
                tpl = const_of(body, c["args"][0], fmt=True)
                if tpl != "{}":
                    quoted.append(tpl)
                    value_fmt_sites.add((body.get("key"), c.get("ln"), tpl))
                continue
            if p.endswith("hash_map::IntoIter<K, V, A> as std::iter::Iterator>::next"):
                saw_value = True
            if p not in IDENTITY_ON_DOMAIN:
                bad.append("the recorded value passes through %s (l.%s), which is not the identity on property values" % (p, c.get("ln")))
        if not saw_value:
            bad.append("the recorded string does not depend on the (property, value) pairs of the template")
        # quoting: exactly the `"{}"`-shaped wrapper, fed with two equal quote constants
        qs = [k.get("str") for k in consts if k.get("str") is not None]
        if len(quoted) != 1 or quoted[0] not in QUOTE_TEMPLATES:
            bad.append("string values are wrapped by %s, expected one pair of matching quotes around the value" % quoted)
        elif quoted == ["{}{}{}"] and qs.count('"') != 2 and qs.count("'") != 2:
            bad.append("quote characters around a string value are %s, expected the same quote character on both sides" % [q for q in qs if len(q) <= 2])
        ctx.ob(rule, "%s:gen_rules:%s#%d" % (rule, kind, sum(1 for x in leafs[:n] if x[3] == kind)), not bad, "; ".join(sorted(set(bad))[:3]) or "%d calls on the slice, all identity on the domain; strings double-quoted" % len(calls), fn=f, line=t.get("ln", 0),
               sample={"site": kind, "line": t.get("ln"), "calls_on_slice": sorted(set(M.norm_path(c["fn"].get("path", "")).split("::")[-1] for _, c, _ in calls))} if n == 0 else None)
    # ---- path-sensitive part: one abstract iteration of the two loops, rulegen-private helpers inlined.
    #  (a) every path that reaches the type lookup records the value under (type, property).  Shape-agnostic: the map operations are
    #      interpreted over a small abstract heap (containers named by the value they hold, slots named by container and key), whichever
    #      of contains_key/get_mut/insert or the entry API the code uses.  Name-agnostic: keys and values are identified by where they come
    #      from (TYPE = the string payload of <resource>["Type"], Kn / Vn = the key / value of the n-th enclosing loop's item), found by
    #      slicing the operand back to the locals that hold exactly such a value.
    #  (b) quotes iff string: on every path the quoting template is applied exactly when the property value was found to be a JSON string
    #      (is_string true, or as_str Some).
    this_file = f.get("file")

    def exact_tag(a, st, v):
        v = a.resolve(st, v)
        for _ in range(4):
            if v[0] == "ref":
                v = a.resolve(st, a.read_at(st, v[1], v[2]))
            else:
                break
        if v[0] == "sym" and v[1].rstrip("*") in TAGS:
            return v[1].rstrip("*")
        return None

    def tags_of(a, st, operand, value):
        t = exact_tag(a, st, value)
        if t:
            return (t,)
        pl = M.op_place(operand)
        if pl is None:
            return ()
        fr = st.top
        # locals of this frame that hold (or held: temporaries die before the map operation) exactly a tagged value
        tagl = {l: tg for d, l, tg in (st.mon or Mon()).get("tagl", ()) if d == fr.depth}
        for l, v in fr.locals.items():
            if isinstance(l, int):
                tg = exact_tag(a, st, v) if v is not None and v[0] != "ref" else None
                if tg:
                    tagl[l] = tg
        calls, consts, locs = flow.backward_slice(fr.body, M.place_local(pl), stop_locals=set(tagl))
        return tuple(sorted(set(tagl[l] for l in locs if l in tagl)))

    class H(ai.Hooks):
        def __init__(self):
            self.results = []

        def inline(self, a, st, key, fn):
            return ai.is_private_fn(fn) and fn.get("file") == this_file and fn.get("kind") in ("fn", "assoc")

        def ret(self, a, st, v):
            root = a.resolve(st, v)
            self.results.append((st.mon or Mon(), st.trace, root[1] if root[0] == "sym" else None))

        def cname(self, a, st, v):
            """name of the container a receiver value denotes"""
            v = a.resolve(st, v)
            for _ in range(4):
                if v[0] == "ref":
                    v = a.resolve(st, a.read_at(st, v[1], v[2]))
                else:
                    break
            return v[1] if v[0] == "sym" else None

        def stmt(self, a, st, frame, s):
            if "rv" in s and isinstance(s["p"], int):
                v = frame.locals.get(s["p"])
                tg = exact_tag(a, st, v) if v is not None and v[0] != "ref" else None
                if tg and (frame.depth, s["p"], tg) not in (st.mon or Mon()).get("tagl", ()):
                    st.mon = (st.mon or Mon()).set(tagl=(st.mon or Mon()).get("tagl", ()) + ((frame.depth, s["p"], tg),))

        def call(self, a, st, term, callee, args):
            alts = self.call_(a, st, term, callee, args)
            if alts is None or not isinstance(term.get("dest"), int):
                return alts
            out = []
            for val, mon in alts:
                tg = exact_tag(a, st, val) if isinstance(val, tuple) and val and val[0] == "sym" else None
                if tg:
                    mon = mon.set(tagl=mon.get("tagl", ()) + ((st.top.depth, term["dest"], tg),))
                out.append((val, mon))
            return out

        def call_(self, a, st, term, callee, args):
            p = M.norm_path(callee.get("path", ""))
            decl = M.norm_path(callee.get("decl", ""))
            mon = st.mon or Mon()
            if st.top.body.get("file") != this_file:
                return None
            if decl == "std::iter::Iterator::next" and term.get("to") is not None:
                site = a.site(st)
                key = "it:" + site
                if mon.get(key, 0) >= 1:
                    return [(("enum", ai.OPTION, 0, ()), mon)]
                d = (mon.get("items") or 0) + 1
                ty, _ = M.place_ty(cr, None, term["dest"], st.top.body)
                inner = None
                try:
                    inner = cr.types[ty.t["a"][0]] if ty is not None and ty.t.get("a") else None
                except (IndexError, KeyError, TypeError):
                    inner = None
                if inner is not None and inner.get("k") == "tuple":
                    item = ("tuple", (("sym", "K%d" % d), ("sym", "V%d" % d)))
                else:
                    item = ("sym", "V%d" % d)
                return [(("enum", ai.OPTION, 1, (item,)), mon.set(items=d, **{key: 1})), (("enum", ai.OPTION, 0, ()), mon)]
            if p.endswith("for serde_json::Value>::index") and len(args) > 1:
                idx = a.resolve(st, args[1])
                return [(("ref", ("X", "MEMBER:%s" % (idx[1] if idx[0] == "str" else "?")), ()), mon)]
            if p in ("serde_json::Value::as_str", "serde_json::Value::is_string") and args:
                v = a.resolve(st, args[0])
                if p.endswith("as_str") and v[0] == "ref" and v[1] == ("X", "MEMBER:Type"):
                    return [(("enum", ai.OPTION, 1, (("sym", "TYPE"),)), mon), (("enum", ai.OPTION, 0, ()), mon.set(no_type=True))]
                tg = exact_tag(a, st, args[0])
                if tg and tg.startswith("V"):
                    key = "isstr:" + tg
                    yes = ("enum", ai.OPTION, 1, (("sym", tg + ":str"),)) if p.endswith("as_str") else ("bool", True)
                    no = ("enum", ai.OPTION, 0, ()) if p.endswith("as_str") else ("bool", False)
                    known_ = mon.get(key)
                    if known_ is True:
                        return [(yes, mon)]
                    if known_ is False:
                        return [(no, mon)]
                    return [(yes, mon.set(**{key: True})), (no, mon.set(**{key: False}))]
                return None
            if p.endswith("fmt::Arguments::new") and args:
                tpl = const_of(st.top.body, term["args"][0], fmt=True)
                if (st.top.body.get("key"), term.get("ln"), tpl) in value_fmt_sites:
                    return [(a.sym(st, a.site(st, ":fmt")), mon.set(quoted=mon.get("quoted", ()) + (tpl,)))]
                return None
            facts_ = mon.get("facts", frozenset())
            if p in ("std::option::Option::unwrap", "std::option::Option::expect") and args:
                ov = a.resolve(st, args[0])
                if ov[0] == "enum" and ov[1] == ai.OPTION:
                    return [(ov[3][0] if ov[2] == 1 else ai.AI.DIVERGE, mon)]
                return None
            if p in ("std::collections::BTreeMap::new", "std::collections::BTreeSet::new", "<std::collections::BTreeMap<K, V> as std::default::Default>::default"):
                return [(("sym", "C@%s" % a.site(st)), mon)]

            def recorded(c, operand, value):
                """the set c receives the value: what it is derived from, and how it was rendered on this path"""
                tg = tags_of(a, st, operand, value)
                rec = (tg, mon.get("isstr:V2"), mon.get("quoted", ()))
                return mon.set(touched=True, facts=facts_ | {("in", c, tg)}, recs=mon.get("recs", ()) + (rec,))
            if p.endswith("Iterator::collect") and isinstance(term["dest"], int):
                ty, _ = M.place_ty(cr, None, term["dest"], st.top.body)
                if ty is not None and (ty.adt_path() or "").endswith("BTreeSet"):
                    nm = "C@%s" % a.site(st)
                    return [(("sym", nm), recorded(nm, term["args"][0], args[0]))]
                return None
            is_map = p.startswith("std::collections::BTreeMap::") or p.startswith("std::collections::btree_map::")
            meth = p.split("::")[-1]
            if is_map and meth == "contains_key":
                return [(a.sym(st, a.site(st, ":has")), mon.set(touched=True))]
            if is_map and meth in ("get_mut", "get"):
                c, k = self.cname(a, st, args[0]), "+".join(tags_of(a, st, term["args"][1], args[1]))
                slot = "SLOT(%s,%s)" % (c, k)
                st.ext[slot] = ("sym", slot)
                return [(("enum", ai.OPTION, 1, (("ref", ("X", slot), ()),)), mon.set(touched=True, facts=facts_ | {("at", c, k, slot)}))]
            if is_map and meth == "entry":
                c, k = self.cname(a, st, args[0]), "+".join(tags_of(a, st, term["args"][1], args[1]))
                return [(("sym", "ENTRY(%s,%s)" % (c, k)), mon.set(touched=True))]
            if p.startswith("std::collections::btree_map::Entry::") and meth in ("or_default", "or_insert", "or_insert_with"):
                e = a.resolve(st, args[0])
                m_ = re.match(r"ENTRY\((.*),([^,]*)\)$", e[1]) if e[0] == "sym" else None
                if m_:
                    c, k = m_.group(1), m_.group(2)
                    slot = "SLOT(%s,%s)" % (c, k)
                    st.ext[slot] = ("sym", slot)
                    return [(("ref", ("X", slot), ()), mon.set(facts=facts_ | {("at", c, k, slot)}))]
                return None
            if is_map and meth == "insert" and len(args) == 3:
                c, k, v = self.cname(a, st, args[0]), "+".join(tags_of(a, st, term["args"][1], args[1])), self.cname(a, st, args[2])
                return [(a.sym(st, a.site(st, ":old")), mon.set(touched=True, facts=facts_ | {("at", c, k, v)}))]
            if p.startswith("std::collections::BTreeSet::") and meth == "insert" and len(args) == 2:
                c = self.cname(a, st, args[0])
                return [(("bool", True), recorded(c, term["args"][1], args[1]))]
            return None
    h = H()
    a = ai.AI(cr, h)
    try:
        a.run(GR, mon=Mon())
    except ai.Undecided as e:
        ctx.ob(rule, rule + ":gen_rules:every-path-records", False, "undecided: %s" % e, fn=f)
        ctx.ob(rule, rule + ":gen_rules:quotes-iff-string", False, "undecided: %s" % e, fn=f)
        return
    ctx.states += a.n_states
    bad, qbad = [], []
    n_rec = n_q = 0
    for mon, tr, root in h.results:
        if (mon.get("items") or 0) < 2 or mon.get("no_type"):
            continue            # no (property, value) pair on this path, or the resource has no string Type (legitimately skipped)
        fs = mon.get("facts", frozenset())
        ok = False
        for f1 in fs:
            if f1[0] == "at" and f1[1] == root and f1[2] == "TYPE":
                for f2 in fs:
                    if f2[0] == "at" and f2[1] == f1[3] and f2[2] == "K2":
                        if ("in", f2[3], ("V2",)) in fs:
                            ok = True
        where = " > ".join("bb%d(l.%s)" % (t[2], t[3]) for t in tr[-4:])
        if ok:
            n_rec += 1
        else:
            bad.append("on a path through the loop body the property value (V2) does not end up in result[<Type string>][<property name (K2)>] (facts: %s) [%s]" % (
                sorted(x for x in fs if x[0] in ("at", "in"))[:5], where))
        for tg, isstr, quoted in mon.get("recs", ()):
            n_q += 1
            if isstr is None:
                qbad.append("a value is recorded on a path that never tested whether the property value is a string (quoted by %s) [%s]" % (list(quoted), where))
            elif isstr and (len(quoted) != 1 or quoted[0] not in QUOTE_TEMPLATES):
                qbad.append("a JSON string is recorded with the wrappers %s instead of one pair of quotes [%s]" % (list(quoted), where))
            elif not isstr and quoted:
                qbad.append("a non-string value is recorded inside %s [%s]" % (list(quoted), where))
    ctx.ob(rule, rule + ":gen_rules:every-path-records", not bad and n_rec >= 1, "; ".join(sorted(set(bad))[:2]) or "%d paths, on each the value is recorded under (type, property)" % n_rec, fn=f,
           sample={"paths_recording": n_rec})
    ctx.ob(rule, rule + ":gen_rules:quotes-iff-string", not qbad and n_q >= 2, "; ".join(sorted(set(qbad))[:2]) or "%d recordings: quotes are added exactly when the property value is a JSON string" % n_q, fn=f)


def reachable_before(f, start, stop):
    seen, st = set(), [start]
    while st:
        b = st.pop()
        if b in seen or b == stop:
            continue
        seen.add(b)
        st.extend(M.successors(f["blocks"][b]["term"]))
    return seen


def const_of(f, operand, fmt=False, depth=0):
    if "k" in operand:
        k = operand["k"]
        if fmt:
            return M.fmt_template(k["pbytes"]) if "pbytes" in k else None
        return k.get("str", k.get("v"))
    pl = M.op_place(operand)
    if pl is None or depth > 6:
        return None
    d = def_of_local(f, M.place_local(pl))
    if not d or d[0] != "stmt":
        return None
    rv = d[2]["rv"]
    if rv["r"] == "use":
        return const_of(f, rv["o"], fmt, depth + 1)
    if rv["r"] == "ref":
        return const_of(f, {"c": rv["p"]}, fmt, depth + 1)
    return None


def receiver_name(f, operand):
    """source-level name of the map a call is made on (through reborrows / get_mut().unwrap() results)"""
    names = {l: n for n, l in f["names"]}
    pl = M.op_place(operand)
    for _ in range(6):
        if pl is None:
            return "?"
        l = M.place_local(pl)
        if l in names:
            return names[l]
        d = def_of_local(f, l)
        if not d:
            return "?"
        if d[0] == "stmt":
            rv = d[2]["rv"]
            pl = rv.get("p") if rv["r"] == "ref" else M.op_place(rv["o"]) if "o" in rv else None
        else:
            pl = M.op_place(d[2]["args"][0]) if d[2]["args"] else None
    return "?"


def output_starts_empty(ctx, crates):
    rule = "R-C19-output-starts-empty"
    n = 0
    for cr, kind in crates:
        for k, f in sorted(cr.fns.items()):
            if f.get("file", "").endswith("_tests.rs") or "::tests::" in k:
                continue
            ordinal = 0
            for bi, t in M.iter_calls(f):
                p = M.norm_path(t["fn"].get("path", ""))
                if p in ("std::fs::File::create", "std::fs::File::create_new"):
                    n += 1
                    ctx.ob(rule, "%s:%s:%s:%s#%d" % (rule, kind, k, p.split("::")[-1], ordinal), True, "%s truncates / refuses an existing file" % p, fn=f, line=t.get("ln", 0),
                           sample={"site": k, "how": p} if n == 1 else None)
                    ordinal += 1
                elif p == "std::fs::OpenOptions::open":
                    n += 1
                    pl = M.op_place(t["args"][0])
                    opts = {}
                    if pl is not None:
                        calls, consts, locs = flow.backward_slice(f, M.place_local(pl))
                        for c in calls:
                            cp = M.norm_path(c["fn"].get("path", ""))
                            if cp.startswith("std::fs::OpenOptions::") and len(c["args"]) == 2:
                                v = c["args"][1].get("k", {}).get("v") if isinstance(c["args"][1], dict) else None
                                opts[cp.split("::")[-1]] = v if v is not None else "?"
                    writes = opts.get("write") in (True, "?") or opts.get("append") in (True, "?")
                    ok = (not writes) or ((opts.get("truncate") is True or opts.get("create_new") is True) and opts.get("append") is not True)
                    ctx.ob(rule, "%s:%s:%s:OpenOptions::open#%d" % (rule, kind, k, ordinal), ok,
                           "opened with %s" % opts + ("" if ok else ": a writable file that is neither truncated nor new keeps the bytes of an earlier, longer output behind what is written now"), fn=f, line=t.get("ln", 0))
                    ordinal += 1
    if n < 2 and any("main" in cr.fns for cr, _ in crates):
        ctx.lost(rule, rule + ":floor", "only %d output-file openings found (floor 2: --output of rulegen and of parse-tree in main)" % n)


def run(ctx):
    cr = ctx.bin
    print_rules(ctx, cr)
    gen_rules(ctx, cr)
    output_starts_empty(ctx, [(ctx.bin, "bin"), (ctx.lib, "lib")] if ctx.bin is not ctx.lib else [(ctx.bin, "bin")])
    # the only producer of rulegen output is print_rules: who is handed the writer in Rulegen::execute
    ex = cr.fns.get("<commands::rulegen::Rulegen as commands::Executable>::execute")
    rule = "R-C19-self-check"
    if not ex:
        ctx.lost(rule, rule + ":execute", "Rulegen::execute")
    else:
        takers = sorted(set(M.norm_path(t["fn"].get("path", "")) for bi, t in M.iter_calls(ex) if any(M.op_place(x) is not None and refers_to(ex, M.op_place(x), 2) for x in t["args"])))
        ok = set(takers) <= {"commands::rulegen::print_rules", "commands::rulegen::parse_template_and_call_gen"} and "commands::rulegen::print_rules" in takers
        ctx.ob(rule, rule + ":execute:writer-only-to-print_rules", ok, "the output writer is handed to %s" % takers, fn=ex)
        pt = cr.fns.get("commands::rulegen::parse_template_and_call_gen")
        if pt:
            def writer_uses(body, local, depth=0):
                """what the function does with the writer it was handed; rulegen-private helpers are followed"""
                outs = set()
                for bi, t in M.iter_calls(body):
                    for i, x in enumerate(t["args"]):
                        if M.op_place(x) is None or not refers_to(body, M.op_place(x), local):
                            continue
                        key = t["fn"].get("key", "")
                        callee = cr.fns.get(key) if t["fn"].get("local") else None
                        if callee is not None and depth < 2 and ai.is_private_fn(callee) and callee.get("file") == pt.get("file"):
                            outs |= writer_uses(callee, i + 1, depth + 1)
                        else:
                            outs.add(M.norm_path(t["fn"].get("path", "")))
                return outs
            outs = sorted(writer_uses(pt, 2))
            ctx.ob(rule, rule + ":parse_template:errors-only", all(o.endswith("Writer::write_err") for o in outs) and outs, "parse_template_and_call_gen uses the writer through %s" % outs, fn=pt)
    ctx.positive_control("R-C19-output-starts-empty", "open-options", lambda sub, fx: output_starts_empty(sub, [(fx, "fixture")]), ["open_for_output", "open_appending"])
    ctx.assumptions += [
        "property values are strings without newlines, numbers or booleans (the property's quantifier); nested values are rendered by serde_json's Display",
        "that the emitted text evaluates to PASS on the source template follows from these shapes only together with C01/C13 (== and IN semantics), which are decided separately",
    ]

"""C06 — exit codes of validate and test faithfully encode the outcome (DESIGN §5 C06).

Decided statically (abstract interpretation of the MIR of every function of the command layer that
returns an exit code; the CLI binary's copy is analysed because `main` lives there):
  R-C06-constants       SUCCESS=0, FAILURE=19, ERROR=5, TEST_ERROR!=0, TEST_FAILURE=7
  R-C06-tables          evaluate_rule, evaluate_against_data_input, test::get_exit_code, TestResult::get_exit_code,
                        JunitReporter::update_exit_code, main (Ok(code) -> exit(code), Err -> exit(-1))
  R-C06-test-files-considered  the --test-data suffix filter of `test` accepts every documented spelling (.json .yaml .yml .jsn, upper-case
                        .JSON .YAML): a spec file that is filtered out cannot make the run exit 7
  R-C06-errors-not-dropped  no Result is turned into "nothing" (flatten / flat_map over Results, .ok() on an error-carrying Result,
                        filter_map(Result::ok)) outside two reviewed places, so a failure cannot vanish before it reaches the exit code
  R-C06-folds           every exit-code accumulation: result 0 iff nothing went wrong; failures only => failure
                        code; errors only => error code; an observed error never ends in 0 (nor in 19 for validate)
"""
from engine import ai, mirlib as M
from engine import statusmon as S
from engine.statusmon import Mon

LEVEL = "other"
THOROUGH_VIEWS = ("cap=3",)   # anchored in the binary (main); this module already reads both the library's and the binary's copy where it matters
ERRTY = "rules::errors::Error"


def dest_ty(cr, st, term):
    ty, _ = M.place_ty(cr, None, term["dest"], st.top.body)
    return ty


def is_result_of(ty, pred):
    if ty is None or ty.adt_path() != ai.RESULT:
        return False
    a = ty.args()
    return bool(a) and pred(a[0])


def is_i32(t):
    return t.t.get("k") == "prim" and t.t.get("n") == "i32"


def is_opt_rulesfile(t):
    if t.adt_path() != ai.OPTION:
        return False
    a = t.args()
    return bool(a) and a[0].adt_path() == "rules::exprs::RulesFile"


class CodeHooks(S.StatusHooks):
    """exit-code sources; `layer` selects the code alphabet"""

    def __init__(self, cr, layer, inline_keys=()):
        super().__init__(cr, track_records=False)
        self.layer = layer
        self.codes = (0, 5, 19) if layer == "validate" else (0, 1, 7)
        self.inline_keys = set(inline_keys)

    def role_of(self, a, st, term, callee):
        return "status"

    def inline(self, a, st, key, fn):
        if key in self.inline_keys:
            return True
        return super().inline(a, st, key, fn)

    def extra_call(self, a, st, term, callee, args):
        decl = M.norm_path(callee.get("decl", ""))
        path = M.norm_path(callee.get("path", ""))
        if decl in ("std::ops::Try::branch", "std::ops::FromResidual::from_residual"):
            return None
        if callee.get("key") in self.inline_keys:
            return None
        mon = st.mon
        if path == "std::process::exit":
            v = a.resolve(st, args[0])
            self.results.append((("exit", v), mon, st.trace))
            return [(ai.AI.DIVERGE, mon)]
        if term.get("to") is None:
            return None
        if path.startswith(("std::", "core::", "alloc::", "<std::", "<core::", "<alloc::")) and not path.endswith(("HashMap::get", "HashMap::contains_key")):
            return None     # std combinators (map_err, ok_or, and_then, ...) pass a result along; they are not a new source of codes or parses
        ty = dest_ty(self.cr, st, term)
        if is_result_of(ty, is_i32):
            codes = self.codes
            if decl.endswith("StructuredReporter::report") and self.layer == "validate" and "Err" in mon.get("parse", frozenset()):
                # the reporter was constructed with exit_code 5 (R-C06-folds:StructuredEvaluator::evaluate::closure) and its fold keeps an
                # initial 5 non-zero and != 19 (R-C06-folds:*Reporter::report:init=5): it cannot answer 0 or 19 here
                codes = (5,)
            outs = [(("enum", ai.RESULT, 0, (("int", c),)), mon.add("codes", c)) for c in codes]
            outs.append((("enum", ai.RESULT, 1, (("sym", "CODE_ERR"),)), mon.add("codes", "Err")))
            return outs
        if ty is not None and is_i32(ty) and callee.get("local") and "get_exit_code" in callee.get("key", "") and callee.get("key") not in self.inline_keys:
            return [(("int", c), mon.add("codes", c)) for c in self.codes]
        if is_result_of(ty, is_opt_rulesfile):
            return [(("enum", ai.RESULT, 1, (("sym", "PARSE_ERR"),)), mon.add("parse", "Err")),
                    (("enum", ai.RESULT, 0, (("enum", ai.OPTION, 0, ()),)), mon.add("parse", "None")),
                    (("enum", ai.RESULT, 0, (("enum", ai.OPTION, 1, (("sym", "RULES"),)),)), mon.add("parse", "Some"))]
        if path.endswith("HashMap::get") and any(a.deref_val(st, x) == ("str", "FAIL") for x in args[1:]):
            return [(("enum", ai.OPTION, 1, (("sym", "FAILSET"),)), mon.set(test_fail=True)),
                    (("enum", ai.OPTION, 0, ()), mon)]
        if path.endswith("HashMap::contains_key") and any(a.deref_val(st, x) == ("str", "FAIL") for x in args[1:]):
            return [(("bool", True), mon.set(test_fail=True)), (("bool", False), mon)]
        if path.endswith("TestCase::has_failures"):
            return [(("bool", True), mon.set(test_fail=True)), (("bool", False), mon)]
        return None

    def watch(self, a, st, sid, val):
        if val[0] == "enum" and val[1] == ai.RESULT and val[2] == 1 and not sid.startswith("CODE") and "TRACER" not in sid:
            return st.mon.add("err_obs", sid.split(">")[-1][:60])
        return None


def judge(layer, v, mon, init=0):
    """-> (ok, why) for one outermost return"""
    kind = None
    code = None
    if v[0] == "enum" and v[1] == ai.RESULT:
        if v[2] == 1:
            return True, "Err propagated"
        p = v[3][0]
        if p[0] == "int":
            code = p[1]
        else:
            code = p
    elif v[0] == "int":
        code = v[1]
    else:
        return True, "not an exit code"
    codes = set(mon.get("codes", frozenset()))
    parse = set(mon.get("parse", frozenset()))
    status = set(mon.get("status", frozenset()))
    err_obs = set(mon.get("err_obs", frozenset()))
    if layer == "validate":
        ERRC, FAILC = 5, 19
    else:
        ERRC, FAILC = 1, 7
    err_ish = ("Err" in codes) or (ERRC in codes) or ("Err" in parse) or bool(err_obs) or ("Err" in status) or init == ERRC
    fail_ish = (FAILC in codes) or ("FAIL" in status and layer == "validate") or bool(mon.get("test_fail")) or init == FAILC
    if not isinstance(code, int):
        # symbolic: only acceptable when it is the value of the single source it forwards
        return False, "exit code is not a constant on this path: %s" % (ai.fmt_val(code),)
    if not err_ish and not fail_ish:
        return code == 0, "nothing went wrong => 0, got %s" % code
    if err_ish and not fail_ish:
        if layer == "validate":
            return (code not in (0, FAILC)), "error(s) %s and no FAIL => error code (never 0/19), got %s" % (sorted(map(str, err_obs | (codes & {'Err', ERRC}) | (parse & {'Err'}))), code)
        return code != 0, "error(s) and no mismatch => non-zero, got %s" % code
    if fail_ish and not err_ish:
        return code == FAILC, "failure(s) and no error => %d, got %s" % (FAILC, code)
    return code != 0, "errors and failures => non-zero, got %s" % code


def run_codes(ctx, cr, rule, key, layer, args=None, ext=None, inline_keys=(), init=0, min_paths=1, max_states=900000):
    if key not in cr.fns:
        ctx.lost(rule, "%s:%s" % (rule, key), "function missing")
        return None
    h = CodeHooks(cr, layer, inline_keys)
    a = ai.AI(cr, h, max_states=max_states)
    try:
        a.run(key, args=args, mon=Mon(), ext=ext)
    except ai.Undecided as e:
        ctx.ob(rule, "%s:%s" % (rule, key), False, "undecided: %s" % e, fn=cr.fns[key])
        return None
    ctx.states += a.n_states
    ctx.transitions += a.n_transitions
    ctx.note_analysed("functions", key)
    return h


def fold_fn(ctx, cr, key, layer, **kw):
    rule = "R-C06-folds"
    h = run_codes(ctx, cr, rule, key, layer, **kw)
    if h is None:
        return
    bad = {}
    n = 0
    for v, mon, tr in h.results:
        ok, why = judge(layer, v, mon, kw.get("init", 0))
        n += 1
        if not ok:
            bad.setdefault(slug(why), (why, S.trace_str(tr, 8)))
    # one obligation per distinct reason so that a known finding does not mask a new one
    f = cr.fns[key]
    if not bad:
        ctx.ob(rule, "%s:%s" % (rule, key), n >= kw.get("min_paths", 1), "%d returns examined" % n, fn=f,
               sample={"fn": key, "layer": layer, "returns": n})
    for sl, (why, tr) in sorted(bad.items()):
        ctx.ob(rule, "%s:%s:%s" % (rule, key, sl), False, "%s [%s]" % (why, tr), fn=f)


def slug(s):
    import re
    s = re.sub(r"eval_[a-z_]+:\d+|:\d+:call|bb\d+|\[.*?\]", "", s)
    return re.sub(r"[^A-Za-z0-9=>]+", "-", s).strip("-")[:90]


def constants(ctx, cr):
    rule = "R-C06-constants"
    want = {"SUCCESS_STATUS_CODE": lambda v: v == 0, "FAILURE_STATUS_CODE": lambda v: v == 19, "ERROR_STATUS_CODE": lambda v: v == 5,
            "TEST_FAILURE_STATUS_CODE": lambda v: v == 7, "TEST_ERROR_STATUS_CODE": lambda v: v not in (0, 7)}
    for name, pred in want.items():
        k = "commands::" + name
        if k not in cr.fns:
            ctx.lost(rule, "%s:%s" % (rule, name), "constant missing")
            continue
        h = S.StatusHooks(cr, track_records=False)
        a = ai.AI(cr, h)
        a.run(k, mon=Mon())
        vals = set(v for v, m, t in h.results)
        ok = len(vals) == 1 and next(iter(vals))[0] == "int" and pred(next(iter(vals))[1])
        ctx.ob(rule, "%s:%s" % (rule, name), ok, "value %s" % [ai.fmt_val(v) for v in vals], fn=cr.fns[k], sample={"const": name, "value": [ai.fmt_val(v) for v in vals]})


def tables(ctx, cr):
    rule = "R-C06-tables"
    # evaluate_rule: parse result x file status
    key = "commands::validate::evaluate_rule"
    h = run_codes(ctx, cr, rule, key, "validate")
    if h is not None:
        rows = {}
        for v, mon, tr in h.results:
            p = tuple(sorted(mon.get("parse", frozenset())))
            s = tuple(sorted(mon.get("status", frozenset())))
            if mon.get("err_obs") and not (p == ("Err",)):
                if not (v[0] == "enum" and v[2] == 1):
                    rows.setdefault(("io-error", ()), set()).add(ai.fmt_val(v, cr))
                continue
            rows.setdefault((p, s), set()).add(ai.fmt_val(v, cr) if not (v[0] == "enum" and v[2] == 1) else "Err")
        spec = {(("Err",), ()): {"Result::Ok(5)"}, (("None",), ()): {"Result::Ok(0)"},
                (("Some",), ("FAIL",)): {"Result::Ok(19)"}, (("Some",), ("PASS",)): {"Result::Ok(0)"},
                (("Some",), ("SKIP",)): {"Result::Ok(0)"}, (("Some",), ("Err",)): {"Err"}}
        for k2, exp in spec.items():
            got = set(rows.get(k2, set())) - ({"Err"} if exp != {"Err"} else set())
            ctx.ob(rule, "%s:evaluate_rule:parse=%s:status=%s" % (rule, k2[0][0], k2[1][0] if k2[1] else "-"), got == exp,
                   "expected %s, got %s" % (sorted(exp), sorted(rows.get(k2, set()))), fn=cr.fns[key],
                   sample={"parse": k2[0][0], "status": list(k2[1]), "exit": sorted(got)})
        extra = set(rows) - set(spec)
        ctx.ob(rule, rule + ":evaluate_rule:no-other-rows", not extra, "unexpected rows %s" % sorted(map(str, extra)), fn=cr.fns[key])
    # evaluate_against_data_input: FAIL iff some data file FAILed
    key = "commands::validate::evaluate_against_data_input"
    if key in cr.fns:
        class H(S.StatusHooks):
            def role_of(self, a, st, term, callee):
                return "child" if callee.get("key", "").endswith("eval::eval_rules_file") else "other"
        h2 = H(cr, track_records=False)
        a = ai.AI(cr, h2)
        try:
            a.run(key, mon=Mon())
            ctx.states += a.n_states
            bad = []
            n = 0
            for v, mon, tr in h2.results:
                kind, s = S.ret_status(v)
                ch = mon.get("child", frozenset())
                if kind == "ok":
                    n += 1
                    if "Err" in ch:
                        bad.append("Ok(%s) although an evaluation errored" % s)
                    if ("FAIL" in ch) != (s == "FAIL"):
                        bad.append("files %s give %s" % (sorted(ch), s))
            ctx.ob(rule, rule + ":evaluate_against_data_input", not bad and n >= 4, "; ".join(bad[:3]) or "%d Ok paths" % n, fn=cr.fns[key])
        except ai.Undecided as e:
            ctx.ob(rule, rule + ":evaluate_against_data_input", False, "undecided %s" % e, fn=cr.fns[key])
    else:
        ctx.lost(rule, rule + ":evaluate_against_data_input", key)
    # test::get_exit_code over {0,1,7}^2
    key = "commands::test::get_exit_code"
    if key in cr.fns:
        spec = {(0, 0): 0, (0, 1): 1, (0, 7): 7, (1, 0): 1, (1, 1): 1, (1, 7): 1, (7, 0): 7, (7, 1): 1, (7, 7): 7}
        for (x, y), exp in spec.items():
            h3 = S.StatusHooks(cr, track_records=False)
            a = ai.AI(cr, h3)
            a.run(key, args=[("int", x), ("int", y)], mon=Mon())
            got = set(ai.fmt_val(v) for v, m, t in h3.results)
            ctx.ob(rule, "%s:get_exit_code:%d:%d" % (rule, x, y), got == {repr(exp)}, "get_exit_code(%d,%d) = %s, expected %d (error > failure > success)" % (x, y, sorted(got), exp), fn=cr.fns[key])
    else:
        ctx.lost(rule, rule + ":get_exit_code", key)
    # TestResult::get_exit_code
    key = "commands::reporters::test::structured::TestResult::get_exit_code"
    if key in cr.fns:
        TR = "commands::reporters::test::structured::TestResult"
        names = [v["name"] for v in cr.adts[TR]["variants"]]
        rows = {}

        class H4(CodeHooks):
            def extra_call(self, a, st, term, callee, args):
                p = M.norm_path(callee.get("path", ""))
                if p.endswith("Iterator::any") or p.endswith("::any"):
                    return [(("bool", True), st.mon.set(any=True)), (("bool", False), st.mon.set(any=False))]
                return None

            def watch(self, a, st, sid, val):
                if sid == "arg1*" and val[0] == "enum":
                    return st.mon.set(variant=names[val[2]])
                return None
        h4 = H4(cr, "test")
        a = ai.AI(cr, h4)
        a.run(key, mon=Mon())
        for v, mon, tr in h4.results:
            rows.setdefault((mon.get("variant"), mon.get("any")), set()).add(ai.fmt_val(v))
        spec = {("Err", None): {"1"}, ("Ok", True): {"7"}, ("Ok", False): {"0"}}
        tec = [v for v in (1,)]
        for k2, exp in spec.items():
            got = rows.get(k2, set())
            if k2[0] == "Err":
                ok = len(got) == 1 and next(iter(got)) not in ("0", "7")
            else:
                ok = got == exp
            ctx.ob(rule, "%s:TestResult::get_exit_code:%s:%s" % (rule, k2[0], k2[1]), ok, "got %s" % sorted(got), fn=cr.fns[key])
    else:
        ctx.lost(rule, rule + ":TestResult::get_exit_code", key)
    # JunitReporter::update_exit_code over {0,5,19}^2
    key = "commands::reporters::JunitReporter::update_exit_code"
    if key in cr.fns:
        JR = "commands::reporters::JunitReporter"
        fs = [f["name"] for f in cr.adts[JR]["variants"][0]["fields"]]
        if "exit_code" not in fs:
            ctx.lost(rule, rule + ":update_exit_code:field", "JunitReporter.exit_code")
        else:
            idx = fs.index("exit_code")
            for cur in (0, 5, 19):
                for new in (0, 5, 19):
                    fields = [("sym", "F%d" % i) for i in range(len(fs))]
                    fields[idx] = ("int", cur)
                    finals = []

                    class H5(S.StatusHooks):
                        def ret(self, a, st, v):
                            finals.append(a.deep(st, st.ext.get("SELF")))
                    a = ai.AI(cr, H5(cr, track_records=False))
                    a.run(key, args=[("ref", ("X", "SELF"), ()), ("int", new)], mon=Mon(), ext={"SELF": ("enum", JR, 0, tuple(fields))})
                    got = set(f[3][idx] for f in finals if f and f[0] == "enum")
                    exp = 5 if new == 5 else (19 if (new == 19 and cur != 5) else cur)
                    ctx.ob(rule, "%s:update_exit_code:cur=%d:new=%d" % (rule, cur, new), got == {("int", exp)},
                           "exit_code becomes %s, expected %d" % (sorted(map(ai.fmt_val, got)), exp), fn=cr.fns[key])
    else:
        ctx.lost(rule, rule + ":update_exit_code", key)


def main_table(ctx, cr):
    rule = "R-C06-tables"
    key = "main"
    if key not in cr.fns:
        ctx.lost(rule, rule + ":main", "bin main")
        return

    class H(CodeHooks):
        def extra_call(self, a, st, term, callee, args):
            path = M.norm_path(callee.get("path", ""))
            if path == "std::process::exit":
                self.results.append((("exit", a.resolve(st, args[0])), st.mon, st.trace))
                return [(ai.AI.DIVERGE, st.mon)]
            if term.get("to") is not None and is_result_of(dest_ty(self.cr, st, term), is_i32):
                return [(("enum", ai.RESULT, 0, (("sym", "CODE"),)), st.mon.set(exec="Ok")),
                        (("enum", ai.RESULT, 1, (("sym", "E"),)), st.mon.set(exec="Err"))]
            return None
    h = H(cr, "validate")
    a = ai.AI(cr, h)
    try:
        a.run(key, mon=Mon())
    except ai.Undecided as e:
        ctx.ob(rule, rule + ":main", False, "undecided %s" % e, fn=cr.fns[key])
        return
    ctx.states += a.n_states
    ok_exits = set()
    err_exits = set()
    other = []
    for v, mon, tr in h.results:
        if v[0] == "exit":
            if mon.get("exec") == "Ok":
                ok_exits.add(v[1])
            elif mon.get("exec") == "Err":
                err_exits.add(v[1])
            else:
                other.append(("exit-before-execute", v[1]))
        elif mon.get("exec") is not None:
            other.append(("return-after-execute", mon.get("exec"), ai.fmt_val(v)[:40]))
    ctx.ob(rule, rule + ":main:ok-code", ok_exits == {("sym", "CODE")}, "Ok(code) must exit with exactly that code: %s" % sorted(map(ai.fmt_val, ok_exits)), fn=cr.fns[key])
    ctx.ob(rule, rule + ":main:err-code", len(err_exits) == 1 and next(iter(err_exits))[0] == "int" and next(iter(err_exits))[1] not in (0, 19),
           "Err must exit non-zero and not 19: %s" % sorted(map(ai.fmt_val, err_exits)), fn=cr.fns[key])
    ctx.ob(rule, rule + ":main:no-other-exit", not [o for o in other if o[0] == "return-after-execute" and o[1] == "Ok"], "%s" % other[:3], fn=cr.fns[key])


VALIDATE_FOLDS = [
    "<commands::validate::Validate as commands::Executable>::execute",
    "commands::reporters::validate::structured::StructuredEvaluator::evaluate",
]
TEST_FOLDS = [
    "<commands::test::Test as commands::Executable>::execute",
    "commands::test::handle_plaintext_directory",
    "commands::test::handle_plaintext_single_file",
    "commands::test::handle_structured_single_report",
    "commands::test::handle_structured_directory_report",
    "commands::reporters::test::generic::GenericReporter::report",
]


def reporter_folds(ctx, cr):
    """CommonStructuredReporter::report / JunitReporter::report with a concrete initial exit code"""
    rule = "R-C06-folds"
    key = "<commands::reporters::validate::structured::CommonStructuredReporter as commands::reporters::validate::structured::StructuredReporter>::report"
    ADT = "commands::reporters::validate::structured::CommonStructuredReporter"
    if key not in cr.fns or ADT not in cr.adts:
        ctx.lost(rule, rule + ":CommonStructuredReporter::report", key)
    else:
        fs = [f["name"] for f in cr.adts[ADT]["variants"][0]["fields"]]
        idx = fs.index("exit_code") if "exit_code" in fs else None
        if idx is None:
            ctx.lost(rule, rule + ":CommonStructuredReporter.exit_code", "field")
        else:
            for init in (0, 5):
                fields = [("sym", "F%d" % i) for i in range(len(fs))]
                fields[idx] = ("int", init)
                fold_fn(ctx, cr, key, "validate", args=[("ref", ("X", "SELF"), ())], ext={"SELF": ("enum", ADT, 0, tuple(fields))}, init=init, min_paths=2)
    key = "<commands::reporters::JunitReporter as commands::reporters::validate::structured::StructuredReporter>::report"
    ADT = "commands::reporters::JunitReporter"
    TCS = "commands::reporters::TestCaseStatus"
    TS = "commands::reporters::TestSuite"
    if key not in cr.fns or ADT not in cr.adts or TCS not in cr.adts or TS not in cr.adts:
        ctx.lost(rule, rule + ":JunitReporter::report", key)
        return
    fs = [f["name"] for f in cr.adts[ADT]["variants"][0]["fields"]]
    idx = fs.index("exit_code")
    names = [v["name"] for v in cr.adts[TCS]["variants"]]
    tsf = [x["name"] for x in cr.adts[TS]["variants"][0]["fields"]]
    tcf = [f["name"] for f in cr.adts["commands::reporters::TestCase"]["variants"][0]["fields"]]
    # The whole of report() is interpreted — its per-rule step whether written as a try_fold closure or as a `for` body (engine model of
    # try_fold) — with one data file and one rule: get_test_case is a source over the four test-case kinds (or an error).  Decided:
    #   * the per-file suite counts (errors, failures) = (1,0) for an Error case, (0,1) for Fail, (0,0) for Pass/Skip;
    #   * the exit code: an Error case gives 5; a Fail case gives 19 unless the reporter started at 5; otherwise the initial code stays.
    suites = {}
    for init in (0, 5):
        fields = [("sym", "F%d" % i) for i in range(len(fs))]
        fields[idx] = ("int", init)
        outs = []

        class HR(CodeHooks):
            def inline(self, a, st, k, fn):
                return k.startswith(key + "::{closure") or CodeHooks.inline(self, a, st, k, fn)

            def extra_call(self, a, st, term, callee, args):
                decl = M.norm_path(callee.get("decl", ""))
                mon = st.mon
                if callee.get("key", "").endswith("JunitReport::serialize"):
                    return [(("enum", ai.RESULT, 0, (("tuple", ()),)), mon), (("enum", ai.RESULT, 1, (("sym", "SER_ERR"),)), mon)]
                if decl == "std::iter::Iterator::next" and term.get("to") is not None:
                    site = a.site(st)
                    outer = mon.get("outer") or site
                    # two data files (so that what is carried from one file to the next is observed), one rule per file in total
                    if mon.get("it:" + site, 0) >= (2 if site == outer else 1):
                        return [(("enum", ai.OPTION, 0, ()), mon)]
                    mon = mon.set(outer=outer)
                    if site == outer:
                        mon = mon.set(tc=None)          # a new data file: its suite counts only its own cases
                    ty, _ = M.place_ty(self.cr, None, term["dest"], st.top.body)
                    inner = ty.args()[0] if ty is not None and ty.args() else None
                    item = a.sym(st, site + ":item")
                    if inner is not None and inner.kind == "tuple":
                        item = ("tuple", tuple(a.sym(st, "%s:item.%d" % (site, i)) for i in range(len(inner.t.get("e", [])))))
                    return [(("enum", ai.OPTION, 1, (item,)), mon.set(**{"it:" + site: mon.get("it:" + site, 0) + 1})), (("enum", ai.OPTION, 0, ()), mon)]
                if callee.get("key", "").endswith("reporters::get_test_case"):
                    res = []
                    for vi, n in enumerate(names):
                        nf = len(self.cr.adts[TCS]["variants"][vi]["fields"])
                        stv = ("enum", TCS, vi, tuple(("sym", "P%d" % i) for i in range(nf)))
                        vals = {"status": stv}
                        tc = ("enum", "commands::reporters::TestCase", 0, tuple(vals.get(x, ("sym", x)) for x in tcf))
                        res.append((("enum", ai.RESULT, 0, (tc,)), mon.set(tc=n, any_fail=bool(mon.get("any_fail")) or n == "Fail", any_err=bool(mon.get("any_err")) or n == "Error")))
                    res.append((("enum", ai.RESULT, 1, (("sym", "TC_ERR"),)), mon.add("codes", "Err")))
                    return res
                return CodeHooks.extra_call(self, a, st, term, callee, args)

            def stmt(self, a, st, frame, s_):
                rv = s_.get("rv")
                if rv and rv.get("r") == "agg" and rv.get("adt") == TS and frame is st.frames[0]:
                    ev = a.resolve(st, a.operand(st, frame, rv["ops"][tsf.index("errors")]))
                    fv = a.resolve(st, a.operand(st, frame, rv["ops"][tsf.index("failures")]))
                    if st.mon.get("tc") is not None:
                        suites.setdefault(st.mon.get("tc"), set()).add((ai.fmt_val(ev), ai.fmt_val(fv)))
                    else:
                        suites.setdefault("<no case>", set()).add((ai.fmt_val(ev), ai.fmt_val(fv)))

            def ret(self, a, st, v):
                outs.append((v, st.mon))
        hr = HR(cr, "validate", inline_keys=["commands::reporters::JunitReporter::update_exit_code"])
        a = ai.AI(cr, hr, max_states=600000)
        try:
            a.run(key, args=[("ref", ("X", "SELF"), ())], mon=Mon(), ext={"SELF": ("enum", ADT, 0, tuple(fields))})
            ctx.states += a.n_states
            bad = []
            n = 0
            for v, mon in outs:
                if v[0] == "enum" and v[1] == ai.RESULT and v[2] == 0:
                    n += 1
                    c = v[3][0]
                    e, fl = bool(mon.get("any_err")), bool(mon.get("any_fail"))
                    exp = 5 if e else ((19 if init != 5 else 5) if fl else init)
                    if c != ("int", exp):
                        bad.append("some case errored=%s, some case failed=%s, init=%d gives %s, expected %d" % (e, fl, init, ai.fmt_val(c), exp))
            ctx.ob(rule, "%s:JunitReporter::report:init=%d" % (rule, init), not bad and n >= 3, "; ".join(sorted(set(bad))[:3]) or "%d Ok paths" % n, fn=cr.fns[key])
        except ai.Undecided as e:
            ctx.ob(rule, "%s:JunitReporter::report:init=%d" % (rule, init), False, "undecided %s" % e, fn=cr.fns[key])
    spec = {"Pass": ("0", "0"), "Skip": ("0", "0"), "Fail": ("0", "1"), "Error": ("1", "0"), "<no case>": ("0", "0")}
    for n_, exp in spec.items():
        ctx.ob(rule, "%s:JunitReporter::report::closure:%s" % (rule, n_), suites.get(n_) == {exp},
               "a file whose only test case is %s must give the suite (errors, failures) = %s, got %s" % (n_, exp, sorted(suites.get(n_, set()))), fn=cr.fns[key])


def structured_parse_closure(ctx, cr):
    """StructuredEvaluator::evaluate: a rules file that does not parse makes the evaluator's exit code 5 BEFORE it is handed to the
    reporter (whose own fold, decided above for init=5, keeps it non-zero).  Decided on `evaluate` itself with its per-file closures
    interpreted as the loops they stand for, so the rule does not depend on whether the parse step is a try_fold closure or a `for`
    body: at every construction of a reporter the exit_code operand is 5 iff a parse error was observed on that path."""
    rule = "R-C06-folds"
    key = "commands::reporters::validate::structured::StructuredEvaluator::evaluate"
    ADT = "commands::reporters::validate::structured::StructuredEvaluator"
    if key not in cr.fns or ADT not in cr.adts:
        ctx.lost(rule, rule + ":StructuredEvaluator::evaluate::closure", key)
        return
    fs = [f["name"] for f in cr.adts[ADT]["variants"][0]["fields"]]
    if "exit_code" not in fs:
        ctx.lost(rule, rule + ":StructuredEvaluator.exit_code", "field")
        return
    idx = fs.index("exit_code")
    fields = [("sym", "F%d" % i) for i in range(len(fs))]
    fields[idx] = ("int", 0)
    seen = []

    class H(CodeHooks):
        def inline(self, a, st, k, fn):
            # the evaluator's own private methods (a step of evaluate split off into a helper) and closures are part of the unit
            return k.startswith(key + "::{closure") or (k.startswith(ADT + "::") and k != key) or CodeHooks.inline(self, a, st, k, fn)

        def extra_call(self, a, st, term, callee, args):
            decl = M.norm_path(callee.get("decl", ""))
            mon = st.mon
            if decl == "std::iter::Iterator::next" and term.get("to") is not None:
                site = a.site(st)
                if mon.get("it:" + site):
                    return [(("enum", ai.OPTION, 0, ()), mon)]
                return [(("enum", ai.OPTION, 1, (a.sym(st, site + ":item"),)), mon.set(**{"it:" + site: 1})), (("enum", ai.OPTION, 0, ()), mon)]
            return CodeHooks.extra_call(self, a, st, term, callee, args)

        def stmt(self, a, st, frame, s_):
            rv = s_.get("rv")
            if rv and rv.get("r") == "agg" and rv.get("ak") == "adt" and frame is st.frames[0]:
                ad = cr.adts.get(rv.get("adt"))
                if ad and str(rv.get("adt")).endswith("Reporter"):
                    fl = [x["name"] for x in ad["variants"][rv.get("vi", 0)]["fields"]]
                    if "exit_code" in fl:
                        v = a.resolve(st, a.operand(st, frame, rv["ops"][fl.index("exit_code")]))
                        seen.append((rv["adt"].split("::")[-1], tuple(sorted(st.mon.get("parse", frozenset()))), v))
    h = H(cr, "validate")
    a = ai.AI(cr, h, max_states=600000)
    try:
        a.run(key, args=[("ref", ("X", "SELF"), ())], mon=Mon(), ext={"SELF": ("enum", ADT, 0, tuple(fields))})
    except ai.Undecided as e:
        ctx.ob(rule, rule + ":StructuredEvaluator::evaluate::closure", False, "undecided %s" % e, fn=cr.fns[key])
        return
    ctx.states += a.n_states
    bad = []
    saw_err = saw_ok = False
    for rep, parse, v in seen:
        if "Err" in parse:
            saw_err = True
            if v != ("int", 5):
                bad.append("%s is built with exit_code %s although a rules file failed to parse on this path" % (rep, ai.fmt_val(v)))
        else:
            saw_ok = True
            if v != ("int", 0):
                bad.append("%s is built with exit_code %s although every rules file parsed" % (rep, ai.fmt_val(v)))
    ctx.ob(rule, rule + ":StructuredEvaluator::evaluate::closure", not bad and saw_err and saw_ok,
           "; ".join(sorted(set(bad))[:3]) or "%d reporter constructions: exit_code is 5 iff a parse error was observed" % len(seen), fn=cr.fns[key],
           sample={"constructions": len(seen)})


TEST_DATA_SUFFIXES = {".json", ".yaml", ".JSON", ".YAML", ".yml", ".jsn"}


def suffix_literals(cr, keys):
    """string constants that look like file suffixes in the given bodies and in the named constants they refer to"""
    out = set()

    def scan(o, depth):
        if isinstance(o, dict):
            kk = o.get("k")
            if isinstance(kk, dict):
                sv = kk.get("str")
                if isinstance(sv, str) and sv.startswith(".") and len(sv) <= 12:
                    out.add(sv)
                nm = kk.get("named")
                if nm and depth < 2:
                    cb = cr.fns.get(M.norm_path(str(nm))) or cr.fns.get(str(nm))
                    if cb is not None and cb.get("kind") in ("const", "static"):
                        scan(cb["blocks"], depth + 1)
            for v in o.values():
                scan(v, depth)
        elif isinstance(o, list):
            for v in o:
                scan(v, depth)
    for k in keys:
        scan(cr.fns[k]["blocks"], 0)
        scan(cr.fns[k].get("promoted", []), 0)      # `&TABLE` / `TABLE.iter()` reads the table through a promoted constant
    return out


def test_files_considered(ctx, cr):
    """`test` exits 7 when an expectation is not met — provided the file with that expectation is looked at.  The --test-data filter of
    Test::execute accepts exactly the documented spellings of the JSON / YAML suffixes (lower and upper case); a filter that loses one
    makes `cfn-guard test -t specs.JSON` skip the file and exit 0."""
    rule = "R-C06-test-files-considered"
    EX = "<commands::test::Test as commands::Executable>::execute"
    from engine import flow
    # the filter may be a closure of execute, a private helper it calls, or a private fn item of the module handed to get_files_with_filter
    keys = sorted(set([k for k in flow.unit_functions(cr, EX, ("commands::test",), depth=2) if k != EX] if EX in cr.fns else []) |
                  set(k for k, fx in cr.fns.items() if k.startswith("commands::test::") and "::tests::" not in k and not fx.get("file", "").endswith("_tests.rs")
                      and fx.get("kind") in ("fn", "closure")))
    filt = [k for k in keys if any(M.norm_path(t["fn"].get("path", "")).endswith("<impl str>::ends_with") or "ends_with" in M.norm_path(t["fn"].get("path", "")) for bi, t in M.iter_calls(cr.fns[k]))]
    if not filt:
        ctx.lost(rule, rule + ":filter", "the suffix filter closure of Test::execute (no ends_with test found)")
        return
    roots = set((k.split("::{closure")[0] + "::{closure" + k.split("::{closure")[1]) if "::{closure" in k else k for k in filt)
    unit = [k for k in cr.fns if any(k == r or k.startswith(r + "::{closure") or k.startswith(r) and "::{closure" in r for r in roots)]
    got = suffix_literals(cr, unit)
    missing, extra = TEST_DATA_SUFFIXES - got, got - TEST_DATA_SUFFIXES
    ctx.ob(rule, rule + ":suffixes", not missing, ("the --test-data filter no longer accepts %s (accepts %s): such a spec file is silently skipped and its failed expectations do not reach the exit code" % (sorted(missing), sorted(got))) if missing
           else "the --test-data filter accepts %s" % sorted(got), fn=cr.fns[EX] if EX in cr.fns else None, sample={"accepts": sorted(got)})


RESULT_ITERATORS = ("fancy_regex::CaptureMatches", "fancy_regex::Matches", "walkdir::IntoIter", "walkdir::FilterEntry", "std::fs::ReadDir", "std::io::Lines",
                    "commands::files::Iter")
ERRORS_DROPPED_REVIEWED = {
    "commands::files::walk_dir": "directory entries that cannot be read (permissions, races) are skipped by design; the entries that can be read are all kept",
    "commands::files::get_files_with_filter": "same walkdir idiom: unreadable directory entries are skipped, readable ones are all kept",
    "<commands::test::OrderedTestDirectory as std::convert::From<walkdir::WalkDir>>::from": "same walkdir idiom in `test --dir`: unreadable directory entries are skipped",
}


def errors_not_dropped(ctx, crates):
    """an error that occurred is visible in the exit code only if it is not thrown away on the way: no code of the tool turns a `Result`
    into "nothing" — `.flatten()` / `.flat_map(..)` over Results (an Err yields no element, and with fancy_regex's capture iterator,
    which repeats its error, never ends), `.ok()` on a Result carrying the tool's own Error, `filter_map(Result::ok)` — outside the reviewed
    places (regex constants in lazy_static initialisers; unreadable directory entries in walk_dir)."""
    rule = "R-C06-errors-not-dropped"
    n_fns = 0
    for cr, kind in crates:
        hits = {}
        for k, f in sorted(cr.fns.items()):
            if f.get("file", "").endswith("_tests.rs") or "::tests::" in k or "__static_ref_initialize" in k or "clap::" in k:
                continue
            if not (k.startswith(("commands::", "rules::", "utils::", "<commands::", "<rules::", "<utils::", "main"))):
                continue
            n_fns += 1
            owner = k.split("::{closure")[0]
            for bi, t in M.iter_calls(f):
                d = M.norm_path(t["fn"].get("decl", ""))
                p = M.norm_path(t["fn"].get("path", ""))
                ga = [cr.ty_str(g) for g in t["fn"].get("ga", []) if isinstance(g, int)]
                what = None
                if d in ("std::iter::Iterator::flatten", "std::iter::Iterator::flat_map", "std::iter::Iterator::filter_map"):
                    if any(g.startswith("std::result::Result<") for g in ga[1:2]) or (d.endswith("flatten") and any(g.startswith(RESULT_ITERATORS) or "Result<" in g for g in ga[:1])):
                        what = d.split("::")[-1] + " over Results"
                    elif d.endswith("filter_map") and any("Result<" in g and "ok" in g for g in ga):
                        what = "filter_map(Result::ok)"
                elif p == "std::result::Result::ok" and len(ga) == 2 and ga[1].endswith("rules::errors::Error"):
                    # the tool's own error type: an evaluation / parse / read failure the caller was meant to see (probing calls into the
                    # OS or a library, `metadata().ok()`, are the same as the `if let Ok(..)` they abbreviate and are not counted)
                    what = "ok() on Result<_, %s>" % ga[1]
                if what:
                    hits.setdefault(owner, []).append("%s (l.%s)" % (what, t.get("ln")))
        for owner, hs in sorted(hits.items()):
            why = ERRORS_DROPPED_REVIEWED.get(owner)
            ctx.ob(rule, "%s:%s:%s" % (rule, kind, owner), why is not None, ("reviewed: " + why) if why else
                   "%s drops errors through %s: a failure there no longer reaches the exit code (and an iterator that repeats its error never ends under flatten)" % (owner.split("::")[-1], sorted(set(hs))),
                   fn=cr.fns.get(owner))
    ctx.ob(rule, rule + ":coverage", n_fns >= 600, "%d functions of the command and rule layers scanned for dropped Results" % n_fns)


def run(ctx):
    cr = ctx.bin
    test_files_considered(ctx, cr)
    errors_not_dropped(ctx, [(ctx.bin, "bin")] if ctx.bin is ctx.lib else [(ctx.lib, "lib"), (ctx.bin, "bin")])
    constants(ctx, cr)
    tables(ctx, cr)
    main_table(ctx, cr)
    for k in VALIDATE_FOLDS:
        fold_fn(ctx, cr, k, "validate")
    for k in TEST_FOLDS:
        fold_fn(ctx, cr, k, "test", inline_keys=["commands::test::get_exit_code"])
    structured_parse_closure(ctx, cr)
    reporter_folds(ctx, cr)
    ctx.assumptions += [
        "every callee that returns an exit code may return any code of its layer's alphabet or an error (over-approximation)",
        "clap's rejection of bad flag combinations is a dependency's behaviour and not analysed",
        "mixed outcomes (an error and a FAIL in one run) are left open by the property: any non-zero code is accepted",
    ]

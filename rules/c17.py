"""C17 — input parameters are merged into the data without loss or silent override (structural clauses; DESIGN §5 C17).

  R-C17-merge-table       PathAwareValue::merge: for every key of the other map, the value is inserted and the key recorded
                          exactly when the key was absent; a present key is an error at once (no silent choice); lists extend;
                          any other pair of kinds is an error
                          merge changes keys and values entry by entry only (no swap / replace / take of one of the parallel structures)
  R-C17-errors-propagate  every caller of merge returns the merge error (no unwrap, no swallowing)
  R-C17-params-reach-every-evaluation   in Validate::execute the value folded from --input-parameters is what every evaluation sink
                          receives (evaluate_rule's extra_data in both plain branches, StructuredEvaluator.input_params in both
                          structured branches); nothing takes, replaces or mutably borrows the parameters inside the per-file loops
  R-C17-every-file-loaded a file found by a discovery loop of Validate::execute is skipped only for not being a regular file or not
                          having a supported extension; walk_dir applies nothing that drops entries
  R-C17-file-discovery-agreement / R-C17-merge-operand-order   (see the functions' docstrings)
Not claimed: independence from the order of parameter files (observable only through reporting order).
"""
from engine import flow, ai, cg, mirlib as M
from engine import statusmon as S
from engine.statusmon import Mon

LEVEL = "other"
MERGE = "rules::path_value::PathAwareValue::merge"
PAV = "rules::path_value::PathAwareValue"
ERR = "rules::errors::Error"


def merge_table(ctx, cr):
    rule = "R-C17-merge-table"
    f = cr.fns.get(MERGE)
    if not f:
        ctx.lost(rule, rule + ":merge", MERGE)
        return
    names = [v["name"] for v in cr.adts[PAV]["variants"]]
    errn = [v["name"] for v in cr.adts[ERR]["variants"]]
    rows = {}
    problems = []

    class H(ai.Hooks):
        def close_iter(self, mon):
            if mon.get("in_iter"):
                c, i, p = mon.get("contains"), mon.get("ins", 0), mon.get("push", 0)
                if c is False and (i != 1 or p != 1):
                    problems.append("absent key: %d value inserts and %d key records (both must be exactly 1)" % (i, p))
                if c is True:
                    problems.append("a key that is already present does not end the merge with an error")
                if c is None and (i or p):
                    problems.append("value inserted without testing whether the key exists")

        def call(self, a, st, term, callee, args):
            p = M.norm_path(callee.get("path", ""))
            decl = M.norm_path(callee.get("decl", ""))
            mon = st.mon or Mon()
            if decl == "std::iter::Iterator::next" and term.get("to") is not None:
                self.close_iter(mon)
                base = mon.set(contains=None, ins=0, push=0)
                if mon.get("n", 0) >= 2:
                    return [(("enum", ai.OPTION, 0, ()), base.set(in_iter=False))]
                return [(("enum", ai.OPTION, 1, (a.sym(st, "ENTRY"),)), base.set(in_iter=True, n=mon.get("n", 0) + 1)), (("enum", ai.OPTION, 0, ()), base.set(in_iter=False))]
            if p.endswith("IndexMap::contains_key"):
                return [(("bool", True), mon.set(contains=True)), (("bool", False), mon.set(contains=False))]
            if p.endswith("IndexMap::insert"):
                return [(("sym", "OLD"), mon.set(ins=mon.get("ins", 0) + 1))]
            if p == "std::vec::Vec::push":
                return [(("tuple", ()), mon.set(push=mon.get("push", 0) + 1))]
            if p.endswith("::extend") and term.get("to") is not None:
                return [(("tuple", ()), mon.set(extended=True))]
            return None

        def constrained(self, a, st, sid, val):
            if val[0] == "enum" and val[1] == PAV:
                m = st.mon or Mon()
                if sid.startswith("arg1") and m.get("lhs") is None:
                    st.mon = m.set(lhs=names[val[2]])
                elif sid.startswith("arg2") and m.get("rhs") is None:
                    st.mon = m.set(rhs=names[val[2]])

        def ret(self, a, st, v):
            mon = st.mon or Mon()
            is_err = v[0] == "enum" and v[1] == ai.RESULT and v[2] == 1
            if mon.get("in_iter") and not is_err:
                self.close_iter(mon)
            kind = None
            if is_err and v[3][0][0] == "enum" and v[3][0][1] == ERR:
                kind = errn[v[3][0][2]]
            rows.setdefault((mon.get("lhs"), mon.get("rhs")), set()).add(("Err:%s" % kind if is_err else "Ok", mon.get("contains"), bool(mon.get("extended"))))
    a = ai.AI(cr, H(), max_states=400000)
    try:
        a.run(MERGE, mon=Mon())
    except ai.Undecided as e:
        ctx.ob(rule, rule + ":merge", False, "undecided %s" % e, fn=f)
        return
    ctx.states += a.n_states
    ctx.note_analysed("functions", MERGE)
    ctx.ob(rule, rule + ":map-entries", not problems, "; ".join(sorted(set(problems))[:3]) or "every absent key is inserted and recorded exactly once; a present key ends the merge", fn=f,
           sample={"fn": "PathAwareValue::merge", "rows": len(rows)})
    # the receiver's keys and values are parallel structures: merge only adds to them, entry by entry; it never exchanges, replaces or
    # takes one of them wholesale (std::mem::swap / replace / take, clear, retain ...), which would leave the other one behind
    whole = []
    for k2 in [MERGE] + [k for k in cr.fns if k.startswith(MERGE + "::{closure")]:
        for bi, t in M.iter_calls(cr.fns[k2]):
            p2 = M.norm_path(t["fn"].get("path", ""))
            if p2 in ("std::mem::swap", "std::mem::replace", "std::mem::take") or (p2.split("::")[-1] in ("clear", "retain", "drain", "truncate", "split_off", "swap_remove", "shift_remove", "remove")
                                                                                     and ("IndexMap" in p2 or "Vec" in p2)):
                whole.append("%s (l.%s)" % (p2, t.get("ln")))
    ctx.ob(rule, rule + ":entry-by-entry", not whole, ("merge applies %s: the key list and the value map of a struct no longer change together" % whole) if whole
           else "merge only inserts / pushes / extends, entry by entry", fn=f)
    mm = rows.get(("Map", "Map"), set())
    dup = [r for r in mm if r[1] is True]
    ctx.ob(rule, rule + ":duplicate-key-is-an-error", bool(dup) and all(r[0] == "Err:MultipleValues" for r in dup), "duplicate key outcomes: %s" % sorted(map(str, dup)), fn=f)
    ctx.ob(rule, rule + ":map-map-ok", any(r[0] == "Ok" for r in mm), "no successful Map/Map merge path", fn=f)
    ll = rows.get(("List", "List"), set())
    ctx.ob(rule, rule + ":list-list-extends", bool(ll) and all(r[0] == "Ok" and r[2] for r in ll), "List/List outcomes: %s" % sorted(map(str, ll)), fn=f)
    bad = []
    n = 0
    for (l, r), outs in rows.items():
        if l is None or r is None or (l, r) in (("Map", "Map"), ("List", "List")):
            continue
        n += 1
        if not all(o[0].startswith("Err:") for o in outs):
            bad.append("%s merged with %s succeeds" % (l, r))
    for (l, r), outs in rows.items():
        if (l in ("Map", "List")) and r is None and not all(o[0].startswith("Err:") or True for o in outs):
            bad.append("?")
    ctx.ob(rule, rule + ":other-kinds-are-errors", not bad and n >= 20, "; ".join(bad[:3]) or "%d incompatible kind pairs all rejected" % n, fn=f)


def errors_propagate(ctx, cr):
    rule = "R-C17-errors-propagate"
    g = cg.CallGraph(cr)
    callers = g.callers(MERGE)
    ctx.note_analysed("merge_callers", callers)
    if len(callers) < 3:
        ctx.lost(rule, rule + ":callers-floor", "only %d callers of merge (floor 3)" % len(callers))
    for k in callers:
        f = cr.fns[k]
        outs = []

        class H(S.StatusHooks):
            def role_of(self, a, st, term, callee):
                return "other"

            def extra_call(self, a, st, term, callee, args):
                if callee.get("key") == MERGE and term.get("to") is not None:
                    return [(("enum", ai.RESULT, 0, (a.sym(st, a.site(st, ":merged")),)), st.mon), (("enum", ai.RESULT, 1, (("sym", "MERGE_ERR"),)), st.mon.set(merge_err=True))]
                p = M.norm_path(callee.get("path", ""))
                if p in ("std::result::Result::unwrap", "std::result::Result::expect") and args:
                    v = a.resolve(st, args[0])
                    if v[0] == "enum" and v[1] == ai.RESULT and v[2] == 1 and v[3][0] == ("sym", "MERGE_ERR"):
                        outs.append(("panic", st.mon))
                        return [(ai.AI.DIVERGE, st.mon)]
                return None

            def ret(self, a, st, v):
                if st.mon.get("merge_err"):
                    outs.append((v, st.mon))
        h = H(cr, track_records=False)
        a = ai.AI(cr, h, max_states=900000)
        try:
            a.run(k, mon=Mon())
        except ai.Undecided as e:
            ctx.ob(rule, "%s:%s" % (rule, k), False, "undecided %s" % e, fn=f)
            continue
        ctx.states += a.n_states
        bad = []
        for v, mon in outs:
            if v == "panic":
                bad.append("the merge error is unwrapped (panic instead of an error)")
            elif not (isinstance(v, tuple) and v[0] == "enum" and v[1] == ai.RESULT and v[2] == 1 and "MERGE_ERR" in repr(v)):
                bad.append("after a merge error the function returns %s" % ai.fmt_val(v, cr)[:60])
        ctx.ob(rule, "%s:%s" % (rule, k), not bad and len(outs) >= 1, "; ".join(sorted(set(bad))[:2]) or "%d error paths all return the merge error" % len(outs), fn=f,
               sample={"caller": k, "error_paths": len(outs)})


def params_reach(ctx, cr):
    rule = "R-C17-params-reach-every-evaluation"
    key = "<commands::validate::Validate as commands::Executable>::execute"
    f = cr.fns.get(key)
    if not f:
        ctx.lost(rule, rule + ":execute", key)
        return
    names = M.local_names(f)
    extra = [l for l, n in names.items() if n == "extra_data"]
    if len(extra) != 1:
        ctx.lost(rule, rule + ":extra_data", "the local holding the folded input parameters (extra_data) in Validate::execute")
        return
    el = extra[0]
    from rules.c08 import def_of_local
    sinks = []

    def derived_from_extra(operand, depth=0):
        pl = M.op_place(operand)
        if pl is None:
            return False
        local = M.place_local(pl)
        if local == el:
            return True
        if depth > 5:
            return False
        d = def_of_local(f, local)
        if d and d[0] == "stmt":
            rv = d[2]["rv"]
            if rv["r"] == "use":
                return derived_from_extra(rv["o"], depth + 1)
            if rv["r"] == "ref":
                return derived_from_extra({"c": rv["p"]}, depth + 1)
        return False
    for bi, t in M.iter_calls(f):
        if t["fn"].get("key") == "commands::validate::evaluate_rule":
            sinks.append(("evaluate_rule (line %s)" % t.get("ln"), derived_from_extra(t["args"][2])))
    SE = "commands::reporters::validate::structured::StructuredEvaluator"
    sf = [x["name"] for x in cr.adts[SE]["variants"][0]["fields"]] if SE in cr.adts else []
    for bi, si, s in M.iter_stmts(f):
        rv = s.get("rv")
        if rv and rv.get("r") == "agg" and rv.get("adt") == SE and "input_params" in sf:
            sinks.append(("StructuredEvaluator.input_params (line %s)" % s.get("ln"), derived_from_extra(rv["ops"][sf.index("input_params")])))
    ctx.note_analysed("evaluation_sinks", [x[0] for x in sinks])
    if len(sinks) < 4:
        ctx.lost(rule, rule + ":sinks-floor", "only %d evaluation sinks found in Validate::execute (floor 4)" % len(sinks))
    for i, (name, ok) in enumerate(sinks):
        kind = name.split(" ")[0]
        ctx.ob(rule, "%s:%s#%d" % (rule, kind, sum(1 for x in sinks[:i] if x[0].split(" ")[0] == kind)), ok,
               "%s does not receive the value folded from --input-parameters (a constant or another value is passed)" % name if not ok else "%s receives extra_data" % name, fn=f,
               sample={"sink": name, "receives_input_parameters": ok} if i == 0 else None)
    # the fold itself: every parameter file is merged in
    n_merge = sum(1 for bi, t in M.iter_calls(f) if t["fn"].get("key") == MERGE)
    ctx.ob(rule, rule + ":fold-merges-every-file", n_merge >= 1, "Validate::execute must fold the parameter files with merge (%d merge calls)" % n_merge, fn=f)


CONSUMERS = ("take", "replace", "take_if", "insert", "get_or_insert", "get_or_insert_with", "swap", "as_mut", "as_deref_mut")


def params_loop_invariant(ctx, cr):
    """every data file is evaluated against the SAME parameters: inside the functions that loop over the data files, the parameter
    value (StructuredEvaluator.input_params / Validate::execute's extra_data) is only read — nothing takes, replaces or mutably
    borrows it, and the per-file closures capture it by shared reference"""
    rule = "R-C17-params-reach-every-evaluation"
    SE = "commands::reporters::validate::structured::StructuredEvaluator::evaluate"
    EX = "<commands::validate::Validate as commands::Executable>::execute"
    bodies = [k for k in cr.fns if k == SE or k.startswith(SE + "::{closure") or k == EX or k.startswith(EX + "::{closure")]
    if SE not in bodies or EX not in bodies:
        ctx.lost(rule, rule + ":loop-invariant", "StructuredEvaluator::evaluate / Validate::execute")
        return
    from rules.c04 import receiver_field
    bad = []
    n_reads = 0
    for k in sorted(bodies):
        f = cr.fns[k]
        names = M.local_names(f)
        plocals = set(l for l, n in names.items() if n in ("input_params", "extra_data"))
        for up in f.get("names", []):
            # closure upvars appear as (name, place through the environment)
            if up[0] in ("input_params", "extra_data") and not isinstance(up[1], int):
                plocals.add(("upvar", json_key(up[1])))
        # a `&mut` borrow of the parameters anywhere in these bodies (to be handed to a closure, say) is already a way to change them
        for bi, si, st in M.iter_stmts(f):
            rv = st.get("rv")
            if rv and rv.get("r") == "ref" and rv.get("m") and not isinstance(rv["p"], int):
                fnames = [pr[2] for pr in M.place_projs(rv["p"]) if isinstance(pr, list) and pr[0] == "f" and pr[2]]
                if fnames and fnames[-1] == "input_params":
                    bad.append("%s takes a mutable borrow of the input parameters (l.%s): whatever receives it can change them between data files" % (k.split("::")[-1], st.get("ln")))
        upvar_keys = [json_key(x[1]) for x in plocals if isinstance(x, tuple)] if False else [x[1] for x in plocals if isinstance(x, tuple)]

        def through_upvar(operand, depth=0):
            from rules.c08 import def_of_local
            pl_ = M.op_place(operand)
            for _ in range(5):
                if pl_ is None:
                    return False
                if not isinstance(pl_, int):
                    kk = json_key(pl_)
                    return any(kk.startswith(u[:-1]) or u.startswith(kk[:-1]) for u in upvar_keys)
                d_ = def_of_local(f, pl_)
                if not d_ or d_[0] != "stmt" or d_[2]["rv"]["r"] not in ("use", "ref"):
                    return False
                rv_ = d_[2]["rv"]
                pl_ = M.op_place(rv_["o"]) if rv_["r"] == "use" else rv_["p"]
            return False
        for bi, t in M.iter_calls(f):
            p = M.norm_path(t["fn"].get("path", ""))
            meth = p.split("::")[-1]
            if not t["args"]:
                continue
            pl = M.op_place(t["args"][0])
            if pl is None:
                continue
            fld = receiver_field(cr, f, t["args"][0])
            _, _, locs = flow.backward_slice(f, M.place_local(pl))
            touches = fld == "input_params" or bool(set(locs) & set(x for x in plocals if isinstance(x, int))) or (bool(upvar_keys) and through_upvar(t["args"][0]))
            if not touches:
                continue
            n_reads += 1
            is_mut_borrow = mut_borrowed(f, t["args"][0])
            if (p.startswith(("std::option::Option::", "std::mem::")) and meth in CONSUMERS) or (is_mut_borrow and fld == "input_params"):
                bad.append("%s applies %s to the input parameters (l.%s): later data files are evaluated against different parameters than the first" % (k.split("::")[-1] if "closure" in k else k.split("::")[-1], p, t.get("ln")))
    ctx.ob(rule, rule + ":loop-invariant", not bad and n_reads >= 2, "; ".join(sorted(set(bad))[:3]) or "%d uses of the parameter value in the per-file loops, all reads" % n_reads, fn=cr.fns[SE])


def json_key(x):
    import json
    return json.dumps(x)


def mut_borrowed(f, operand):
    """the operand is (a copy of) a `&mut` borrow taken in this body"""
    from rules.c08 import def_of_local
    pl = M.op_place(operand)
    for _ in range(4):
        if pl is None or not isinstance(pl, int):
            return False
        d = def_of_local(f, pl)
        if not d or d[0] != "stmt":
            return False
        rv = d[2]["rv"]
        if rv["r"] == "ref":
            return bool(rv.get("m"))
        if rv["r"] == "use":
            pl = M.op_place(rv["o"])
        else:
            return False
    return False


KIND_PREDICATES = ("is_file", "is_dir", "is_symlink")


def file_discovery_agreement(ctx, cr):
    """data files, parameter files and rule files are discovered by sibling loops in Validate::execute; they must ask the same question
    about a directory entry (today: std::path::Path::is_file, which follows symbolic links).  A sibling that resolves to another
    predicate (FileType::is_file, Metadata via symlink_metadata …) silently drops entries the others accept."""
    rule = "R-C17-file-discovery-agreement"
    EX = "<commands::validate::Validate as commands::Executable>::execute"
    f = cr.fns.get(EX)
    if not f:
        ctx.lost(rule, rule + ":execute", EX)
        return
    sites = {}
    for k in flow.unit_functions(cr, EX, ("commands::validate::",)):
        for bi, t in M.iter_calls(cr.fns[k]):
            p = M.norm_path(t["fn"].get("path", ""))
            if p.split("::")[-1] in KIND_PREDICATES:
                sites.setdefault(p, []).append(t.get("ln"))
    total = sum(len(v) for v in sites.values())
    if total < 2:
        ctx.lost(rule, rule + ":floor", "only %d file-kind tests found in Validate::execute and its helpers (floor 2)" % total)
        return
    major = max(sites, key=lambda p: len(sites[p]))
    deviants = {p: v for p, v in sites.items() if p != major and p.split("::")[-1] == major.split("::")[-1]}
    ctx.ob(rule, rule + ":execute", not deviants, ("%d sibling loops test entries with %s, but line(s) %s use %s: entries the other loops accept (e.g. symbolic links) are dropped there" % (
        len(sites[major]), major, sorted(sum(deviants.values(), [])), sorted(deviants))) if deviants else "%d file-kind tests, all %s" % (total, major), fn=f,
        sample={"predicates": {p: len(v) for p, v in sites.items()}})


def merge_operand_order(ctx, cr):
    """the plain and the structured path join the parameters with each data file through the same call shape — parameters.merge(data
    file) — so that a list-rooted document is concatenated in the same order (and a collision is reported for the same key) whichever
    path evaluates it: at every merge site where exactly one operand reads DataFile.path_value, that operand is the ARGUMENT"""
    rule = "R-C17-merge-operand-order"
    from rules.c04 import receiver_field
    sites = []
    for k, f in sorted(cr.fns.items()):
        if f.get("file", "").endswith("_tests.rs") or not k.startswith(("commands::", "<commands::")):
            continue
        for bi, t in M.iter_calls(f):
            if t["fn"].get("key") != MERGE:
                continue
            sides = []
            for i in (0, 1):
                pl = M.op_place(t["args"][i])
                reads = False
                if pl is not None:
                    calls, consts, locs = flow.backward_slice(f, M.place_local(pl))
                    for c in calls:
                        if c["args"] and receiver_field(cr, f, c["args"][0]) == "path_value":
                            reads = True
                    # a direct move/copy of the field
                    for bi2, si, st in M.iter_stmts(f):
                        rv = st.get("rv")
                        if rv and isinstance(st["p"], int) and st["p"] in locs:
                            src = M.op_place(rv["o"]) if "o" in rv else rv.get("p")
                            if src is not None and not isinstance(src, int) and any(isinstance(pr, list) and pr[0] == "f" and pr[2] == "path_value" for pr in M.place_projs(src)):
                                reads = True
                sides.append(reads)
            sites.append((k, t.get("ln"), sides, f))
    mixed = [x for x in sites if x[2][0] != x[2][1]]
    if len(mixed) < 2:
        ctx.lost(rule, rule + ":floor", "merge sites joining parameters with a data file: %d (floor 2: plain and structured path)" % len(mixed))
    for i, (k, ln, sides, f) in enumerate(mixed):
        ok = sides == [False, True]
        ctx.ob(rule, "%s:%s#%d" % (rule, k, i), ok, "parameters.merge(data file)" if ok else
               "here the data file is the receiver and the parameters the argument, the other path(s) do it the other way round: list-rooted documents are concatenated in the opposite order on this path", fn=f, line=ln or 0,
               sample={"site": k, "line": ln} if i == 0 else None)


def every_file_loaded(ctx, cr, rule="R-C17-every-file-loaded"):
    """every file that a discovery loop of Validate::execute accepts (has_a_supported_extension) is loaded: from the accepting branch, every
    path that comes back to the loop head passes through build_data_file (paths that leave the loop are error returns).  A `continue`
    squeezed in between — a de-duplication by base name, a size check — silently drops a parameter or data file."""
    EX = "<commands::validate::Validate as commands::Executable>::execute"
    f = cr.fns.get(EX)
    if not f:
        ctx.lost(rule, rule + ":execute", EX)
        return
    succ = [M.successors(b["term"]) for b in f["blocks"]]
    nexts = [bi for bi, t in M.iter_calls(f) if M.norm_path(t["fn"].get("decl", "")) == "std::iter::Iterator::next"]
    loaders = set(bi for bi, t in M.iter_calls(f) if M.norm_path(t["fn"].get("path", "")).endswith("validate::build_data_file"))

    def no_edge(t):
        """(block, successor) taken when the boolean a filter call returned is false; None when the result is not branched on directly"""
        if t.get("to") is None:
            return None
        blk = f["blocks"][t["to"]]
        sw = blk["term"]
        if sw["t"] != "switch":
            return None
        d = M.op_place(sw["d"])
        dest = t["dest"]
        inverted = False
        if d != dest:
            # `if !filter(..) { continue }` may negate first
            ok = False
            for st_ in blk["s"]:
                rv = st_.get("rv")
                if rv and st_["p"] == d and rv["r"] in ("un", "unop", "not") and M.op_place(rv.get("o", rv.get("a", {}))) == dest:
                    ok, inverted = True, True
                elif rv and st_["p"] == d and rv["r"] == "use" and M.op_place(rv["o"]) == dest:
                    ok = True
            if not ok:
                return None
        zero = [to for v, to in sw["cases"] if v == 0]
        if not zero:
            return None
        return (t["to"], sw["else"] if inverted else zero[0])
    # the recognised filters: not a regular file, not a supported extension.  Their "no" edges are the only legitimate ways to skip a file.
    filter_edges, ext_tests = set(), []
    for bi, t in M.iter_calls(f):
        p = M.norm_path(t["fn"].get("path", ""))
        if p.endswith("has_a_supported_extension") or p in ("std::path::Path::is_file", "std::fs::Metadata::is_file", "std::fs::FileType::is_file"):
            e = no_edge(t)
            if p.endswith("has_a_supported_extension"):
                ext_tests.append((bi, t, e))
            if e is not None:
                filter_edges.add(e)
    n = 0
    dom = flow.dominators(f)
    for bi, t, e in ext_tests:
        loops = [(len(flow.natural_loop(f, h, dom)), h) for h in nexts if bi in flow.natural_loop(f, h, dom)]
        if not loops:
            continue
        header = min(loops)[1]
        body = flow.natural_loop(f, header, dom)
        if e is None:
            ctx.lost(rule, "%s:l.%s" % (rule, t.get("ln")), "branch on has_a_supported_extension")
            continue
        # from the loop head, can the head be reached again without a loader block, other than over a recognised filter's "no" edge?
        seen, st = set(), [x for x in succ[header] if x in body]
        # the item arm only: the successor chain of next() up to its switch stays inside the body
        escaped = None
        while st:
            b = st.pop()
            if b in seen or b in loaders or b not in body:
                continue
            if b == header:
                escaped = True
                break
            seen.add(b)
            for x in succ[b]:
                if (b, x) in filter_edges:
                    continue
                st.append(x)
        n += 1
        ctx.ob(rule, "%s:discovery-loop#%d" % (rule, n - 1), not escaped,
               "a file can reach the next iteration without build_data_file although it is a regular file with a supported extension (a `continue` / extra condition in the loop at l.%s, e.g. a de-duplication): that file is silently not loaded" % f["blocks"][header]["term"].get("ln") if escaped
               else "every regular file with a supported extension is loaded before the next iteration (the only skips are the is_file and extension tests)", fn=f, line=t.get("ln", 0))
    if n < 2:
        ctx.lost(rule, rule + ":floor", "discovery loops with an extension test: %d (floor 2: data files, parameter files)" % n)
    # ... and the walk itself hands every directory entry to those loops: walk_dir applies nothing that drops entries (filter_entry,
    # filter, skip, take, depth limits) between WalkDir::new(base) and its result; `flatten` only drops unreadable entries.
    WK = "commands::files::walk_dir"
    wf = cr.fns.get(WK)
    if not wf:
        ctx.lost(rule, rule + ":walk", WK)
    else:
        DROPS = ("filter_entry", "filter", "filter_map", "skip", "skip_while", "take", "take_while", "step_by", "min_depth", "max_depth", "same_file_system", "find", "nth", "last")
        unit = flow.unit_functions(cr, WK, ("commands::files",), depth=2)
        dropping = []
        has_walk = False
        for uk in unit:
            uf = cr.fns.get(uk)
            if uf is None:
                continue
            for bi, t in M.iter_calls(uf):
                p = M.norm_path(t["fn"].get("path", ""))
                has_walk = has_walk or p.endswith("WalkDir::new")
                if p.split("::")[-1] in DROPS and (p.startswith("walkdir::") or p.startswith("std::iter::") or "Iterator" in p):
                    dropping.append("%s (l.%s)" % (p.split("::")[-1], t.get("ln")))
        ctx.ob(rule, rule + ":walk-yields-every-entry", has_walk and not dropping,
               ("walk_dir applies %s to the directory walk: entries it drops (the walk root included, for filter_entry) never reach the loaders, so `-r .` / `-d .` can find nothing and the run exits 0" % dropping) if dropping
               else ("walk_dir returns the sorted walk with unreadable entries dropped and nothing else" if has_walk else "WalkDir::new not found in walk_dir"), fn=wf)


def run(ctx):
    merge_table(ctx, ctx.lib)
    errors_propagate(ctx, ctx.lib)
    params_reach(ctx, ctx.lib)
    params_loop_invariant(ctx, ctx.lib)
    file_discovery_agreement(ctx, ctx.lib)
    merge_operand_order(ctx, ctx.lib)
    every_file_loaded(ctx, ctx.lib)
    ctx.assumptions += ["IndexMap::contains_key / insert behave as documented (dependency)"]

"""C05 — evaluation is deterministic (structural clauses; DESIGN §5 C05).

  R-C05-hash-order        every consumption of a randomly ordered container (std HashMap/HashSet iteration, adaptor chains,
                          Debug of keys()) reachable from the entry points is classified: an order-sensitive loop that feeds a
                          serialized value / the evaluation record is a violation; console-only sites (the property tolerates the
                          order of independent detail lines) and order-insensitive uses are listed in tables/hash_iteration.tbl.
                          A new site fails closed.
  R-C05-serialized-types  no std HashMap/HashSet (and no HashMap-backed alias) inside the field graph of any type handed to a
                          serde_json / serde_yaml serializer, except the reviewed never-populated metadata maps; serde_json is built
                          with preserve_order and the document containers are IndexMap.
  R-C05-ambient-sources   clock / environment / randomness / pointer-formatting calls are exactly the reviewed ones, and elapsed
                          times only flow into `time`/`duration` fields.
Not claimed: byte-identity of the serializers themselves, stdout/stderr interleaving.
"""
import os
import re
from engine import cg, flow, mirlib as M, facts

LEVEL = "other"
THOROUGH_VIEWS = ("cap=3",)   # this module already reads both the library's and the binary's copy where it matters
TABLE = os.path.join(facts.VERIF, "tables", "hash_iteration.tbl")
AMBIENT = os.path.join(facts.VERIF, "tables", "ambient_sources.tbl")
HASH_TYPES = ("std::collections::HashMap", "std::collections::HashSet", "std::collections::hash_map::", "std::collections::hash_set::")
ITER_TYPES = ("std::collections::hash_map::", "std::collections::hash_set::")


def load_table(path):
    out = {}
    if os.path.exists(path):
        for ln in open(path):
            ln = ln.rstrip("\n")
            if not ln.strip() or ln.startswith("#"):
                continue
            parts = ln.split(" | ")
            out[parts[0].strip()] = [p.strip() for p in parts[1:]]
    return out


def loop_blocks(f, header):
    """blocks on a cycle through `header` (natural-loop approximation)"""
    n = len(f["blocks"])
    succ = [M.successors(b["term"]) for b in f["blocks"]]
    fwd = set()
    st = [header]
    while st:
        x = st.pop()
        for y in succ[x]:
            if y not in fwd:
                fwd.add(y)
                st.append(y)
    pred = [[] for _ in range(n)]
    for i, ss in enumerate(succ):
        for y in ss:
            pred[y].append(i)
    bwd = set()
    st = [header]
    while st:
        x = st.pop()
        for y in pred[x]:
            if y not in bwd:
                bwd.add(y)
                st.append(y)
    return (fwd & bwd) | {header}


def serialize_adts(cr):
    out = set()
    for imp in cr.impls:
        tr = imp.get("trait", "") or ""
        if tr.endswith("Serialize") and "Deserialize" not in tr:
            p = cr.ty_adt(imp["self"])
            if p:
                out.add(p)
    return out


def ty_mentions(cr, idx, pred, depth=0, seen=None):
    seen = seen if seen is not None else set()
    if idx in seen or depth > 8:
        return False
    seen.add(idx)
    t = cr.types[idx]
    if t["k"] == "adt":
        if pred(t["p"]):
            return True
        return any(ty_mentions(cr, a, pred, depth + 1, seen) for a in t.get("a", []))
    if t["k"] in ("ref", "ptr", "slice", "array"):
        return ty_mentions(cr, t["t"], pred, depth + 1, seen)
    if t["k"] == "tuple":
        return any(ty_mentions(cr, e, pred, depth + 1, seen) for e in t["e"])
    return False


def hash_sites(cr, reach):
    """-> {site key: info}; one site per (function, consumed iterator type, kind)"""
    out = {}
    for k in sorted(reach):
        f = cr.fns[k]
        for bi, t in M.iter_calls(f):
            fn = t["fn"]
            p = M.norm_path(fn.get("path", ""))
            name = p.split("::")[-1]
            ga = fn.get("ga", [])
            first = cr.ty_str(ga[0]) if ga else ""
            selfs = cr.ty_str(fn["self"]) if "self" in fn else ""
            what = None
            if name == "next" and selfs.startswith(ITER_TYPES):
                what = "loop:" + short_iter(selfs)
            elif name in ("join", "fold", "for_each", "map", "filter", "collect", "find", "any", "all", "count", "cloned", "copied", "enumerate", "zip", "chain") and first.startswith(ITER_TYPES):
                what = "adaptor:%s:%s" % (name, short_iter(first))
            elif name == "fmt" and (first.startswith(ITER_TYPES) or selfs.startswith(ITER_TYPES) or selfs.startswith("std::collections::Hash")):
                what = "debug:" + short_iter(selfs or first)
            elif p in ("core::fmt::rt::Argument::new_debug",) and first.startswith(HASH_TYPES):
                what = "debug:" + short_iter(first)
            elif name == "extend" and selfs.startswith("std::collections::Hash"):
                continue    # extending a hash container is order-insensitive
            if what is None:
                continue
            key = "%s:%s" % (k, what)
            info = out.setdefault(key, {"fn": k, "what": what, "bbs": [], "line": t.get("ln", 0), "file": t.get("f", f.get("file", ""))})
            info["bbs"].append(bi)
    return out


def short_iter(s):
    import re
    m = re.match(r"std::collections::(hash_map|hash_set)::(\w+)<(.*)>$", s)
    if m:
        inner = re.sub(r"std::(string|vec|option|rc|collections)::", "", m.group(3))
        inner = re.sub(r"\b\w+::(\w+::)*", "", inner)
        return "%s::%s<%s>" % (m.group(1), m.group(2), inner.replace(" ", ""))
    return s.replace(" ", "")


def sink_in_loop(cr, f, site, ser):
    """-> description of an order-sensitive structured sink inside the loop driven by this iterator, or None"""
    if not site["what"].startswith("loop:"):
        return None
    for hb in site["bbs"]:
        blocks = loop_blocks(f, hb)
        for bi in sorted(blocks):
            t = f["blocks"][bi]["term"]
            if t["t"] != "call":
                continue
            fn = t["fn"]
            p = M.norm_path(fn.get("path", ""))
            d = M.norm_path(fn.get("decl", ""))
            if d.endswith("RecordTracer::start_record") or d.endswith("RecordTracer::end_record"):
                return "evaluation records are emitted inside the loop (line %s)" % t.get("ln")
            if p in ("std::vec::Vec::push", "std::vec::Vec::insert", "std::vec::Vec::extend") or p.endswith("::push"):
                ga = fn.get("ga", [])
                if ga and ty_mentions(cr, ga[0], lambda a: a in ser):
                    return "pushes %s (Serialize) in iteration order (line %s)" % (cr.ty_str(ga[0]), t.get("ln"))
    return None


def moved_row(table, key, live):
    """a reviewed row whose site moved with its statement into a closure / helper / sibling function of the same module: same source
    kind (everything after the function part of the key), the row's own key no longer live, same module (first four path segments)"""
    def split(k):
        m_ = re.match(r"^(.*?):(loop|debug|adaptor|collect|clock|env|address|random|tty/env)(:.*)?$", k)
        return (m_.group(1), m_.group(2) + (m_.group(3) or "")) if m_ else (k, "")

    def module(fn):
        return "::".join(fn.lstrip("<").split(" as ")[0].split("::{closure")[0].split("::")[:3])
    def norm_kind(kd):
        # Iter / IntoIter / Values / Keys ... of the same map type are the same traversal of the same container
        return re.sub(r"(hash_map|hash_set)::(Iter|IntoIter|Values|IntoValues|ValuesMut|Keys|IntoKeys|IterMut|Drain)<", r"\1::*<", kd)
    fn, kind = split(key)
    for tk, v in table.items():
        tfn, tkind = split(tk)
        same_fn = tfn.split("::{closure")[0] == fn.split("::{closure")[0]
        if tk in live or not kind or not (tkind == kind or (same_fn and norm_kind(tkind) == norm_kind(kind))):
            continue
        if tfn.split("::{closure")[0] == fn.split("::{closure")[0] or module(tfn) == module(fn):
            return tk, v
    return None


SORTS = ("sort", "sort_by", "sort_by_key", "sort_unstable", "sort_unstable_by", "sort_unstable_by_key", "sort_by_cached_key")


def sorted_before_use(cr, f, site):
    """a hash iteration that is only collected into a Vec which is sorted before anything else looks at it is order-insensitive by
    construction: every adaptor call of the site feeds (through further adaptors) a collect() whose Vec is first used by a sort call
    that dominates every other use."""
    from engine import flow
    from rules.c08 import def_of_local
    if not site["what"].startswith("adaptor:"):
        return None
    dom = flow.dominators(f)

    def uses_of(local):
        out = []
        for bi, b in enumerate(f["blocks"]):
            for st in b["s"]:
                rv = st.get("rv")
                if rv and rv["r"] in ("ref", "use") and M.place_local(rv.get("p") if rv["r"] == "ref" else (M.op_place(rv["o"]) or -1)) == local:
                    out.append((bi, "alias", st["p"] if isinstance(st["p"], int) else None))
            t = b["term"]
            if t["t"] == "call" and any(M.op_place(x) is not None and M.place_local(M.op_place(x)) == local for x in t["args"]):
                out.append((bi, "call", t))
        return out
    for bi in site["bbs"]:
        t = f["blocks"][bi]["term"]
        # follow the chain of adaptors to the collect
        cur, hops = t, 0
        while cur is not None and M.norm_path(cur["fn"].get("path", "")).split("::")[-1] != "collect" and hops < 8:
            nxt = None
            dl = cur.get("dest")
            if not isinstance(dl, int):
                return None
            us = uses_of(dl)
            calls = [u for u in us if u[1] == "call"]
            alias = [u for u in us if u[1] == "alias" and u[2] is not None]
            if len(calls) == 1 and not alias:
                nxt = calls[0][2]
            elif not calls and len(alias) == 1:
                a2 = uses_of(alias[0][2])
                nxt = a2[0][2] if len(a2) == 1 and a2[0][1] == "call" else None
            if nxt is None or not (M.norm_path(nxt["fn"].get("decl", "")).startswith("std::iter::Iterator::") or M.norm_path(nxt["fn"].get("decl", "")) == "std::iter::IntoIterator::into_iter"):
                return None
            cur, hops = nxt, hops + 1
        if cur is None or M.norm_path(cur["fn"].get("path", "")).split("::")[-1] != "collect" or not isinstance(cur.get("dest"), int):
            return None
        ty, _ = M.place_ty(cr, None, cur["dest"], f)
        if ty is None or not (ty.adt_path() or "").endswith("vec::Vec"):
            return None
        vec = cur["dest"]
        # every use of the Vec (through &mut / & aliases) that is not the sort itself must be dominated by a sort call on it
        frontier, users = [vec], []
        seen = set()
        while frontier:
            l = frontier.pop()
            if l in seen:
                continue
            seen.add(l)
            for u in uses_of(l):
                if u[1] == "alias" and u[2] is not None:
                    frontier.append(u[2])
                elif u[1] == "call":
                    users.append((u[0], u[2]))
        sort_bbs, feeders = [], set()
        for ub, ut in users:
            p = M.norm_path(ut["fn"].get("path", ""))
            if p.split("::")[-1] in SORTS:
                sort_bbs.append(ub)
            elif M.norm_path(ut["fn"].get("decl", "")) in ("std::ops::DerefMut::deref_mut", "std::ops::Deref::deref") and isinstance(ut.get("dest"), int):
                # `v.sort()` on a Vec goes through deref_mut to the slice: the deref is a feeder of the sort when the slice is only sorted
                fr2, seen2, sub = [ut["dest"]], set(), []
                while fr2:
                    l2 = fr2.pop()
                    if l2 in seen2:
                        continue
                    seen2.add(l2)
                    for u2 in uses_of(l2):
                        if u2[1] == "alias" and u2[2] is not None:
                            fr2.append(u2[2])
                        elif u2[1] == "call":
                            sub.append((u2[0], u2[2]))
                if sub and all(M.norm_path(x["fn"].get("path", "")).split("::")[-1] in SORTS for _, x in sub):
                    sort_bbs += [b_ for b_, _ in sub]
                    feeders.add(id(ut))
        if not sort_bbs:
            return None
        first_sort = min(sort_bbs, key=lambda b_: len(dom[b_]))
        for ub, ut in users:
            if id(ut) in feeders or M.norm_path(ut["fn"].get("path", "")).split("::")[-1] in SORTS:
                continue
            if first_sort not in dom[ub] or ub == first_sort:
                return None
    return "the iteration is only collected into a Vec that is sorted before any other use (decided on the CFG: the sort call dominates every other use)"


def hash_order(ctx):
    rule = "R-C05-hash-order"
    table = load_table(TABLE)
    sites = {}
    for cr, kind in ((ctx.lib, "lib"), (ctx.bin, "bin")):
        g = cg.CallGraph(cr)
        r = g.reachable(cg.entry_points(cr, kind))
        ser = serialize_adts(cr)
        for key, info in hash_sites(cr, r).items():
            if key not in sites:
                info["cr"] = cr
                info["sink"] = sink_in_loop(cr, cr.fns[info["fn"]], info, ser)
                sites[key] = info
    ctx.note_analysed("hash_iteration_sites", sorted(sites))
    if len(sites) < 8:
        ctx.lost(rule, rule + ":floor", "only %d hash-order consumption sites enumerated (floor 8)" % len(sites))
    for key in sorted(sites):
        s = sites[key]
        ent = table.get(key)
        if ent is None:
            mv = moved_row(table, key, set(sites))
            if mv is not None:
                ent = (mv[1][0], "moved from %s: %s" % (mv[0], mv[1][1] if len(mv[1]) > 1 else ""))
        cls = ent[0] if ent else None
        reason = ent[1] if ent and len(ent) > 1 else ""
        if s["sink"] and cls != "singleton":
            ctx.ob(rule, key, False, "randomly ordered container drives a structured / verdict sink: %s" % s["sink"], file=s["file"], line=s["line"])
            continue
        if ent is None:
            why = sorted_before_use(s["cr"], s["cr"].fns[s["fn"]], s)
            if why:
                ctx.ob(rule, key, True, "order-insensitive: " + why, file=s["file"], line=s["line"])
                continue
            ctx.ob(rule, key, False, "new consumption of a randomly ordered container (not classified in tables/hash_iteration.tbl)", file=s["file"], line=s["line"])
            continue
        ctx.ob(rule, key, True, "%s: %s" % (cls, reason), file=s["file"], line=s["line"],
               sample={"site": key, "class": cls, "reason": reason} if cls in ("singleton", "console") and "report_at_least_one" in key or "generic_summary" in key else None)


ACCUMULATORS = ("extend", "push", "append", "extend_from_slice", "collect", "concat", "chain", "insert", "flatten", "flat_map")


def singleton_side_condition(ctx):
    """The one `singleton` row of the table (report_at_least_one iterates a HashMap keyed by left-hand value) is harmless only while each
    call hands it the comparisons of ONE left-hand value.  Decided: at every call site the first argument's backward slice holds a
    direct each_lhs_compare result (one per match arm) and no accumulating operation (extend/push/collect…), i.e. it is one compare result, not a batch."""
    rule = "R-C05-hash-order"
    n = 0
    for cr, kind in ((ctx.lib, "lib"), (ctx.bin, "bin")):
        for k, f in sorted(cr.fns.items()):
            # the function may also be selected first (`let report = if .. { report_at_least_one } else { report_all_values }`) and
            # called through the pointer: an indirect call in a function that names it as a value is a call site too
            named = False

            def scan_(o):
                nonlocal named
                if isinstance(o, dict):
                    kk = o.get("k")
                    if isinstance(kk, dict) and "ty" in kk and cr.types[kk["ty"]]["k"] == "fndef" and M.norm_path(cr.types[kk["ty"]].get("p", "")).endswith("rules::eval::report_at_least_one"):
                        named = True
                    for v in o.values():
                        scan_(v)
                elif isinstance(o, list):
                    for v in o:
                        scan_(v)
            for b_ in f["blocks"]:
                scan_(b_["s"])
            for bi, t in M.iter_calls(f, include_indirect=True) if "include_indirect" in M.iter_calls.__code__.co_varnames else M.iter_calls(f):
                p = M.norm_path(t["fn"].get("path", ""))
                if not (p.endswith("rules::eval::report_at_least_one") or (named and t["fn"].get("via") == "indirect" and t["args"])):
                    continue
                n += 1
                pl = M.op_place(t["args"][0])
                key = "%s:singleton-side-condition:%s:%s#%d" % (rule, kind, k, n)
                if pl is None:
                    ctx.ob(rule, key, False, "constant argument", fn=f, line=t.get("ln", 0))
                    continue
                calls, consts, locs = flow.backward_slice(f, M.place_local(pl))
                names = [M.norm_path(c["fn"].get("path", "")) for c in calls]
                cmp_calls = [c for c, nme in zip(calls, names) if nme.endswith("rules::eval::each_lhs_compare")]
                acc = sorted(set(nme for nme in names if nme.split("::")[-1] in ACCUMULATORS))
                ok = len(cmp_calls) >= 1 and not acc
                ctx.ob(rule, key, ok, "one each_lhs_compare result per call (one left-hand value, so the grouping map has one entry)" if ok else
                       "report_at_least_one receives a batch (%d compare call sites, accumulated through %s): its HashMap keyed by left-hand value then has several entries and is iterated in hash order into the verdict list" % (len(cmp_calls), acc or "-"),
                       fn=f, line=t.get("ln", 0))
    if n < 2:
        ctx.lost(rule, rule + ":singleton-side-condition:floor", "call sites of report_at_least_one: %d (floor 2, one per crate copy)" % n)


def serialized_types(ctx):
    rule = "R-C05-serialized-types"
    cr = ctx.lib
    roots = {}
    for crx, kind in ((ctx.lib, "lib"), (ctx.bin, "bin")):
        reach = cg.CallGraph(crx).reachable(cg.entry_points(crx, kind))
        for k in sorted(reach):
            f = crx.fns[k]
            for bi, t in M.iter_calls(f):
                p = M.norm_path(t["fn"].get("path", ""))
                if p.startswith(("serde_json::to_", "serde_yaml::to_", "serde_json::ser::to_", "serde_yaml::ser::to_")):
                    for ga in t["fn"].get("ga", []):
                        for adt in adts_in(crx, ga):
                            roots.setdefault(adt, k)
    ctx.note_analysed("serializer_roots", sorted(roots))
    if len(roots) < 4:
        ctx.lost(rule, rule + ":roots-floor", "only %d serialized root types found (floor 4)" % len(roots))
    allowed = load_table(os.path.join(facts.VERIF, "tables", "serialized_hash_fields.tbl"))
    seen = set()
    work = list(roots)
    fields_checked = 0
    while work:
        adt = work.pop()
        if adt in seen or adt not in cr.adts:
            continue
        seen.add(adt)
        a = cr.adts[adt]
        if not a["local"]:
            continue
        ser_fields = serialized_field_names(cr, adt)
        for v in a["variants"]:
            for fd in v["fields"]:
                if ser_fields is not None and a["kind"] == "struct" and fd["name"] not in ser_fields:
                    continue        # #[serde(skip_serializing)]
                fields_checked += 1
                hashy = ty_mentions(cr, fd["ty"], lambda p: p in ("std::collections::HashMap", "std::collections::HashSet"))
                key = "%s:%s.%s" % (rule, adt, fd["name"])
                if hashy:
                    ent = allowed.get("%s.%s" % (adt, fd["name"]))
                    ok = ent is not None and never_populated(ctx, cr, adt, fd["name"])
                    ctx.ob(rule, key, ok, ("std hash container in a serialized type: %s" % cr.ty_str(fd["ty"])) if not ok else "never populated: " + ent[0],
                           file=a.get("file", ""), line=a.get("line", 0))
                for sub in adts_in(cr, fd["ty"]):
                    work.append(sub)
    ctx.note_analysed("serialized_adts", sorted(seen))
    ctx.ob(rule, rule + ":field-graph", fields_checked >= 40, "%d serialized fields of %d types examined" % (fields_checked, len(seen)),
           sample={"types": len(seen), "fields": fields_checked})
    # ordered containers where order is observable
    want = {("rules::eval_context::FileReport", "compliant"): "BTreeSet", ("rules::eval_context::FileReport", "not_applicable"): "BTreeSet",
            ("rules::path_value::MapValue", "values"): "IndexMap"}
    for (adt, fname), cont in want.items():
        a = cr.adts.get(adt)
        if not a:
            ctx.lost(rule, "%s:%s.%s" % (rule, adt, fname), "type missing")
            continue
        fd = [x for x in a["variants"][0]["fields"] if x["name"] == fname]
        ok = bool(fd) and cont in cr.ty_str(fd[0]["ty"])
        ctx.ob(rule, "%s:%s.%s" % (rule, adt, fname), ok, "must be an ordered %s, is %s" % (cont, cr.ty_str(fd[0]["ty"]) if fd else "missing"), file=a.get("file", ""), line=a.get("line", 0))
    for vname in ("Map",):
        a = cr.adts.get("rules::values::Value")
        if a:
            v = [x for x in a["variants"] if x["name"] == vname]
            ok = bool(v) and "IndexMap" in cr.ty_str(v[0]["fields"][0]["ty"])
            ctx.ob(rule, rule + ":rules::values::Value::Map", ok, "Value::Map must be an IndexMap (key order preserved and deterministic)")
    # serde_json preserve_order
    lock_ok = False
    try:
        toml = open(os.path.join(facts.REPO, "guard", "Cargo.toml")).read()
        import re
        m = re.search(r"serde_json\s*=\s*\{[^}]*features\s*=\s*\[([^\]]*)\]", toml) or \
            re.search(r"\[dependencies\.serde_json\][^\[]*?features\s*=\s*\[([^\]]*)\]", toml, re.S)
        lock_ok = bool(m and "preserve_order" in m.group(1))
    except Exception:
        pass
    ctx.ob(rule, rule + ":serde_json-preserve_order", lock_ok, "guard/Cargo.toml must enable serde_json's preserve_order feature")


def adts_in(cr, idx, depth=0, acc=None):
    acc = acc if acc is not None else set()
    if depth > 8:
        return acc
    t = cr.types[idx]
    if t["k"] == "adt":
        acc.add(t["p"])
        for a in t.get("a", []):
            adts_in(cr, a, depth + 1, acc)
    elif t["k"] in ("ref", "ptr", "slice", "array"):
        adts_in(cr, t["t"], depth + 1, acc)
    elif t["k"] == "tuple":
        for e in t["e"]:
            adts_in(cr, e, depth + 1, acc)
    return acc


def serialized_field_names(cr, adt):
    """names passed to serialize_field in the derived Serialize impl of a struct (None if not found)"""
    for k, f in cr.fns.items():
        if f.get("impl_trait", "").endswith("Serialize") and cr.ty_adt(f.get("impl_self")) == adt and k.endswith("::serialize"):
            names = set()
            for bi, t in M.iter_calls(f):
                p = M.norm_path(t["fn"].get("decl", ""))
                if p.endswith("serialize_field") or p.endswith("SerializeStruct::serialize_field") or p.endswith("serialize_entry"):
                    for a in t["args"]:
                        kk = a.get("k") if isinstance(a, dict) else None
                        if kk and "str" in kk:
                            names.add(kk["str"])
            return names or None
    return None


def never_populated(ctx, cr, adt, fname):
    """no reachable write (insert/extend from another source/entry) into <adt>.<fname> other than Default and self-extend"""
    a = cr.adts[adt]
    idx = [i for i, f in enumerate(a["variants"][0]["fields"]) if f["name"] == fname][0]
    for k, f in cr.fns.items():
        for bi, t in M.iter_calls(f):
            p = M.norm_path(t["fn"].get("path", ""))
            if not (p.startswith("std::collections::HashMap::") and p.split("::")[-1] in ("insert", "entry", "get_mut")):
                continue
            # receiver is a field projection .<idx> of a value of type adt ?
            for arg in t["args"][:1]:
                pl = M.op_place(arg)
                d = pl
                if isinstance(d, int):
                    from rules.c08 import def_of_local
                    dd = def_of_local(f, d)
                    if dd and dd[0] == "stmt" and dd[2]["rv"]["r"] == "ref":
                        d = dd[2]["rv"]["p"]
                if not isinstance(d, int) and d is not None:
                    for pr in M.place_projs(d):
                        if isinstance(pr, list) and pr[0] == "f" and pr[2] == fname:
                            ty, _ = M.place_ty(cr, None, [M.place_local(d), M.place_projs(d)[:M.place_projs(d).index(pr)]], f)
                            if ty is not None and ty.strip_refs().adt_path() == adt:
                                return False
    return True


def fn_formats_coloured(cr, base):
    """some body of function `base` (itself or one of its closures) still formats a ColoredString"""
    for k, f in cr.fns.items():
        if k == base or k.startswith(base + "::{closure"):
            for bi, t in M.iter_calls(f):
                p = M.norm_path(t["fn"].get("path", ""))
                d = M.norm_path(t["fn"].get("decl", ""))
                if p.endswith("Argument::new_display") or d in ("std::string::ToString::to_string", "std::fmt::Display::fmt"):
                    tys = [M.Ty(cr, x) for x in t["fn"].get("ga", [])]
                    if any((ty.strip_refs().adt_path() or "").endswith("ColoredString") for ty in tys):
                        return True
    return False


def colour_sources(ctx, table):
    """`colored` decides at run time (CLICOLOR_FORCE / NO_COLOR / isatty) whether a ColoredString renders escape sequences; the
    decision is taken in <ColoredString as Display>::fmt.  A ColoredString that is only dereferenced (write_str(&"x".red())) yields the
    plain text.  So the ambient read is *formatting* a ColoredString; it may only happen in functions that no builder of structured
    (serialised) output reaches, or at a reviewed site."""
    rule = "R-C05-ambient-sources"
    n = 0
    for cr, kind in ((ctx.lib, "lib"), (ctx.bin, "bin")):
        g = cg.CallGraph(cr)
        roots = [k for k in cr.fns if any(w in k.lower() for w in ("structured", "sarif", "junit")) or k.endswith("simplified_json_from_root")
                 or "report_all_failed_clauses_for_rules" in k or "::serde::Serialize" in k or "as serde::Serialize>" in k]
        if len(roots) < 50:
            ctx.lost(rule, "%s:colour:%s:roots" % (rule, kind), "only %d structured-output builders found (floor 50)" % len(roots))
        reach = g.reachable(roots, rta=False)
        for k in sorted(cr.fns):
            f = cr.fns[k]
            hits = []
            for bi, t in M.iter_calls(f):
                p = M.norm_path(t["fn"].get("path", ""))
                d = M.norm_path(t["fn"].get("decl", ""))
                is_fmt = p.endswith("Argument::new_display") or d in ("std::string::ToString::to_string", "std::fmt::Display::fmt")
                if not is_fmt:
                    continue
                tys = [M.Ty(cr, x) for x in t["fn"].get("ga", [])]
                if t["fn"].get("self") is not None:
                    tys.append(M.Ty(cr, t["fn"]["self"]))
                if any((ty.strip_refs().adt_path() or "").endswith("ColoredString") for ty in tys):
                    hits.append(t)
            if not hits:
                continue
            n += 1
            key = "%s:tty/env:colored" % k
            # a closure turned into a loop (or the reverse) moves the site between `f` and `f::{closure#n}`: rows are matched on the
            # enclosing named function
            base = k.split("::{closure")[0]
            ent = table.get(key) or next((v for tk, v in table.items() if tk.endswith(":tty/env:colored") and tk.split("::{closure")[0].split(":tty/env")[0] == base), None)
            if ent is None:
                # moved with its statement into another method of the same type / module (a function split in two): a reviewed row whose
                # own function no longer formats a ColoredString, in the same module, is taken over (conservation, as in R-C08)
                mod = "::".join(base.lstrip("<").split(" as ")[0].split("::")[:4])
                for tk, v in table.items():
                    if not tk.endswith(":tty/env:colored"):
                        continue
                    tfn = tk.split(":tty/env")[0]
                    tbase = tfn.split("::{closure")[0]
                    if "::".join(tbase.lstrip("<").split(" as ")[0].split("::")[:4]) == mod and not fn_formats_coloured(cr, tbase):
                        ent = ("moved from %s: %s" % (tfn, v[0]),)
                        break
            if k not in reach:
                ctx.ob(rule, "%s:%s" % (kind, key), True, "a ColoredString is formatted here, in a function no structured-output builder reaches (console text only)", fn=f, line=hits[0].get("ln", 0))
            else:
                ctx.ob(rule, "%s:%s" % (kind, key), ent is not None, ("reviewed: " + ent[0]) if ent else
                       "a ColoredString is formatted (escape sequences depend on CLICOLOR_FORCE / NO_COLOR / the terminal) in a function reached by the builders of structured output: serialised text would depend on the environment",
                       fn=f, line=hits[0].get("ln", 0))
    if n < 10:
        ctx.lost(rule, rule + ":colour:floor", "only %d functions formatting a ColoredString found (floor 10 over both crate copies)" % n)


def ambient(ctx):
    rule = "R-C05-ambient-sources"
    table = load_table(AMBIENT)
    found = {}
    for cr, kind in ((ctx.lib, "lib"), (ctx.bin, "bin")):
        g = cg.CallGraph(cr)
        r = g.reachable(cg.entry_points(cr, kind))
        for k in sorted(r):
            f = cr.fns[k]
            for bi, t in M.iter_calls(f):
                p = M.norm_path(t["fn"].get("path", ""))
                d = M.norm_path(t["fn"].get("decl", ""))
                src = None
                if p in ("std::time::Instant::now", "std::time::SystemTime::now"):
                    src = "clock:" + p.split("::")[-2]
                elif p.endswith("Utc::now") or p.endswith("Local::now"):
                    src = "clock:chrono"
                elif p.startswith("std::env::var") or p.startswith("std::env::vars") or p == "std::env::args":
                    src = "env:" + p.split("::")[-1]
                elif "chrono::Local" in p or "chrono::offset::local::Local" in p or "chrono::offset::Local" in p or any(
                        "chrono::Local" in cr.ty_str(g) or "offset::local::Local" in cr.ty_str(g) for g in ([t["fn"]["self"]] if "self" in t["fn"] else []) + list(t["fn"].get("ga", []))):
                    src = "env:timezone(chrono::Local)"
                elif p.startswith(("rand::", "getrandom::")) or p == "std::collections::hash_map::RandomState::new" and False:
                    src = "random"
                elif d == "std::fmt::Pointer::fmt" or p == "core::fmt::rt::Argument::new_pointer":
                    src = "address:{:p}"
                elif p in ("std::ptr::hash", "std::thread::current", "std::process::id"):
                    src = "address:" + p.split("::")[-1]
                if src:
                    found.setdefault("%s:%s" % (k, src), (f, t))
    colour_sources(ctx, table)
    ctx.note_analysed("ambient_sources", sorted(found))
    for key in sorted(found):
        f, t = found[key]
        ent = table.get(key)
        if ent is None:
            mv = moved_row(table, key, set(found))
            if mv is not None:
                ent = ("moved from %s: %s" % (mv[0], mv[1][0]),)
        if ent is None:
            # a private helper all of whose callers are reviewed for the same kind of source belongs to their unit
            from engine import ai as AIM
            fn_key, kind_ = key.rsplit(":", 2)[0], ":".join(key.rsplit(":", 2)[1:])
            for cr in (ctx.lib, ctx.bin):
                hf = cr.fns.get(fn_key)
                if hf is None or not AIM.is_private_fn(hf):
                    continue
                callers = [k2 for k2, f2 in cr.fns.items() if any(t2["fn"].get("key") == fn_key for _, t2 in M.iter_calls(f2))]
                rows = [table.get("%s:%s" % (c.split("::{closure")[0], kind_)) or table.get("%s:%s" % (c, kind_)) for c in callers]
                if callers and all(r is not None for r in rows):
                    ent = ("private helper of %s: %s" % (callers[0], rows[0][0]),)
                    break
        ctx.ob(rule, key, ent is not None, ("reviewed: " + ent[0]) if ent else "new read of the clock / environment / addresses in reachable code", fn=f, line=t.get("ln", 0),
               sample={"source": key, "reason": ent[0] if ent else None} if "date_time::now" in key else None)
    for key in table:
        if key not in found:
            ctx.note_analysed("ambient_table_unused", key)
    # elapsed times only feed time/duration fields: every aggregate field fed from as_millis() is named time/duration
    for cr in (ctx.lib,):
        for k, f in cr.fns.items():
            ms = set()
            for bi, t in M.iter_calls(f):
                if M.norm_path(t["fn"].get("path", "")).endswith("Duration::as_millis") and isinstance(t["dest"], int):
                    ms.add(t["dest"])
            if not ms:
                continue
            # propagate through plain moves
            changed = True
            while changed:
                changed = False
                for bi, si, s in M.iter_stmts(f):
                    rv = s.get("rv")
                    if rv and rv["r"] == "use" and isinstance(s["p"], int):
                        src = M.op_place(rv["o"])
                        if isinstance(src, int) and src in ms and s["p"] not in ms:
                            ms.add(s["p"])
                            changed = True
            bad = []
            for bi, si, s in M.iter_stmts(f):
                rv = s.get("rv")
                if rv and rv["r"] == "agg" and rv.get("ak") == "adt":
                    a = cr.adts.get(rv["adt"])
                    if not a:
                        continue
                    fl = a["variants"][rv["vi"]]["fields"]
                    for i, o in enumerate(rv["ops"]):
                        pl = M.op_place(o)
                        if isinstance(pl, int) and pl in ms and i < len(fl) and fl[i]["name"] not in ("time", "duration"):
                            bad.append("%s.%s" % (rv["adt"], fl[i]["name"]))
            ctx.ob(rule, "%s:elapsed-only-into-time-fields:%s" % (rule, k), not bad, "elapsed time flows into %s" % bad if bad else "elapsed milliseconds only feed time/duration fields", fn=f)


def _control_hash(sub, fx):
    for key in hash_sites(fx, set(fx.fns)):
        sub.ob("R-C05-hash-order", key, False, "consumption of a randomly ordered container")


def run(ctx):
    hash_order(ctx)
    singleton_side_condition(ctx)
    serialized_types(ctx)
    ambient(ctx)
    ctx.assumptions += [
        "console (plain text) reporters may print independent detail lines in any order (the property tolerates this); those sites are listed, not violations",
        "the serializers (serde_json with preserve_order, serde_yaml, quick-xml) are deterministic functions of the value they are given",
    ]
    ctx.positive_control("R-C05-hash-order", "hash-iteration", _control_hash, ["hash_order:loop:hash_map::Iter"])

"""C03 — negation is honoured (DESIGN §5 C03).

Decided statically (abstract interpretation of MIR; nothing is run):
  R-C03-negation-flows          in the clause evaluator, every call into an operator evaluator (unary / binary) receives an
                                argument that is a function of the clause's `negation` field, on every path
  R-C03-parser-sets-negation    every GuardAccessClause / GuardNamedRuleClause the parser builds takes `negation` from the
                                presence of the `not`/`NOT`/`!` prefix it parsed (only the synthesized type-block filter is constant)
  R-C03-flip-tables             not_operation / inverse_operation closures, the `empty` result-set special case, the
                                operator-level flip of (CmpOperator, bool) and the named-rule clause table; a flipped query-vs-query
                                result is rebuilt with a recomputed difference list (never the comparison's own list under the
                                opposite verdict)
  R-C03-duality                 table algebra: flipping Success/Fail of the C13 tables gives `not X > v == X <= v` etc.
"""
import re
from engine import ai, mirlib as M
from engine import statusmon as S
from engine.statusmon import Mon
from rules import c02, c13

LEVEL = "other"
EVAL = "rules::eval::"
GAC = "rules::exprs::GuardAccessClause"
GNC = "rules::exprs::GuardNamedRuleClause"


def mentions(v, sid, depth=0):
    if not isinstance(v, tuple) or depth > 12:
        return False
    if v and v[0] == "sym":
        return sid in v[1]
    return any(mentions(x, sid, depth + 1) for x in v if isinstance(x, tuple))


def negation_flows(ctx, cr):
    rule = "R-C03-negation-flows"
    key = EVAL + "eval_guard_access_clause"
    if key not in cr.fns:
        ctx.lost(rule, rule + ":eval_guard_access_clause", key)
        return
    neg = c02.field_sid(cr, "arg1*", GAC, ["negation"])
    if not neg:
        ctx.lost(rule, rule + ":negation-field", "GuardAccessClause.negation")
        return
    OPS = ("unary_operation", "binary_operation", "real_binary_operation")
    seen = {}

    class H(S.StatusHooks):
        def role_of(self, a, st, term, callee):
            return "child"

        def extra_call(self, a, st, term, callee, args):
            k = callee.get("key", "")
            decl = M.norm_path(callee.get("decl", ""))
            name = k[len(EVAL):] if k.startswith(EVAL) else None
            if name in OPS or decl.endswith("operators::Comparator::compare"):
                deep = [a.deep(st, x) for x in args]
                ok = any(mentions(d, neg) for d in deep)
                seen.setdefault(name or decl, []).append((ok, term.get("ln"), [ai.fmt_val(d, self.cr)[:70] for d in deep[1:4]]))
            return None

    h = H(cr, track_records=False)
    a = ai.AI(cr, h)
    try:
        a.run(key, mon=Mon())
    except ai.Undecided as e:
        ctx.ob(rule, rule + ":eval_guard_access_clause", False, "undecided %s" % e, fn=cr.fns[key])
        return
    ctx.states += a.n_states
    ctx.note_analysed("functions", key)
    f = cr.fns[key]
    for op in ("unary_operation", "binary_operation"):
        calls = seen.get(op, [])
        if not calls:
            ctx.lost(rule, "%s:%s" % (rule, op), "no call to %s from the clause evaluator" % op)
            continue
        bad = [c for c in calls if not c[0]]
        ctx.ob(rule, "%s:eval_guard_access_clause->%s" % (rule, op), not bad,
               "the prefix `not` (GuardAccessClause.negation) does not reach %s: call at line %s with %s" % (op, bad[0][1], bad[0][2]) if bad else "%d call paths all pass a function of negation" % len(calls),
               fn=f, line=(bad[0][1] if bad else 0), sample={"callee": op, "paths": len(calls), "args": calls[0][2]})
    other = [k for k in seen if k not in ("unary_operation", "binary_operation")]
    for k in other:
        bad = [c for c in seen[k] if not c[0]]
        ctx.ob(rule, "%s:eval_guard_access_clause->%s" % (rule, k), not bad, "negation does not reach %s" % k, fn=f)


def negation_exact(ctx, cr):
    """with concrete (operator-level not, prefix not): the binary evaluator gets their xor, the unary one gets both unchanged"""
    rule = "R-C03-negation-flows"
    key = EVAL + "eval_guard_access_clause"
    AC = "rules::exprs::AccessClause"
    if key not in cr.fns or GAC not in cr.adts or AC not in cr.adts:
        return
    gf = [f["name"] for f in cr.adts[GAC]["variants"][0]["fields"]]
    af = [f["name"] for f in cr.adts[AC]["variants"][0]["fields"]]
    if "negation" not in gf or "access_clause" not in gf or "comparator" not in af:
        ctx.lost(rule, rule + ":exact:fields", "GuardAccessClause/AccessClause fields")
        return
    f = cr.fns[key]
    for c1 in (False, True):
        for neg in (False, True):
            acv = [("sym", "AC%d" % i) for i in range(len(af))]
            acv[af.index("comparator")] = ("tuple", (("sym", "OP"), ("bool", c1)))
            gv = [("sym", "G%d" % i) for i in range(len(gf))]
            gv[gf.index("access_clause")] = ("enum", AC, 0, tuple(acv))
            gv[gf.index("negation")] = ("bool", neg)
            got = {"unary_operation": set(), "binary_operation": set()}

            class H(S.StatusHooks):
                def role_of(self, a, st, term, callee):
                    return "child"

                def extra_call(self, a, st, term, callee, args):
                    k = callee.get("key", "")
                    p = M.norm_path(callee.get("path", ""))
                    if k == EVAL + "unary_operation":
                        got["unary_operation"].add((a.deep(st, args[1]), a.deep(st, args[2])))
                    if k == EVAL + "binary_operation":
                        got["binary_operation"].add((a.deep(st, args[2]),))
                    if p.endswith("CmpOperator::is_unary"):
                        return [(("bool", True), st.mon), (("bool", False), st.mon)]
                    return None
            a = ai.AI(cr, H(cr, track_records=False))
            try:
                a.run(key, args=[("ref", ("X", "GAC"), ()), None], mon=Mon(), ext={"GAC": ("enum", GAC, 0, tuple(gv))})
            except ai.Undecided as e:
                ctx.ob(rule, "%s:exact:op_not=%s:prefix_not=%s" % (rule, c1, neg), False, "undecided %s" % e, fn=f)
                continue
            ctx.states += a.n_states
            exp_u = {(("tuple", (("sym", "OP"), ("bool", c1))), ("bool", neg))}
            exp_b = {(("tuple", (("sym", "OP"), ("bool", c1 != neg))),)}
            ok = got["unary_operation"] == exp_u and got["binary_operation"] == exp_b
            ctx.ob(rule, "%s:exact:op_not=%s:prefix_not=%s" % (rule, c1, neg), ok,
                   "unary gets %s (expected cmp unchanged, inverse=%s); binary gets %s (expected not flag %s)" % (
                       sorted(str([ai.fmt_val(x) for x in g]) for g in got["unary_operation"]), neg,
                       sorted(str([ai.fmt_val(x) for x in g]) for g in got["binary_operation"]), c1 != neg), fn=f,
                   sample={"operator_not": c1, "prefix_not": neg, "binary_gets_not": c1 != neg})


def parameterized_call(ctx, cr):
    """`not f(args)`: the call's status must be inverted like a named-rule reference"""
    rule = "R-C03-negation-flows"
    key = EVAL + "eval_parameterized_rule_call"
    PN = "rules::exprs::ParameterizedNamedRuleClause"
    if key not in cr.fns or PN not in cr.adts:
        ctx.lost(rule, rule + ":eval_parameterized_rule_call", key)
        return
    neg = c02.field_sid(cr, "arg1*", PN, ["named_rule", "negation"])
    if not neg:
        ctx.lost(rule, rule + ":eval_parameterized_rule_call:field", "named_rule.negation")
        return
    f = cr.fns[key]

    class H(S.StatusHooks):
        def role_of(self, a, st, term, callee):
            return "child" if callee.get("key") == EVAL + "eval_rule" else None

        def watch(self, a, st, sid, val):
            if sid == neg and val[0] == "bool":
                return st.mon.set(neg=val[1])
            return None
    # the call clause is given with its prefix-negation flag concrete (one run per value), so the table does not depend on how the code
    # consumes the flag (branch, xor, match on a pair); whether the flag is consumed at all shows as equal rows for both values
    GNC = "rules::exprs::GuardNamedRuleClause"
    pf = [x["name"] for x in cr.adts[PN]["variants"][0]["fields"]]
    gf = [x["name"] for x in cr.adts[GNC]["variants"][0]["fields"]] if GNC in cr.adts else []
    rows = {}
    for negv in (False, True):
        h = H(cr, track_records=False)
        a = ai.AI(cr, h, max_states=400000)
        gnc = ("enum", GNC, 0, tuple(("bool", negv) if n_ == "negation" else ("sym", "arg1*.named_rule.%s" % n_) for n_ in gf))
        pnv = ("enum", PN, 0, tuple(gnc if n_ == "named_rule" else ("sym", "arg1*.%s" % n_) for n_ in pf))
        try:
            a.run(key, args=[("ref", ("X", "CALL"), ())] + [None] * (f["argc"] - 1), mon=Mon(), ext={"CALL": pnv})
        except ai.Undecided as e:
            ctx.ob(rule, rule + ":eval_parameterized_rule_call", False, "undecided %s" % e, fn=f)
            return
        ctx.states += a.n_states
        for v, mon, tr in h.results:
            kind, s = S.ret_status(v)
            ch = mon.get("child", frozenset())
            if kind != "ok" or len(ch) != 1 or "Err" in ch:
                continue
            rows.setdefault((next(iter(ch)), negv), set()).add(s)
    unread = 1 if rows and all(rows.get((st_, False)) == rows.get((st_, True)) for st_ in S.NAMES) else 0
    ctx.ob(rule, rule + ":eval_parameterized_rule_call:reads-negation", unread == 0 and bool(rows),
           "the status of a parameterised rule call is returned without reading the clause's prefix negation (%d paths): `not f(args)` behaves like `f(args)`" % unread, fn=f)
    for st_ in S.NAMES:
        got = rows.get((st_, False), set())
        ctx.ob(rule, "%s:eval_parameterized_rule_call:%s:not=False" % (rule, st_), got == {st_} or not rows, "without prefix the call returns the rule's status: %s" % sorted(got), fn=f)
        got = rows.get((st_, True), set())
        exp = "FAIL" if st_ == "PASS" else "PASS"
        ctx.ob(rule, "%s:eval_parameterized_rule_call:%s:not=True" % (rule, st_), got == {exp} or not rows,
               "`not f(args)` with f %s must be %s, got %s" % (st_, exp, sorted(got)), fn=f,
               sample={"rule_status": st_, "prefix_not": True, "clause": sorted(got)} if st_ == "SKIP" else None)


class ParserHooks(ai.Hooks):
    """recognises  opt(not) / preceded(.., opt(not))  parsers and the result of applying them"""

    def __init__(self, cr):
        self.cr = cr
        self.built = []      # (adt, negation value, mon)

    def call(self, a, st, term, callee, args):
        path = M.norm_path(callee.get("path", ""))
        mon = st.mon
        rargs = [a.resolve(st, x) for x in args]
        if path == "nom::combinator::opt" and rargs and rargs[0][0] == "fn" and rargs[0][1].endswith("parser::not"):
            return [(("sym", "P:optnot"), mon)]
        if path in ("nom::sequence::preceded", "nom::combinator::cut", "nom::error::context") and any(x == ("sym", "P:optnot") for x in rargs):
            return [(("sym", "P:optnot"), mon)]
        if rargs:
            callee_obj = a.deref_val(st, args[0])
            if callee_obj == ("sym", "P:optnot") and term.get("to") is not None:
                return [(a.sym(st, "NOT"), mon)]
        return None

    def constrained(self, a, st, sid, val):
        if sid == "NOT@0.0.1" and val[0] == "enum" and val[1] == ai.OPTION:
            st.mon = (st.mon or Mon()).set(**{"not": "Some" if val[2] == 1 else "None"})

    def stmt(self, a, st, frame, s):
        rv = s.get("rv")
        if rv and rv.get("r") == "agg" and rv.get("adt") in (GAC, GNC):
            v = a.resolve(st, a.read_place(st, frame, s["p"]))
            fs = [f["name"] for f in self.cr.adts[rv["adt"]]["variants"][0]["fields"]]
            if v[0] == "enum" and "negation" in fs:
                nv = a.resolve_bool(st, v[3][fs.index("negation")])
                self.built.append((rv["adt"], nv, (st.mon or Mon()).get("not"), s.get("ln")))


CONST_FALSE_OK = {"rules::parser::type_block": "the filter clause `Type == '<name>'` synthesized for a type block has no prefix"}


def parser_sets_negation(ctx, cr):
    rule = "R-C03-parser-sets-negation"
    sites = {}
    for k, f in cr.fns.items():
        if not k.startswith("rules::parser::"):
            continue
        for bi, si, s in M.iter_stmts(f):
            rv = s.get("rv")
            if rv and rv.get("r") == "agg" and rv.get("adt") in (GAC, GNC):
                sites.setdefault(k, 0)
                sites[k] += 1
    ctx.note_analysed("construction_sites", ["%s x%d" % kv for kv in sorted(sites.items())])
    # floor: both clause types are still constructed by the parser, in at least three functions (the count of sites itself may shrink
    # when two duplicated constructions are merged)
    kinds = set()
    for k in sites:
        for bi, si, s in M.iter_stmts(cr.fns[k]):
            rv = s.get("rv")
            if rv and rv.get("r") == "agg" and rv.get("adt") in (GAC, GNC):
                kinds.add(rv["adt"])
    if kinds != {GAC, GNC} or len(sites) < 3:
        ctx.lost(rule, rule + ":floor", "clause constructions in the parser: kinds %s in %d functions (expected both GuardAccessClause and GuardNamedRuleClause, in >= 3 functions)" % (sorted(kinds), len(sites)))
    # constructions outside the parser would bypass it
    for k, f in cr.fns.items():
        if k.startswith("rules::parser::") or "serde" in k or "Deserialize" in k or "Clone" in k:
            continue
        for bi, si, s in M.iter_stmts(f):
            rv = s.get("rv")
            if rv and rv.get("r") == "agg" and rv.get("adt") in (GAC, GNC):
                ctx.ob(rule, "%s:outside-parser:%s" % (rule, k), False, "clause constructed outside the parser", fn=f, line=s.get("ln", 0))
    for k in sorted(sites):
        f = cr.fns[k]
        h = ParserHooks(cr)
        a = ai.AI(cr, h, max_states=300000)
        try:
            a.run(k, mon=Mon())
        except ai.Undecided as e:
            ctx.ob(rule, "%s:%s" % (rule, k), False, "undecided %s" % e, fn=f)
            continue
        ctx.states += a.n_states
        ctx.note_analysed("functions", k)
        bad = []
        n = 0
        for adt, nv, notst, ln in h.built:
            n += 1
            if k in CONST_FALSE_OK:
                if nv != ("bool", False):
                    bad.append("synthesized clause must have negation=false (line %s): %s" % (ln, ai.fmt_val(nv)))
                continue
            if notst is None:
                bad.append("negation is not taken from an `opt(not)` parse (line %s): %s" % (ln, ai.fmt_val(nv)))
            elif nv != ("bool", notst == "Some"):
                bad.append("prefix %s gives negation=%s (line %s)" % ("present" if notst == "Some" else "absent", ai.fmt_val(nv), ln))
        ctx.ob(rule, "%s:%s" % (rule, k), not bad and n >= 1, "; ".join(sorted(set(bad))[:3]) or "%d constructions on all paths agree with the parsed prefix" % n, fn=f,
               sample={"fn": k, "constructions": n})


def closures(ctx, cr):
    rule = "R-C03-flip-tables"
    for name, invs in (("not_operation", [None]), ("inverse_operation", [False, True])):
        key = EVAL + name + "::{closure#0}"
        if key not in cr.fns:
            ctx.lost(rule, "%s:%s" % (rule, name), key)
            continue
        f = cr.fns[key]
        # captured variables by name
        ups = {}
        for n, p in f.get("names", []):
            if not isinstance(p, int) and M.place_local(p) == 1:
                for pr in M.place_projs(p):
                    if isinstance(pr, list) and pr[0] == "f":
                        ups[n] = pr[1]
                        break
        for inv in invs:
            upv = [("sym", "UP%d" % i) for i in range(max(list(ups.values()) + [0]) + 1)]
            if inv is not None:
                if "inverse" not in ups:
                    ctx.lost(rule, "%s:%s:capture" % (rule, name), "captured `inverse`")
                    continue
                upv[ups["inverse"]] = ("bool", inv)
            rows = {}

            class H(ai.Hooks):
                def call(self, a, st, term, callee, args):
                    decl = M.norm_path(callee.get("decl", ""))
                    if decl.startswith("std::ops::Fn") and term.get("to") is not None:
                        return [(("enum", ai.RESULT, 0, (("bool", True),)), "T"), (("enum", ai.RESULT, 0, (("bool", False),)), "F"),
                                (("enum", ai.RESULT, 1, (("sym", "OP_ERR"),)), "E")]
                    return None

                def ret(self, a, st, v):
                    rows.setdefault(st.mon, set()).add(v)
            a = ai.AI(cr, H())
            a.run(key, args=[("ref", ("X", "ENV"), ()), ("sym", "VALUE")], ext={"ENV": ("closure", key, tuple(upv))})
            ctx.states += a.n_states
            flip = True if inv is None else inv
            exp = {"T": ("enum", ai.RESULT, 0, (("bool", not flip),)), "F": ("enum", ai.RESULT, 0, (("bool", flip),)),
                   "E": ("enum", ai.RESULT, 1, (("sym", "OP_ERR"),))}
            for inp in ("T", "F", "E"):
                got = rows.get(inp, set())
                ctx.ob(rule, "%s:%s:inverse=%s:%s" % (rule, name, inv, inp), got == {exp[inp]},
                       "operation gives %s => closure must return %s, returns %s" % (inp, ai.fmt_val(exp[inp]), sorted(ai.fmt_val(x) for x in got)), fn=f,
                       sample={"closure": name, "inverse": inv, "inner": inp, "returns": sorted(ai.fmt_val(x) for x in got)} if inp == "T" else None)


def unary_composition(ctx, cr):
    """unary_operation: the per-value operation handed to record_unary_clause is  inverse(not?(base), prefix_not)  with the
    base operation of the operator and  not? = operator-level not:  total flip == operator_not XOR prefix_not"""
    rule = "R-C03-flip-tables"
    key = EVAL + "unary_operation"
    CO = "rules::values::CmpOperator"
    if key not in cr.fns or CO not in cr.adts:
        ctx.lost(rule, rule + ":unary-composition", key)
        return
    ops = [v["name"] for v in cr.adts[CO]["variants"]]
    base_of = {"Exists": "exists_operation", "Empty": "element_empty_operation", "IsString": "is_string_operation", "IsMap": "is_struct_operation",
               "IsList": "is_list_operation", "IsBool": "is_bool_operation", "IsInt": "is_int_operation", "IsNull": "is_null_operation",
               "IsFloat": "is_float_operation"}
    f = cr.fns[key]
    for opname, base in base_of.items():
        if opname not in ops:
            ctx.lost(rule, "%s:unary-composition:%s" % (rule, opname), "CmpOperator::" + opname)
            continue
        bad = []
        n = 0
        for op_not in (False, True):
            for prefix in (False, True):
                seen = []

                class H(S.StatusHooks):
                    def role_of(self, a, st, term, callee):
                        return "child"

                    def extra_call(self, a, st, term, callee, args):
                        k = callee.get("key", "")
                        p = M.norm_path(callee.get("path", ""))
                        if k == EVAL + "not_operation":
                            return [(("tuple", (("str", "NOT"), a.resolve(st, args[0]))), st.mon)]
                        if k == EVAL + "inverse_operation":
                            return [(("tuple", (("str", "INV"), a.resolve(st, args[0]), a.resolve_bool(st, args[1]))), st.mon)]
                        if k == EVAL + "record_unary_clause":
                            seen.append(a.deep(st, args[0]))
                            return [(("sym", "BOXED"), st.mon)]
                        if p == "std::vec::Vec::is_empty":
                            return [(("bool", False), st.mon)]
                        if p.endswith("QueryPart::is_variable"):
                            return [(("bool", False), st.mon)]
                        return None
                h = H(cr, track_records=False)
                a = ai.AI(cr, h, max_states=400000)
                cmpv = ("tuple", (("enum", CO, ops.index(opname), ()), ("bool", op_not)))
                try:
                    a.run(key, args=[None, cmpv, ("bool", prefix), None, None, None], mon=Mon())
                except ai.Undecided as e:
                    bad.append("undecided %s" % e)
                    continue
                ctx.states += a.n_states
                for v in seen:
                    n += 1
                    flips = 0
                    cur = v
                    ok = True
                    for _ in range(6):
                        if cur[0] == "tuple" and cur[1] and cur[1][0] == ("str", "NOT"):
                            flips += 1
                            cur = cur[1][1]
                        elif cur[0] == "tuple" and cur[1] and cur[1][0] == ("str", "INV"):
                            if cur[1][2][0] != "bool":
                                ok = False
                                break
                            flips += 1 if cur[1][2][1] else 0
                            cur = cur[1][1]
                        else:
                            break
                    if cur[0] != "fn" or not cur[1].endswith("::" + base):
                        bad.append("%s is evaluated with %s" % (opname, ai.fmt_val(cur)[:50]))
                    elif not ok or (flips % 2 == 1) != (op_not != prefix):
                        bad.append("operator-not=%s prefix-not=%s composes %d flips (expected parity %s)" % (op_not, prefix, flips, op_not != prefix))
        ctx.ob(rule, "%s:unary-composition:%s" % (rule, opname), not bad and n >= 4, "; ".join(sorted(set(bad))[:3]) or "%d compositions agree" % n, fn=f,
               sample={"operator": opname, "compositions": n} if opname == "Exists" else None)


def comparator_flip(ctx, cr):
    """impl Comparator for (CmpOperator, bool): the mapping closure applied when the operator-level not is set"""
    rule = "R-C03-flip-tables"
    base = "<(rules::values::CmpOperator,bool) as rules::eval::operators::Comparator>::compare"
    keys = [k for k in cr.fns if k.startswith(base)]
    ck = base + "::{closure#0}"
    if base not in cr.fns or ck not in cr.fns:
        ctx.lost(rule, rule + ":comparator-flip", "%s (found %s)" % (base, keys[:3]))
        return
    VER = "rules::eval::operators::ValueEvalResult"
    CR = "rules::eval::operators::ComparisonResult"
    CMP = "rules::eval::operators::Compare"
    if VER not in cr.adts or CR not in cr.adts or CMP not in cr.adts:
        ctx.lost(rule, rule + ":comparator-flip:types", "operators result types")
        return
    crn = [v["name"] for v in cr.adts[CR]["variants"]]
    cmpn = [v["name"] for v in cr.adts[CMP]["variants"]]
    vern = [v["name"] for v in cr.adts[VER]["variants"]]
    f = cr.fns[ck]
    outs = []

    class H(ai.Hooks):
        def ret(self, a, st, v):
            outs.append((a.deep(st, ("sym", "E")), v))
    a = ai.AI(cr, H(), max_states=300000)
    a.pinned = ("E",)
    nup = len(cr.types[f["locals"][1]].get("up", [])) if cr.types[f["locals"][1]]["k"] == "closure" else 3
    env_t = M.Ty(cr, f["locals"][1])
    t = env_t.strip_refs().t
    nup = len(t.get("up", []))
    env = ("closure", ck, tuple(("sym", "UP%d" % i) for i in range(nup)))
    try:
        a.run(ck, args=[("ref", ("X", "ENV"), ()), ("sym", "E")], ext={"ENV": env})
    except ai.Undecided as e:
        ctx.ob(rule, rule + ":comparator-flip", False, "undecided %s" % e, fn=f)
        return
    ctx.states += a.n_states
    ctx.note_analysed("functions", ck)

    def classify(v):
        """-> (kind, compare-variant, payload) of a ValueEvalResult value"""
        if v[0] != "enum" or v[1] != VER:
            return ("?", None, None)
        if vern[v[2]] == "LhsUnresolved":
            return ("LhsUnresolved", None, v[3])
        c = v[3][0]
        if c[0] != "enum":
            return ("?", None, None)
        k = crn[c[2]]
        if k in ("Success", "Fail"):
            inner = c[3][0]
            if inner[0] == "enum":
                return (k, cmpn[inner[2]], inner[3])
            return (k, "?", inner)
        return (k, None, c[3])
    rows = {}
    for inp, out in outs:
        ik = classify(inp)
        ok_ = classify(out)
        rows.setdefault((ik[0], ik[1]), set()).add((ok_[0], ok_[1], ok_[2] == ik[2]))
    spec = {
        ("Fail", "Value"): {("Success", "Value", True)}, ("Fail", "ValueIn"): {("Success", "ValueIn", True)},
        ("Success", "Value"): {("Fail", "Value", True)}, ("Success", "ValueIn"): {("Fail", "ValueIn", True)},
        ("LhsUnresolved", None): {("LhsUnresolved", None, True)}, ("NotComparable", None): {("NotComparable", None, True)},
        ("RhsUnresolved", None): {("RhsUnresolved", None, True)},
    }
    for k2, exp in spec.items():
        got = rows.get(k2, set())
        ctx.ob(rule, "%s:comparator-flip:%s:%s" % (rule, k2[0], k2[1]), got == exp,
               "under the operator-level not, %s(%s) must map to %s keeping its values; got %s" % (k2[0], k2[1], sorted(exp), sorted(got, key=str)), fn=f,
               sample={"input": list(k2), "output": sorted(map(str, got))} if k2[0] == "NotComparable" else None)
    # list forms: a Success must never stay Success
    for cv in ("QueryIn", "ListIn"):
        got = rows.get(("Success", cv), set())
        ctx.ob(rule, "%s:comparator-flip:Success:%s" % (rule, cv), bool(got) and all(g[0] == "Fail" and g[1] == cv for g in got),
               "Success(%s) must become Fail(%s): %s" % (cv, cv, sorted(got, key=str)), fn=f)
        got = rows.get(("Fail", cv), set())
        ctx.ob(rule, "%s:comparator-flip:Fail:%s" % (rule, cv), bool(got) and all(g[1] == cv and g[0] in ("Success", "Fail") for g in got),
               "Fail(%s) must stay a %s result: %s" % (cv, cv, sorted(got, key=str)), fn=f)
    # the outer function: Skip stays Skip, flag off => identity, flag on => mapped through that closure
    fo = cr.fns[base]
    for flag in (False, True):
        res = []

        class HO(ai.Hooks):
            def call(self, a, st, term, callee, args):
                k = callee.get("key", "")
                p = M.norm_path(callee.get("path", ""))
                mon = st.mon or frozenset()
                if k == "<rules::values::CmpOperator as rules::eval::operators::Comparator>::compare":
                    ER = "rules::eval::operators::EvalResult"
                    ern = [v["name"] for v in self.cr.adts[ER]["variants"]]
                    return [(("enum", ai.RESULT, 0, (("enum", ER, ern.index("Skip"), ()),)), mon | {"inner:Skip"}),
                            (("enum", ai.RESULT, 0, (("enum", ER, ern.index("Result"), (("sym", "R"),)),)), mon | {"inner:Result"}),
                            (("enum", ai.RESULT, 1, (("sym", "INNER_ERR"),)), mon | {"inner:Err"})]
                if p.endswith("Iterator::map") and any(a.resolve(st, x)[0] == "closure" and a.resolve(st, x)[1] == ck for x in args):
                    return [(("sym", "MAPPED"), mon | {"mapped"})]
                if p.endswith("Iterator::collect") and any(a.resolve(st, x) == ("sym", "MAPPED") for x in args):
                    return [(("sym", "COLLECTED"), mon)]
                return None

            def ret(self, a, st, v):
                res.append((v, st.mon or frozenset()))
        ho = HO()
        ho.cr = cr
        a = ai.AI(cr, ho)
        a.run(base, args=[("ref", ("X", "SELF"), ()), ("sym", "LHS"), ("sym", "RHS")], ext={"SELF": ("tuple", (("sym", "OP"), ("bool", flag)))})
        ctx.states += a.n_states
        ER = "rules::eval::operators::EvalResult"
        ern = [v["name"] for v in cr.adts[ER]["variants"]]
        bad = []
        for v, m in res:
            if "inner:Err" in m:
                if not (v[0] == "enum" and v[2] == 1):
                    bad.append("inner error swallowed")
            elif "inner:Skip" in m:
                if v != ("enum", ai.RESULT, 0, (("enum", ER, ern.index("Skip"), ()),)):
                    bad.append("Skip must stay Skip, got %s" % ai.fmt_val(v, cr))
            elif "inner:Result" in m:
                want = ("sym", "COLLECTED") if flag else ("sym", "R")
                if v != ("enum", ai.RESULT, 0, (("enum", ER, ern.index("Result"), (want,)),)):
                    bad.append("not=%s: results must be %s, got %s" % (flag, "mapped through the flip closure" if flag else "returned unchanged", ai.fmt_val(v, cr)))
        ctx.ob(rule, "%s:comparator-flip:outer:not=%s" % (rule, flag), not bad and len(res) >= 3, "; ".join(bad[:2]) or "%d paths" % len(res), fn=fo)


def empty_special_case(ctx, cr):
    """unary_operation: the `empty` test on a bare variable / filter result set honours both negations"""
    rule = "R-C03-flip-tables"
    key = EVAL + "unary_operation"
    if key not in cr.fns:
        ctx.lost(rule, rule + ":empty-special-case", key)
        return
    CO = "rules::values::CmpOperator"
    ops = [v["name"] for v in cr.adts[CO]["variants"]]
    if "Empty" not in ops:
        ctx.lost(rule, rule + ":CmpOperator::Empty", "variant")
        return
    f = cr.fns[key]
    QR = "rules::QueryResult"
    qn = [v["name"] for v in cr.adts[QR]["variants"]]
    for not_empty in (False, True):
        for inverse in (False, True):
            events = []
            rets = []

            class H(S.StatusHooks):
                def role_of(self, a, st, term, callee):
                    return "child"

                def extra_call(self, a, st, term, callee, args):
                    p = M.norm_path(callee.get("path", ""))
                    decl = M.norm_path(callee.get("decl", ""))
                    mon = st.mon
                    if p.endswith("PathAwareValue::is_null"):
                        return [(("bool", True), mon.set(is_null=True)), (("bool", False), mon.set(is_null=False))]
                    if p == "std::vec::Vec::is_empty":
                        return [(("bool", True), mon.set(empty=True)), (("bool", False), mon.set(empty=False))]
                    if p.endswith("QueryPart::is_variable"):
                        return [(("bool", True), mon.set(var=True)), (("bool", False), mon.set(var=False))]
                    if decl.endswith("RecordTracer::end_record") and len(args) >= 3:
                        status = S.find_status(a, st, args[2])
                        events.append((mon.get("empty"), mon.get("elem"), mon.get("is_null"), status))
                        return None
                    if decl == "std::iter::Iterator::next":
                        return [(("enum", ai.OPTION, 1, (a.sym(st, "ELEM"),)), mon.set(elem=None, is_null=None)), (("enum", ai.OPTION, 0, ()), mon)]
                    return None

                def watch(self, a, st, sid, val):
                    if sid == "ELEM" and val[0] == "enum" and val[1] == QR:
                        return st.mon.set(elem=qn[val[2]])
                    return None

                def ret(self, a, st, v):
                    rets.append((v, st.mon))
            h = H(cr)
            a = ai.AI(cr, h, max_states=900000)
            cmpv = ("tuple", (("enum", CO, ops.index("Empty"), ()), ("bool", not_empty)))
            try:
                a.run(key, args=[None, cmpv, ("bool", inverse), None, None, None], mon=Mon())
            except ai.Undecided as e:
                ctx.ob(rule, "%s:empty-special-case:not_empty=%s:not=%s" % (rule, not_empty, inverse), False, "undecided %s" % e, fn=f)
                continue
            ctx.states += a.n_states
            bad = []
            n = 0
            for empty, elem, is_null, status in events:
                if empty is None:
                    continue     # the per-element operator path (not the special case) is covered by the closures
                if empty:
                    base = not not_empty
                elif elem == "UnResolved":
                    base = not not_empty
                elif elem in ("Resolved", "Literal"):
                    if is_null is None:
                        continue
                    base = (is_null != not_empty)
                else:
                    continue
                n += 1
                exp = "PASS" if (base != inverse) else "FAIL"
                if status != exp:
                    bad.append("empty=%s elem=%s is_null=%s gives %s, expected %s" % (empty, elem, is_null, status, exp))
            ctx.ob(rule, "%s:empty-special-case:not_empty=%s:not=%s" % (rule, not_empty, inverse), not bad and n >= 3,
                   "; ".join(sorted(set(bad))[:3]) or "%d record events agree" % n, fn=f,
                   sample={"not_empty": not_empty, "prefix_not": inverse, "events": n})


def duality(ctx, cr):
    """not X > v == X <= v on a single comparable value: flip(Success/Fail) of the order tables"""
    rule = "R-C03-duality"
    t = {"compare_lt": {"Less": True, "Equal": False, "Greater": False}}
    # the C13 order tables are decided by C13 itself; here only the algebra that C03 relies on
    spec = c13.ORDER_SPEC
    pairs = (("compare_gt", "compare_le"), ("compare_lt", "compare_ge"), ("compare_ge", "compare_lt"), ("compare_le", "compare_gt"))
    for x, y in pairs:
        ok = all((not spec[x][o]) == spec[y][o] for o in ("Less", "Equal", "Greater"))
        ctx.ob(rule, "%s:%s=not-%s" % (rule, y, x), ok, "table complement")
    sub = type(ctx).__new__(type(ctx))
    sub.__dict__.update(ctx.__dict__)
    sub.obs = []
    c13.order_tables(sub, cr)
    bad = [o for o in sub.obs if not o.ok]
    ctx.ob(rule, rule + ":order-tables-hold", not bad, "; ".join(o.key for o in bad[:3]) or "the extracted tables equal the specification used for the complement", sample={"tables": "compare_lt/le/gt/ge"})


def named(ctx, cr):
    sub = type(ctx).__new__(type(ctx))
    sub.__dict__.update(ctx.__dict__)
    sub.obs = []
    c02.named_clause(sub, cr)
    for o in sub.obs:
        ctx.ob("R-C03-flip-tables", o.key.replace("R-C02-combinators", "R-C03-flip-tables:named-rule"), o.ok, o.detail, file=o.file, line=o.line, sample=o.sample)


def reverse_diff_side(ctx, cr):
    """Negating a failed query-vs-query comparison recomputes the difference list and the clause PASSes iff that list is empty, so it
    must be taken over the side the producer took the difference over: `in` always collects left-hand values that are not contained
    (In operation: diff.push(eachl)), `==` collects from the left when lhs.len() > rhs.len() and from the right otherwise.  Decided as
    a table over (operator, rhs.len() >= lhs.len()) -> the QueryIn field handed to reverse_diff.  The whole of
    `(CmpOperator, bool)::compare` is interpreted with its per-result closure probed on a symbolic element (engine model of `map`), so the
    rule does not depend on what the closure captures or where the length comparison is written."""
    rule = "R-C03-flip-tables"
    k = "<(rules::values::CmpOperator,bool) as rules::eval::operators::Comparator>::compare"
    f = cr.fns.get(k)
    CO = "rules::values::CmpOperator"
    QI = "rules::eval::operators::QueryIn"
    ER = "rules::eval::operators::EvalResult"
    if not f or QI not in cr.adts or ER not in cr.adts or "rules::eval::operators::reverse_diff" not in cr.fns:
        ctx.lost(rule, rule + ":reverse-diff-side", "negation wrapper / QueryIn / EvalResult / reverse_diff")
        return
    ops = [v["name"] for v in cr.adts[CO]["variants"]]
    qf = [x["name"] for x in cr.adts[QI]["variants"][0]["fields"]]
    ern = [v["name"] for v in cr.adts[ER]["variants"]]
    for op in ("Eq", "In"):
        got = set()

        class H(ai.Hooks):
            def inline(self, a, st, key, fn):
                return key.startswith(k + "::{closure")

            def constrained(self, a, st, sid, val):
                m = re.match(r"\(LEN\((\w+)\*?\) (\w+) LEN\((\w+)\*?\)\)(!?)$", sid)
                if m and val[0] == "bool":
                    l, o, r, neg = m.groups()
                    nm = {"arg2": "LHS", "arg3": "RHS"}
                    l, r = nm.get(l, l), nm.get(r, r)
                    truth = val[1] != (neg == "!")
                    rel = {("RHS", "Ge", "LHS"): truth, ("LHS", "Le", "RHS"): truth, ("LHS", "Gt", "RHS"): not truth, ("RHS", "Lt", "LHS"): not truth}.get((l, o, r), "unrecognised:" + sid)
                    st.mon = (st.mon or Mon()).set(ge=rel)

            def call(self, a, st, term, callee, args):
                if callee.get("key") == "rules::eval::operators::reverse_diff":
                    v = a.resolve(st, args[1])
                    side = None
                    if v[0] == "ref":
                        fl = [pr for pr in v[2] if pr[0] == "f"]
                        side = qf[fl[-1][1]] if fl else None
                    got.add(((st.mon or Mon()).get("ge"), side))
                    return [(("sym", "RD"), st.mon)]
                if M.norm_path(callee.get("decl", "")).endswith("operators::Comparator::compare") and st.top is st.frames[0]:
                    # the un-negated comparison: some results
                    return [(("enum", ai.RESULT, 0, (("enum", ER, ern.index("Result"), (("sym", "RESULTS"),)),)), st.mon)]
                return None
        a = ai.AI(cr, H())
        ext = {"SELF": ("tuple", (("enum", CO, ops.index(op), ()), ("bool", True)))}
        try:
            a.run(k, args=[("ref", ("X", "SELF"), ()), None, None], mon=Mon(), ext=ext)
        except ai.Undecided as e:
            ctx.ob(rule, "%s:reverse-diff-side:%s" % (rule, op), False, "undecided %s" % e, fn=f)
            continue
        ctx.states += a.n_states
        if op == "In":
            want_desc = "always the left-hand values"
            ok = bool(got) and all(side == "lhs" for ge, side in got)
        else:
            want_desc = "the right-hand values iff rhs.len() >= lhs.len(), else the left-hand values"
            ok = got == {(True, "rhs"), (False, "lhs")}
        ctx.ob(rule, "%s:reverse-diff-side:%s" % (rule, op), ok, "negated %s recomputes the difference over %s; expected %s (the side its producer collects the difference from)" % (
            op, sorted(("rhs>=lhs:%s" % g, s_) for g, s_ in got), want_desc), fn=f, sample={"operator": op, "table": sorted(map(str, got))})


def negated_difference_rebuilt(ctx, cr):
    """when the negation wrapper turns a query-vs-query Success into a Fail (or the reverse) the difference list that travels with the
    result is what the caller counts the failures by: it must be rebuilt for the new verdict (QueryIn::new(<recomputed list>, lhs,
    rhs)) — handing the comparison's own QueryIn on under the opposite verdict keeps an EMPTY difference on a Fail, and a clause with no
    failures passes: `not X == Y` would pass whenever `X == Y` does."""
    from rules.c08 import def_of_local
    rule = "R-C03-flip-tables"
    k = "<(rules::values::CmpOperator,bool) as rules::eval::operators::Comparator>::compare"
    CMP = "rules::eval::operators::Compare"
    if k not in cr.fns or CMP not in cr.adts:
        ctx.lost(rule, rule + ":difference-rebuilt", k)
        return
    cn = [v["name"] for v in cr.adts[CMP]["variants"]]
    from engine import flow
    built, reused = 0, []
    for kk in flow.unit_functions(cr, k, ("rules::eval::operators",), depth=2):
        fx = cr.fns.get(kk)
        if fx is None or not (kk == k or kk.startswith(k + "::{closure") or ai.is_private_fn(fx)):
            continue
        for bi, si, st in M.iter_stmts(fx):
            rv = st.get("rv")
            if not (rv and rv.get("r") == "agg" and rv.get("adt") == CMP and cn[rv["vi"]] in ("QueryIn", "ListIn")):
                continue
            pl = M.op_place(rv["ops"][0]) if rv["ops"] else None
            src = "?"
            for _ in range(6):
                if pl is None:
                    break
                if not isinstance(pl, int):
                    src = "moved"
                    break
                d = def_of_local(fx, pl)
                if not d:
                    break
                if d[0] == "call":
                    src = "new" if M.norm_path(d[2]["fn"].get("path", "")).split("::")[-1] == "new" else "call:" + M.norm_path(d[2]["fn"].get("path", ""))
                    break
                rv2 = d[2]["rv"]
                if rv2["r"] == "use":
                    pl = M.op_place(rv2["o"])
                elif rv2["r"] == "agg":
                    src = "new"
                    break
                else:
                    break
            if src == "new":
                built += 1
            else:
                reused.append("%s(%s) (l.%s)" % (cn[rv["vi"]], src, st.get("ln")))
    ctx.ob(rule, rule + ":difference-rebuilt", built >= 4 and not reused, ("the negation wrapper hands on %s under the flipped verdict without rebuilding its difference list" % reused) if reused
           else "%d flipped results, each built by QueryIn::new / ListIn::new with a recomputed difference" % built, fn=cr.fns[k])


def run(ctx):
    cr = ctx.lib
    negated_difference_rebuilt(ctx, cr)
    negation_flows(ctx, cr)
    negation_exact(ctx, cr)
    parameterized_call(ctx, cr)
    parser_sets_negation(ctx, cr)
    closures(ctx, cr)
    unary_composition(ctx, cr)
    comparator_flip(ctx, cr)
    empty_special_case(ctx, cr)
    named(ctx, cr)
    duality(ctx, cr)
    reverse_diff_side(ctx, cr)
    ctx.assumptions += [
        "the content of the recomputed `diff` of negated list comparisons depends on run-time lists and is not claimed; decided is which side it is taken over",
        "nom's opt() returns Some exactly when the inner parser matched (dependency behaviour)",
    ]

"""C16 — `cfn-guard test` agrees with `cfn-guard validate` (structural clauses; DESIGN §5 C16).

  R-C16-same-core        both test reporters obtain their statuses from root_scope + eval_rules_file (the evaluation core
                         of validate) and match them through get_by_rules + get_status_result
  R-C16-status-match     get_status_result: a non-SKIP expectation is met iff some definition has that status; a SKIP
                         expectation is never met when a definition has a non-SKIP status and is decided only after all
                         definitions were looked at
                         (R-C16-same-core also: the plain and the structured `--dir` handlers parse a rules file under the same name)
  R-C16-buckets          per rule and test case: no expectation => skipped bucket only (never failed); matched => passed;
                         unmatched => failed (structured and plain reporter)
  R-C16-grouping         get_by_rules appends every top-level RuleCheck record to the list of its rule name and never overwrites an entry
                         (several, also non-adjacent, definitions of one rule all reach get_status_result)
  R-C16-junit-counts     the JUnit rendering agrees with the others on what failed: build_junit_test_cases emits one Pass element per
                         entry of passed_rules and one Fail element per entry of failed_rules, and the suite's `failures`
                         attribute is accumulated from the LENGTH of failed_rules of every test case (not from a count of test cases)
Exit codes of `test` are decided by C06.  Not claimed: agreement of the serde_yaml input loader with validate's loader.
"""
from engine import ai, flow, mirlib as M
from engine import statusmon as S
from engine.statusmon import Mon

LEVEL = "other"
GSR = "commands::reporters::test::get_status_result"
GBR = "commands::reporters::test::get_by_rules"
STRUCT = "commands::reporters::test::structured::StructuredTestReporter::evaluate"
GEN = "commands::reporters::test::generic::GenericReporter::get_by_result"


def same_core(ctx, cr):
    rule = "R-C16-same-core"
    for k in (STRUCT, GEN):
        f = cr.fns.get(k)
        if not f:
            ctx.lost(rule, "%s:%s" % (rule, k), "function missing")
            continue
        # the reporter's unit: the function, its closures and the private helpers of its module it calls (a per-input step split off
        # into a helper is still the reporter's code)
        called = set()
        for uk in flow.unit_functions(cr, k, ("commands::reporters::test::",)):
            called |= set(t["fn"].get("key", "") for bi, t in M.iter_calls(cr.fns[uk]))
        need = {"rules::eval_context::root_scope": "fresh root scope", "rules::eval::eval_rules_file": "the validate evaluation core",
                GBR: "grouping by rule name", GSR: "expectation matching"}
        for callee, why in need.items():
            ctx.ob(rule, "%s:%s->%s" % (rule, k.split("::")[-2] + "::" + k.split("::")[-1], callee.split("::")[-1]), callee in called,
                   "%s must use %s (%s)" % (k, callee, why), fn=f, sample={"reporter": k, "calls": callee} if callee.endswith("eval_rules_file") else None)
        others = [c for c in called if c.startswith("rules::eval::eval_") and c != "rules::eval::eval_rules_file"]
        ctx.ob(rule, "%s:%s:no-partial-evaluation" % (rule, k.split("::")[-2]), not others, "test reporter evaluates rule-by-rule through %s" % others, fn=f)


def status_match(ctx, cr):
    rule = "R-C16-status-match"
    f = cr.fns.get(GSR)
    if not f:
        ctx.lost(rule, rule + ":get_status_result", GSR)
        return
    for ei, exp in enumerate(S.NAMES):
        outs = []

        class H(ai.Hooks):
            def call(self, a, st, term, callee, args):
                decl = M.norm_path(callee.get("decl", ""))
                mon = st.mon
                if decl == "std::iter::Iterator::next" and term.get("to") is not None:
                    return [(("enum", ai.OPTION, 1, (("ref", ("X", "ELEMCELL"), ()),)), mon.set(cur=None, n=min(2, mon.get("n", 0) + 1))),
                            (("enum", ai.OPTION, 0, ()), mon.set(done=True))]
                if M.norm_path(callee.get("path", "")) == "std::vec::Vec::len":
                    return [(("sym", "LEN"), mon)]
                return None

            def inline(self, a, st, key, fn):
                it = fn.get("impl_trait", "")
                return it == "std::cmp::PartialEq" and cr.ty_adt(fn.get("impl_self")) == S.STATUS

            def constrained(self, a, st, sid, val):
                if val[0] == "enum" and val[1] == S.STATUS and sid.startswith("ELEMCELL*"):
                    st.mon = st.mon.add("seen", S.NAMES[val[2]])
                if val[0] == "enum" and val[1] == "rules::RecordType" and sid.startswith("ELEMCELL*"):
                    vs = cr.adts["rules::RecordType"]["variants"]
                    if vs[val[2]]["name"] != "RuleCheck":
                        st.mon = st.mon.set(noninc=True)
                if val[0] == "bool" and " Eq " in sid and "LEN" in sid and val[1] is True:
                    # counter == rule.len(): the counter is incremented at most once per element and the loop visits at
                    # most rule.len() elements, so equality is infeasible once an element did not increment it
                    if st.mon.get("noninc") or (set(st.mon.get("seen", frozenset())) - {"SKIP"}):
                        st.mon = st.mon.set(infeasible=True)

            def ret(self, a, st, v):
                outs.append((v, st.mon))
        a = ai.AI(cr, H())
        a.pinned = ()
        try:
            a.run(GSR, args=[S.status_val(ei), None], mon=Mon())
        except ai.Undecided as e:
            ctx.ob(rule, "%s:expected=%s" % (rule, exp), False, "undecided %s" % e, fn=f)
            continue
        ctx.states += a.n_states
        bad = []
        n = 0
        for v, mon in outs:
            if v[0] != "tuple" or not v[1] or mon.get("infeasible"):
                continue
            n += 1
            m = v[1][0]
            matched = m[0] == "enum" and m[1] == ai.OPTION and m[2] == 1
            seen = set(mon.get("seen", frozenset()))
            if matched:
                inner = m[3][0]
                if S.status_of(inner) != ei:
                    bad.append("matched with %s instead of the expected status" % ai.fmt_val(inner, cr))
            if exp != "SKIP":
                if matched and exp not in seen:
                    bad.append("expectation %s reported met although no definition had it (saw %s)" % (exp, sorted(seen)))
                if not matched and exp in seen:
                    bad.append("expectation %s reported unmet although a definition had it" % exp)
            else:
                if matched and (seen - {"SKIP"}):
                    bad.append("SKIP expectation reported met although a definition was %s" % sorted(seen - {"SKIP"}))
                if matched and not mon.get("done"):
                    bad.append("SKIP expectation decided before all definitions were looked at")
        ctx.ob(rule, "%s:expected=%s" % (rule, exp), not bad and n >= 2, "; ".join(sorted(set(bad))[:3]) or "%d return paths" % n, fn=f,
               sample={"expected": exp, "paths": n})


def buckets(ctx, cr):
    rule = "R-C16-buckets"
    f = cr.fns.get(STRUCT)
    if not f:
        ctx.lost(rule, rule + ":structured", STRUCT)
    else:
        P = "commands::reporters::test::structured::"
        events = []

        class H(S.StatusHooks):
            def role_of(self, a, st, term, callee):
                return "child"

            def extra_call(self, a, st, term, callee, args):
                p = M.norm_path(callee.get("path", ""))
                k = callee.get("key", "")
                mon = st.mon
                if k == GSR:
                    return [(("tuple", (("enum", ai.OPTION, 1, (("sym", "ST"),)), ("sym", "SV"))), mon.set(match="Some")),
                            (("tuple", (("enum", ai.OPTION, 0, ()), ("sym", "SV"))), mon.set(match="None"))]
                if p.endswith("HashMap::get") and term.get("to") is not None:
                    return [(("enum", ai.OPTION, 1, (("sym", "EXP"),)), mon.set(exp="Some", match=None)),
                            (("enum", ai.OPTION, 0, ()), mon.set(exp="None", match=None))]
                if p == "std::vec::Vec::push" and len(args) == 2:
                    v = a.resolve(st, args[1])
                    if v[0] == "enum" and v[1].startswith(P) and v[1].split("::")[-1] in ("PassedRule", "FailedRule", "SkippedRule"):
                        events.append((v[1].split("::")[-1], mon.get("exp"), mon.get("match")))
                        return [(("tuple", ()), mon)]
                return None
        h = H(cr, track_records=False)
        a = ai.AI(cr, h, max_states=900000)
        try:
            a.run(STRUCT, mon=Mon())
            ctx.states += a.n_states
            spec = {("SkippedRule", "None", None), ("PassedRule", "Some", "Some"), ("FailedRule", "Some", "None")}
            got = set(events)
            ctx.ob(rule, rule + ":structured", got == spec, "bucket pushes (bucket, expectation present, matched): %s; expected %s" % (sorted(got, key=str), sorted(spec, key=str)), fn=f,
                   sample={"reporter": "structured", "pushes": sorted(map(str, got))})
        except ai.Undecided as e:
            ctx.ob(rule, rule + ":structured", False, "undecided %s" % e, fn=f)
    # every evaluated test case reaches the result: from the evaluation of a test input, every path back to the head of the per-input loop
    # passes insert_test_case (paths that leave the loop are error returns).  A `continue` for "empty" cases drops test cases whose rules
    # all lack an expectation from the JSON / YAML / JUnit renderings while the plain text still lists them.
    f = cr.fns.get(STRUCT)
    if f:
        from engine import flow
        succ = [M.successors(b["term"]) for b in f["blocks"]]
        # the evaluation of one test input: the call of eval_rules_file, or of a helper of this module that makes it
        EVK = "rules::eval::eval_rules_file"
        evaluating = {EVK}
        unit_ = flow.unit_functions(cr, STRUCT, ("commands::reporters::test::",), depth=2)
        for _ in range(2):
            for uk in unit_:
                if uk != STRUCT and uk in cr.fns and any(t_["fn"].get("key") in evaluating for _b, t_ in M.iter_calls(cr.fns[uk])):
                    evaluating.add(uk)
        evals = [(bi, t) for bi, t in M.iter_calls(f) if t["fn"].get("key") in evaluating]
        inserts = set(bi for bi, t in M.iter_calls(f) if M.norm_path(t["fn"].get("path", "")).endswith("TestResult::insert_test_case"))
        nexts = [bi for bi, t in M.iter_calls(f) if M.norm_path(t["fn"].get("decl", "")) == "std::iter::Iterator::next"]
        if len(evals) != 1 or not inserts:
            ctx.lost(rule, rule + ":every-test-case-reported", "eval_rules_file calls: %d, insert_test_case calls: %d in the structured test reporter" % (len(evals), len(inserts)))
        else:
            dom = flow.dominators(f)
            bi, t = evals[0]
            loops = [(len(flow.natural_loop(f, h, dom)), h) for h in nexts if bi in flow.natural_loop(f, h, dom)]
            if not loops or t.get("to") is None:
                ctx.lost(rule, rule + ":every-test-case-reported", "the per-input loop around eval_rules_file")
            else:
                header = min(loops)[1]
                body = flow.natural_loop(f, header, dom)
                seen, st, escaped = set(), [t["to"]], False
                while st:
                    b = st.pop()
                    if b in seen or b in inserts or b not in body:
                        continue
                    if b == header:
                        escaped = True
                        break
                    seen.add(b)
                    st.extend(succ[b])
                ctx.ob(rule, rule + ":every-test-case-reported", not escaped,
                       "after a test input was evaluated the loop can go on to the next input without insert_test_case: that test case is missing from the structured report" if escaped
                       else "every evaluated test input is inserted into the result before the next one", fn=f, line=t.get("ln", 0))
    f = cr.fns.get(GEN)
    if not f:
        ctx.lost(rule, rule + ":generic", GEN)
        return
    events = []

    class HG(S.StatusHooks):
        def role_of(self, a, st, term, callee):
            return "child"

        def extra_call(self, a, st, term, callee, args):
            p = M.norm_path(callee.get("path", ""))
            decl = M.norm_path(callee.get("decl", ""))
            k = callee.get("key", "")
            mon = st.mon
            if k == GSR:
                return [(("tuple", (("enum", ai.OPTION, 1, (("sym", "ST"),)), ("sym", "SV"))), mon.set(match="Some")),
                        (("tuple", (("enum", ai.OPTION, 0, ()), ("sym", "SV"))), mon.set(match="None"))]
            if p.endswith("HashMap::get") and term.get("to") is not None:
                return [(("enum", ai.OPTION, 1, (("sym", "EXP"),)), mon.set(exp="Some", match=None)),
                        (("enum", ai.OPTION, 0, ()), mon.set(exp="None", match=None))]
            if decl == "std::convert::From::from" and args and a.deref_val(st, args[0])[0] == "str" and a.deref_val(st, args[0])[1] in ("PASS", "FAIL"):
                return [(("sym", "KEY:" + a.deref_val(st, args[0])[1]), mon)]
            if p.endswith("HashMap::entry") and len(args) == 2:
                kv = a.resolve(st, args[1])
                if kv[0] == "sym" and kv[1].startswith("KEY:"):
                    events.append((kv[1][4:], mon.get("exp"), mon.get("match")))
            return None
    h = HG(cr, track_records=False)
    a = ai.AI(cr, h, max_states=900000)
    try:
        a.run(GEN, mon=Mon())
        ctx.states += a.n_states
        spec = {("PASS", "Some", "Some"), ("FAIL", "Some", "None")}
        got = set(events)
        ctx.ob(rule, rule + ":generic", got == spec, "result-map insertions (bucket, expectation present, matched): %s; expected %s" % (sorted(got, key=str), sorted(spec, key=str)), fn=f,
               sample={"reporter": "generic", "insertions": sorted(map(str, got))})
    except ai.Undecided as e:
        ctx.ob(rule, rule + ":generic", False, "undecided %s" % e, fn=f)


def grouping(ctx, cr):
    """get_by_rules keeps EVERY RuleCheck record of the file, grouped under its rule name: each top-level child that is a RuleCheck is
    appended (entry(name).or_default().push) to the list of its name, nothing else is, and the map is never written by overwriting
    (IndexMap::insert, or collecting (name, list) pairs, keeps only the last run of a name when definitions of one rule are not
    adjacent — `itertools::group_by` groups consecutive runs only)."""
    rule = "R-C16-grouping"
    f = cr.fns.get(GBR)
    if not f:
        ctx.lost(rule, rule + ":get_by_rules", GBR)
        return
    unit = [k for k in cr.fns if k == GBR or k.startswith(GBR + "::{closure")]
    overwrite = []
    for k in unit:
        body = cr.fns[k]
        for bi, t in M.iter_calls(body):
            p = M.norm_path(t["fn"].get("path", ""))
            decl = M.norm_path(t["fn"].get("decl", ""))
            dty, _ = M.place_ty(cr, None, t["dest"], body) if t.get("dest") is not None else (None, None)
            into_map = dty is not None and (dty.adt_path() or "").endswith("IndexMap")
            if ((decl in ("std::iter::Iterator::collect", "std::iter::FromIterator::from_iter")) and into_map) or (
                    decl == "std::iter::Extend::extend" and t["args"] and "IndexMap" in (cr.ty_str(M.place_ty(cr, None, M.op_place(t["args"][0]), body)[0].idx) if M.op_place(t["args"][0]) is not None else "")):
                overwrite.append("%s (l.%s)" % (p.split("::")[-1] if not into_map else "collect into IndexMap", t.get("ln")))
            if "group_by" in p or "chunk_by" in p or "dedup" in p:
                overwrite.append("%s (l.%s)" % (p.split("::")[-1], t.get("ln")))
    ctx.ob(rule, rule + ":append-only", not overwrite, ("the map of records per rule name is written through %s: a later, non-adjacent definition of a rule replaces the earlier ones instead of joining them" % overwrite) if overwrite
           else "the map is written through entry(..).or_default().push only", fn=f)
    results = []

    class H(ai.Hooks):
        lazy_pipes = True

        def inline(self, a, st, key, fn):
            return fn.get("kind") == "closure" and key.startswith(GBR)

        def call(self, a, st, term, callee, args):
            p = M.norm_path(callee.get("path", ""))
            decl = M.norm_path(callee.get("decl", ""))
            mon = st.mon or Mon()
            if decl == "std::iter::Iterator::next" and term.get("to") is not None:
                it = a.resolve(st, args[0])
                if it[0] == "ref":
                    it = a.resolve(st, a.read_at(st, it[1], it[2]))
                if ai.is_pipe(it):
                    return None
                if mon.get("n"):
                    return [(("enum", ai.OPTION, 0, ()), mon)]
                return [(("enum", ai.OPTION, 1, (("ref", ("X", "CHILD"), ()),)), mon.set(n=1)), (("enum", ai.OPTION, 0, ()), mon)]
            if p.endswith("IndexMap::entry") and len(args) == 2:
                return [(("sym", "ENTRY"), mon.set(key=ai.fmt_val(a.resolve(st, args[1]), cr)))]
            # the look-up-then-insert spelling of the same thing: insert is an append only where the key was just found absent
            if (p.endswith("IndexMap::get_mut") or p.endswith("IndexMap::get")) and len(args) == 2:
                return [(("enum", ai.OPTION, 1, (("ref", ("X", "SLOT"), ()),)), mon.set(present=True, key=ai.fmt_val(a.resolve(st, args[1]), cr))),
                        (("enum", ai.OPTION, 0, ()), mon.set(present=False, key=ai.fmt_val(a.resolve(st, args[1]), cr)))]
            if p.endswith("IndexMap::contains_key") and len(args) == 2:
                return [(("bool", True), mon.set(present=True, key=ai.fmt_val(a.resolve(st, args[1]), cr))), (("bool", False), mon.set(present=False, key=ai.fmt_val(a.resolve(st, args[1]), cr)))]
            if (p.endswith("IndexMap::insert") or p.endswith("IndexMap::insert_full")) and len(args) == 3:
                if mon.get("present") is False:
                    return [(a.sym(st, a.site(st, ":old")), mon.set(pushed=(mon.get("pushed") or 0) + 1, what=ai.fmt_val(a.deep(st, args[2]) if hasattr(a, "deep") else a.resolve(st, args[2]), cr)))]
                return [(a.sym(st, a.site(st, ":old")), mon.set(overwrote=True))]
            if p.endswith("Entry::or_default") or p.endswith("Entry::or_insert") or p.endswith("Entry::or_insert_with"):
                return [(("ref", ("X", "SLOT"), ()), mon)]
            if p == "std::vec::Vec::push" and args:
                tgt = ai.fmt_val(a.resolve(st, args[0]))
                if "SLOT" in tgt:
                    return [(("tuple", ()), mon.set(pushed=(mon.get("pushed") or 0) + 1, what=ai.fmt_val(a.resolve(st, args[1]), cr)))]
            return None

        def constrained(self, a, st, sid, val):
            mon = st.mon or Mon()
            if sid.startswith("CHILD") and val[0] == "enum" and val[1] == "rules::RecordType" and mon.get("rt") is None:
                vs = cr.adts["rules::RecordType"]["variants"]
                st.mon = mon.set(rt=vs[val[2]]["name"])
            elif sid.startswith("CHILD") and val[0] == "enum" and val[1] == ai.OPTION and val[2] == 0 and mon.get("rt") is None:
                st.mon = mon.set(rt="(no container)")

        def ret(self, a, st, v):
            results.append(st.mon or Mon())
    a = ai.AI(cr, H())
    try:
        a.run(GBR, mon=Mon(), ext={"CHILD": ("sym", "CHILD")})
    except ai.Undecided as e:
        ctx.ob(rule, rule + ":every-rule-check-kept", False, "undecided %s" % e, fn=f)
        return
    ctx.states += a.n_states
    bad, n_keep = [], 0
    for mon in results:
        if not mon.get("n"):
            continue
        rt, pushed = mon.get("rt"), mon.get("pushed") or 0
        if mon.get("overwrote"):
            bad.append("an entry of the map is overwritten by insert on a path where the name may already be present")
        if rt == "RuleCheck":
            if pushed != 1:
                bad.append("a RuleCheck child is appended %d times" % pushed)
            elif "CHILD" not in (mon.get("key") or "") or "CHILD" not in (mon.get("what") or ""):
                bad.append("a RuleCheck child is filed under %s with %s, not under its own name with its own record" % (mon.get("key"), mon.get("what")))
            else:
                n_keep += 1
        elif pushed:
            bad.append("a %s child is appended to a rule's records" % rt)
    ctx.ob(rule, rule + ":every-rule-check-kept", not bad and n_keep >= 1 and not overwrite, "; ".join(sorted(set(bad))[:2]) or ("%d paths keep the RuleCheck child under its name; other children are not kept" % n_keep if not overwrite else "not decided: the map is not built by appending"), fn=f,
           sample={"fn": GBR, "paths_keeping": n_keep})


TS = "commands::reporters::test::structured::"


def field_of_receiver(cr, f, operand):
    from rules.c04 import receiver_field
    return receiver_field(cr, f, operand)


def junit_counts(ctx, cr):
    rule = "R-C16-junit-counts"
    # (1) one element of the matching kind per entry of each bucket
    k = TS + "TestCase::build_junit_test_cases"
    f = cr.fns.get(k)
    if not f:
        ctx.lost(rule, rule + ":elements", k)
    else:
        pairs = set()

        class H(ai.Hooks):
            lazy_pipes = True       # `bucket.iter().map(|r| ..)` chains are read as the loops they abbreviate

            def call(self, a, st, term, callee, args):
                p = M.norm_path(callee.get("path", ""))
                decl = M.norm_path(callee.get("decl", ""))
                mon = st.mon or Mon()
                if st.top is not st.frames[0] and st.top.body.get("file") != "<model>":
                    return None
                if st.top is st.frames[0] and term["args"] and (decl == "std::iter::IntoIterator::into_iter" or p.endswith(("]>::iter", "]::iter", "Vec::iter"))):
                    fld = field_of_receiver(cr, f, term["args"][0])
                    if fld is None:
                        return None         # not one of the buckets (e.g. an adaptor chain handed to a `for` loop)
                    return [(("sym", "ITER:%s" % fld), mon)]
                if decl == "std::iter::Iterator::next" and term.get("to") is not None:
                    it = a.resolve(st, args[0])
                    if it[0] == "ref":
                        it = a.resolve(st, a.read_at(st, it[1], it[2]))
                    if ai.is_pipe(it):
                        return None         # an adaptor chain: the engine steps it, and its source comes back here
                    name = it[1] if it[0] == "sym" else "?"
                    key = "n:" + name
                    if mon.get(key):
                        return [(("enum", ai.OPTION, 0, ()), mon.set(cur=None))]
                    return [(("enum", ai.OPTION, 1, (("ref", ("X", "ELEM:" + name), ()),)), mon.set(cur=name, **{key: 1})), (("enum", ai.OPTION, 0, ()), mon.set(cur=None))]
                if p == "std::vec::Vec::push":
                    v = a.resolve(st, args[1])
                    variant = None

                    def find(x, depth=0):
                        nonlocal variant
                        if depth > 4 or not isinstance(x, tuple):
                            return
                        if x and x[0] == "enum" and str(x[1]).endswith("TestCaseStatus"):
                            ad = cr.adts.get(x[1])
                            variant = ad["variants"][x[2]]["name"] if ad else str(x[2])
                            return
                        for y in x:
                            find(y, depth + 1)
                    find(v)
                    pairs.add((mon.get("cur"), variant))
                    return [(("tuple", ()), mon)]
                return None
        a = ai.AI(cr, H())
        try:
            a.run(k, mon=Mon())
            ctx.states += a.n_states
            want = {("ITER:passed_rules", "Pass"), ("ITER:failed_rules", "Fail")}
            allowed = want | {("ITER:skipped_rules", "Skip"), ("ITER:skipped_rules", "Skipped")}
            ctx.ob(rule, rule + ":elements", want <= pairs and pairs <= allowed, "pushes %s, expected one Pass per passed_rules entry and one Fail per failed_rules entry (skipped rules, if rendered, from skipped_rules)" % sorted(map(str, pairs)), fn=f,
                   sample={"pushes": sorted(map(str, pairs))})
        except ai.Undecided as e:
            ctx.ob(rule, rule + ":elements", False, "undecided %s" % e, fn=f)
    # (2) the failures attribute is the sum of failed_rules.len()
    k = TS + "TestResult::build_test_suite"
    f = cr.fns.get(k)
    if not f:
        ctx.lost(rule, rule + ":failures-attribute", k)
        return
    news = [t for bi, t in M.iter_calls(f) if M.norm_path(t["fn"].get("path", "")).endswith("reporters::TestSuite::new") and M.op_place(t["args"][4]) is not None]
    if len(news) != 1:
        ctx.lost(rule, rule + ":failures-attribute", "TestSuite::new with a computed failures argument: %d sites" % len(news))
        return
    fl = M.place_local(M.op_place(news[0]["args"][4]))
    calls, consts, locs = flow.backward_slice(f, fl)
    evidence = [(M.norm_path(c["fn"].get("path", "")), None) for c in calls]
    # closures that capture the counter by &mut: what they add to it
    for bi, si, st in M.iter_stmts(f):
        rv = st.get("rv")
        if not (rv and rv["r"] == "agg" and rv.get("ak") == "closure"):
            continue
        body = cr.fns.get(rv["key"])
        if not body:
            continue
        for i, o in enumerate(rv["ops"]):
            pl = M.op_place(o)
            if pl is None:
                continue
            c2, _, l2 = flow.backward_slice(f, M.place_local(pl))
            if not (set(locs) & set(l2)):
                continue
            evidence += upvar_update_calls(cr, body, i)
    # one level into local callees
    more = []
    for path, fld in evidence:
        cal = cr.fns.get(path)
        if cal and fld is None:
            cc, _, _ = flow.backward_slice(cal, 0)
            more += [(M.norm_path(c["fn"].get("path", "")), field_of_receiver(cr, cal, c["args"][0]) if c["args"] else None) for c in cc]
    evidence += more
    lens = [e for e in evidence if e[0].endswith("Vec::len") and e[1] == "failed_rules"]
    counts = sorted(set(e[0] for e in evidence if e[0].split("::")[-1] in ("count", "filter", "any", "is_empty", "has_failures")))
    ok = bool(lens) and not counts
    ctx.ob(rule, rule + ":failures-attribute", ok, "failures is accumulated from failed_rules.len() of every test case" if ok else
           "the JUnit failures attribute is computed through %s and %s failed_rules.len(): it no longer equals the number of <failure> elements" % (counts or "-", "with" if lens else "without"),
           fn=f, line=news[0].get("ln", 0), sample={"evidence": sorted(set("%s(%s)" % (e[0].split("::")[-1], e[1]) for e in evidence))})


def upvar_update_calls(cr, body, idx):
    """calls on the slices of the values a closure writes through its idx-th captured reference"""
    ptrs = set()
    for bi, si, st in M.iter_stmts(body):
        rv = st.get("rv")
        if rv and isinstance(st["p"], int) and rv["r"] in ("use", "ref"):
            src = M.op_place(rv["o"]) if rv["r"] == "use" else rv["p"]
            if src is not None and not isinstance(src, int) and M.place_local(src) == 1:
                fs = [pr for pr in M.place_projs(src) if isinstance(pr, list) and pr[0] == "f"]
                if fs and fs[0][1] == idx:
                    ptrs.add(st["p"])
    out = []
    for bi, si, st in M.iter_stmts(body):
        rv = st.get("rv")
        if not rv or isinstance(st["p"], int):
            continue
        base = M.place_local(st["p"])
        direct = base == 1 and any(isinstance(pr, list) and pr[0] == "f" and pr[1] == idx for pr in M.place_projs(st["p"]))
        if base in ptrs or direct:
            for key in ("o", "a", "b"):
                if key in rv:
                    pl = M.op_place(rv[key])
                    if pl is not None:
                        cc, _, _ = flow.backward_slice(body, M.place_local(pl))
                        out += [(M.norm_path(c["fn"].get("path", "")), field_of_receiver(cr, body, c["args"][0]) if c["args"] else None) for c in cc]
    return [(p, fld if p.endswith("Vec::len") else None) for p, fld in out]


def directory_naming(ctx, cr):
    """`test --dir` parses each rules file under a name (the parser span's `extra`) that becomes part of the default rule's name
    (`<name>/default`), which expectations refer to.  The plain and the structured directory handlers must name a file the same way —
    both hand the same field of the directory entry to Span::new_extra — or an expectation met in one rendering is "not set" in the other."""
    from rules.c04 import receiver_field
    rule = "R-C16-same-core"
    got = {}
    for k in ("commands::test::handle_plaintext_directory", "commands::test::handle_structured_directory_report"):
        f = cr.fns.get(k)
        if not f:
            ctx.lost(rule, rule + ":directory-naming", k)
            return
        names = set()
        unit = [kk for kk in flow.unit_functions(cr, k, ("commands::test",), depth=2) if kk in cr.fns]
        for kk in unit:
            fx = cr.fns[kk]
            for bi, t in M.iter_calls(fx):
                if M.norm_path(t["fn"].get("path", "")).endswith("LocatedSpan::new_extra") and len(t["args"]) == 2:
                    names.add(receiver_field(cr, fx, t["args"][1]) or "(computed)")
        got[k.split("::")[-1]] = sorted(names)
    vals = list(got.values())
    ok = all(v and v == vals[0] and v != ["(computed)"] for v in vals)
    ctx.ob(rule, rule + ":directory-naming", ok, "rules files are parsed under the name %s" % got + ("" if ok else ": the default rule is called differently in the plain and the structured report, so the same expectation is met in one and unset in the other"),
           fn=cr.fns.get("commands::test::handle_structured_directory_report"))


def run(ctx):
    cr = ctx.lib
    directory_naming(ctx, cr)
    same_core(ctx, cr)
    status_match(ctx, cr)
    buckets(ctx, cr)
    grouping(ctx, cr)
    junit_counts(ctx, cr)
    ctx.assumptions += [
        "JSON / YAML / JUnit renderings are produced from the same TestResult value by serde / quick-xml (dependencies)",
        "the SKIP expectation is decided up to the abstraction: equality of the skip counter with the number of definitions is not modelled",
    ]

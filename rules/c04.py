"""C04 — verdicts do not depend on the order or repetition of clauses and rules (structural clauses; DESIGN §5 C04).

Equivalence under permutation for arbitrary programs is behavioural and NOT claimed.  Decided necessary conditions:
  R-C04-symmetric-folds   every aggregation site satisfies a specification that is a function of the SET of child outcomes (the C02
                          monitors, re-decided here); the loop over the rules of a file is walked to exhaustion on every Ok return,
                          so no rule is left unevaluated because of where it stands
  R-C04-lookup-before-eval  the rule lookup table is built from ALL definitions before anything is evaluated (every rule is appended
                          under its name, none overwritten; no evaluation reachable from root_scope), so definition order cannot
                          matter for lookup
  R-C04-memo-discipline   every write to the per-scope memos (variable results, rule statuses) stores, under the key that was
                          asked for, exactly the value that is returned, after its computation completed; accumulating writes
                          (non-idempotent) are findings; an accumulating write's membership test compares the elements' paths
                          besides their values (it is neither repeated nor merged with a different element)
"""
import os
from engine import ai, cg, mirlib as M
from engine import statusmon as S
from engine.statusmon import Mon
from rules import c02, c15

LEVEL = "other"
EVAL = "rules::eval::"
EC = "rules::eval_context::"


def symmetric_folds(ctx, cr):
    rule = "R-C04-symmetric-folds"
    sub = type(ctx).__new__(type(ctx))
    sub.__dict__.update(ctx.__dict__)
    sub.obs = []
    c02.eval_rules_file(sub, cr)
    c02.guard_site(sub, cr, "eval_type_block_clause", fold_children=True)
    c02.guard_block(sub, cr)
    c02.conjunction(sub, cr)
    ctx.states, ctx.transitions = sub.states, sub.transitions
    for o in sub.obs:
        if o.rule == "R-C02-combinators":
            ctx.ob(rule, o.key.replace("R-C02-combinators", rule + ":set-function"), o.ok, "status is a function of the set of child outcomes: " + o.detail, file=o.file, line=o.line,
                   sample={"site": o.key.split(":")[1], "spec": "function of the set of child outcomes"} if "eval_rules_file" in o.key else None)
    # exhaustion: a fold that evaluated a child and returns Ok must have walked its whole sibling loop
    # (only the loop over RULES: there an early exit leaves later rules unevaluated, so their reported status depends on the order.
    #  Loops over data values or over conjuncts may legitimately stop at a dominating FAIL without changing any status.)
    for fname, child in (("eval_rules_file", "eval_rule"),):
        key = EVAL + fname
        f = cr.fns.get(key)
        if not f:
            ctx.lost(rule, "%s:exhaustive:%s" % (rule, fname), key)
            continue
        bad = []
        n = [0]

        class H(S.StatusHooks):
            def role_of(self, a, st, term, callee):
                if c02.callee_is(callee, child):
                    return "child"
                if c02.callee_is(callee, "eval_conjunction_clauses"):
                    return "cond"
                return "other"

            def extra_call(self, a, st, term, callee, args):
                decl = M.norm_path(callee.get("decl", ""))
                if decl == "std::iter::Iterator::next" and term.get("to") is not None:
                    ty, _ = M.place_ty(cr, None, term["dest"], st.top.body)
                    mon = st.mon if st.mon is not None else Mon()
                    site = a.site(st, "")
                    op = mon.get("open", frozenset())
                    return [(("enum", ai.OPTION, 1, (a.sym(st, a.site(st, ":item")),)), mon.set(open=op | {site}, loops=mon.get("loops", 0) or 1)),
                            (("enum", ai.OPTION, 0, ()), mon.set(open=op - {site}, loops=mon.get("loops", 0) or 1))]
                return None
        h = H(cr, track_records=False)
        a = ai.AI(cr, h, max_states=600000)
        try:
            a.run(key, mon=Mon())
        except ai.Undecided as e:
            ctx.ob(rule, "%s:exhaustive:%s" % (rule, fname), False, "undecided %s" % e, fn=f)
            continue
        ctx.states += a.n_states
        for v, mon, tr in h.results:
            kind, s = S.ret_status(v)
            ch = mon.get("child", frozenset())
            if kind == "ok" and ch and "Err" not in ch:
                n[0] += 1
                if mon.get("open"):
                    bad.append("returns %s after children %s while the sibling loop at %s still had elements [%s]" % (s, sorted(ch), sorted(mon.get("open")), S.trace_str(tr, 6)))
        ctx.ob(rule, "%s:exhaustive:%s" % (rule, fname), not bad and n[0] >= 3, "; ".join(sorted(set(bad))[:2]) or "%d Ok paths, all after the sibling loop was exhausted" % n[0], fn=f)


def lookup_before_eval(ctx, cr):
    rule = "R-C04-lookup-before-eval"
    key = EC + "root_scope"
    f = cr.fns.get(key)
    if not f:
        ctx.lost(rule, rule + ":root_scope", key)
        return
    g = cg.CallGraph(cr)
    reach = g.reachable([key], rta=False)
    evals = sorted(k for k in reach if k.startswith(EVAL + "eval_"))
    ctx.ob(rule, rule + ":no-evaluation-while-building", not evals, "root_scope reaches evaluation code: %s" % evals[:3] if evals else "no eval_* function is reachable from root_scope", fn=f)
    # every rule is appended under its name (entry + push), never inserted over an earlier definition
    events = []

    class H(ai.Hooks):
        def call(self, a, st, term, callee, args):
            p = M.norm_path(callee.get("path", ""))
            decl = M.norm_path(callee.get("decl", ""))
            mon = st.mon or Mon()
            if decl == "std::iter::Iterator::next" and term.get("to") is not None:
                ty, _ = M.place_ty(cr, None, term["dest"], st.top.body)
                item = ty.args()[0].strip_refs().adt_path() if ty is not None and ty.args() else None
                if mon.get("it:%s" % item, 0) >= 1:
                    return [(("enum", ai.OPTION, 0, ()), mon.set(cur=None))]
                return [(("enum", ai.OPTION, 1, (("ref", ("X", "ITEM:%s" % item), ()),)), mon.set(cur=item, **{"it:%s" % item: 1})), (("enum", ai.OPTION, 0, ()), mon.set(cur=None))]
            if p.endswith("HashMap::entry"):
                events.append((mon.get("cur"), "entry"))
                return [(("sym", "ENTRY"), mon)]
            if p.endswith("Entry::or_insert") or p.endswith("Entry::or_default") or p.endswith("Entry::or_insert_with"):
                return [(("ref", ("X", "SLOT"), ()), mon)]
            if p == "std::vec::Vec::push":
                events.append((mon.get("cur"), "push:" + ai.fmt_val(a.resolve(st, args[1]))[:40]))
                return [(("tuple", ()), mon)]
            if p.endswith("HashMap::insert"):
                events.append((mon.get("cur"), "insert"))
                return [(("sym", "OLD"), mon)]
            return None
    a = ai.AI(cr, H())
    a.run(key, mon=Mon())
    ctx.states += a.n_states
    rule_ev = [e for c, e in events if c == "rules::exprs::Rule"]
    ok = "entry" in rule_ev and any(e.startswith("push:") and "ITEM:rules::exprs::Rule" in e for e in rule_ev) and "insert" not in rule_ev
    ctx.ob(rule, rule + ":all-definitions-kept", ok, "per rule the lookup table sees %s; expected entry(name) + push(rule) so that every definition of a name is kept" % sorted(set(rule_ev)), fn=f,
           sample={"per_rule_events": sorted(set(rule_ev))})


def memo_discipline(ctx, cr):
    rule = "R-C04-memo-discipline"
    # (1) variable memo: decided by the C15 scope-chain monitor (memoised value == returned value, right key, after completion)
    sub = type(ctx).__new__(type(ctx))
    sub.__dict__.update(ctx.__dict__)
    sub.obs = []
    c15.scope_chain(sub, cr)
    c02.rule_status(sub, cr)
    ctx.states, ctx.transitions = sub.states, sub.transitions
    for o in sub.obs:
        ctx.ob(rule, o.key.replace("R-C15-scope-chain", rule + ":variables").replace("R-C02-combinators", rule + ":rule-status"), o.ok, o.detail, file=o.file, line=o.line,
               sample={"memo": o.key} if "RootScope" in o.key else None)
    # (2) who may write the memos: enumerate every write to Scope.resolved_variables / RootScope.rules_status
    writers = {}
    for k, f in cr.fns.items():
        for bi, t in M.iter_calls(f):
            p = M.norm_path(t["fn"].get("path", ""))
            if not (p.startswith("std::collections::HashMap::") and p.split("::")[-1] in ("insert", "entry", "get_mut", "remove", "clear", "extend")):
                continue
            fld = receiver_field(cr, f, t["args"][0]) if t["args"] else None
            if fld in ("resolved_variables", "rules_status"):
                writers.setdefault((k, fld, p.split("::")[-1]), 0)
                writers[(k, fld, p.split("::")[-1])] += 1
    ctx.note_analysed("memo_writes", ["%s.%s via %s x%d" % (k.split("::")[-2] + "::" + k.split("::")[-1], fld, op, n) for (k, fld, op), n in sorted(writers.items())])
    allowed = {
        ("<rules::eval_context::RootScope as rules::EvalContext>::resolve_variable", "resolved_variables", "insert"),
        ("<rules::eval_context::BlockScope as rules::EvalContext>::resolve_variable", "resolved_variables", "insert"),
        ("<rules::eval_context::RootScope as rules::EvalContext>::rule_status", "rules_status", "insert"),
    }
    kinds = set((fld, op) for (k, fld, op) in writers)
    if len(kinds) < 3:
        ctx.lost(rule, rule + ":writers-floor", "only %d kinds of memo writes found (floor 3: variable insert, rule-status insert, capture-key entry)" % len(kinds))

    def helper_of_allowed(w):
        """a private helper that does the plain insert for the allowed writers and for nobody else"""
        k, fld, op = w
        fn = cr.fns.get(k)
        if fn is None or not ai.is_private_fn(fn):
            return False
        callers = set(kk.split("::{closure")[0] for kk, f2 in cr.fns.items() if not f2.get("file", "").endswith("_tests.rs") and any(t["fn"].get("key") == k for bi, t in M.iter_calls(f2)))
        return bool(callers) and all((c, fld, op) in allowed for c in callers)
    for w in sorted(writers):
        k, fld, op = w
        key = "%s:write:%s:%s:%s" % (rule, k, fld, op)
        if w in allowed or helper_of_allowed(w):
            ctx.ob(rule, key, True, "plain insert of the completed result under the requested name (decided above)", fn=cr.fns[k])
        else:
            why = idempotent_accumulate(ctx, cr, k)
            ctx.ob(rule, key, why is None, why or "accumulating write is idempotent: the element is pushed only on the path where a reflexive membership test over the same slot found no equal element", fn=cr.fns[k],
                   sample={"writer": k, "idiom": "entry().or_default(); if !slot.iter().any(eq) { push }"} if why is None else None)


def idempotent_accumulate(ctx, cr, k):
    """An accumulating memo write (entry + push) is order/repetition-safe only if repeating it with the same element is a no-op:
    every push must be on a path where `slot.iter().any(<equality with the new element>)` over the SAME slot returned false."""
    f = cr.fns[k]
    pushes = []
    preds = set()
    loop_types = set()
    early = []

    class H(ai.Hooks):
        def call(self, a, st, term, callee, args):
            p = M.norm_path(callee.get("path", ""))
            decl = M.norm_path(callee.get("decl", ""))
            mon = st.mon or Mon()
            if p.endswith("HashMap::entry"):
                return [(("sym", "ENTRY"), mon)]
            if p.endswith("Entry::or_default") or p.endswith("Entry::or_insert") or p.endswith("Entry::or_insert_with"):
                return [(("ref", ("X", "SLOT"), ()), mon)]
            if p == "core::slice::<impl [T]>::iter" or p.endswith("Vec::iter"):
                v = a.resolve(st, args[0])
                return [(("rec", ("sym", "ITER"), (v,)), mon)]
            if decl == "std::iter::Iterator::any":
                it = a.resolve(st, args[0])
                if it[0] == "ref":
                    it = a.resolve(st, a.read_at(st, it[1], it[2]))
                over_slot = "SLOT" in ai.fmt_val(it)
                clo = a.resolve(st, args[1])
                pred = closure_is_equality(cr, clo, st, a)
                if over_slot and pred and clo[0] == "closure":
                    preds.add(clo[1])
                sid = "SEEN" if (over_slot and pred) else a.site(st, ":any")
                return [(("sym", sid), mon)]
            if decl == "std::iter::IntoIterator::into_iter" and len(args) == 1 and "SLOT" in ai.fmt_val(a.resolve(st, args[0])):
                return [(a.resolve(st, args[0]), mon)]      # `for each in slot.iter()`: an iterator is its own IntoIterator
            # the same test written as a loop with an early return: `for each in slot.iter() { if each == new { return } } slot.push(new)`
            if decl == "std::iter::Iterator::next" and term.get("to") is not None and st.top is st.frames[0]:
                it = a.resolve(st, args[0])
                if it[0] == "ref":
                    it = a.resolve(st, a.read_at(st, it[1], it[2]))
                if "SLOT" in ai.fmt_val(it):
                    if mon.get("elem"):
                        return [(("enum", ai.OPTION, 0, ()), mon.set(done=True))]
                    return [(("enum", ai.OPTION, 1, (("ref", ("X", "ELEM"), ()),)), mon.set(elem=True)), (("enum", ai.OPTION, 0, ()), mon.set(done=True))]
            if decl == "std::cmp::PartialEq::eq" and st.top is st.frames[0] and mon.get("elem") and len(args) == 2:
                def mentions(v, n=0):
                    v = a.resolve(st, v)
                    if "ELEM" in ai.fmt_val(v):
                        return True
                    if v[0] == "ref" and n < 4:
                        try:
                            return mentions(a.read_at(st, v[1], v[2]), n + 1)
                        except Exception:
                            return False
                    return False
                if not mon.get("done"):     # every comparison made while an element of the slot is being looked at is part of the test
                    ga = callee.get("ga", [])
                    ty = M.Ty(cr, ga[0]).strip_refs() if ga else None
                    loop_types.add(str((ty.adt_path() or ty.kind) if ty is not None else "?"))
                    return [(("bool", True), mon.set(eqs=mon.get("eqs", ()) + (True,))), (("bool", False), mon.set(eqs=mon.get("eqs", ()) + (False,)))]
            if p == "std::vec::Vec::push":
                tgt = ai.fmt_val(a.resolve(st, args[0]))
                if "SLOT" in tgt:
                    pushes.append((st.cons.get("SEEN"), st.trace, mon.get("elem"), mon.get("eqs", ()), mon.get("done")))
                return [(("tuple", ()), mon)]
            return None

        def ret(self, a, st, v):
            mon = st.mon or Mon()
            if mon.get("elem") and mon.get("eqs") and all(mon.get("eqs")):
                early.append(mon.get("eqs"))
    a = ai.AI(cr, H())
    a.pinned = ("SEEN",)
    try:
        a.run(k, mon=Mon())
    except ai.Undecided as e:
        return "undecided: %s" % e
    ctx.states += a.n_states
    if not pushes:
        return "no push into the memo slot found in %s (anchor lost)" % k
    loop_form = bool(early) and not preds
    for seen, tr, elem, eqs, done in pushes:
        if loop_form:
            # pushed only after the scan of the slot ended, and never past an element that compared equal in every respect
            if not done or (elem and eqs and all(eqs)):
                return "pushes into the memo slot %s [%s]: a repeated clause accumulates duplicates" % (
                    "before the scan of the slot has ended" if not done else "although an element of the slot compared equal", S.trace_str(tr, 5))
            continue
        if seen != ("bool", False):
            return "pushes into the memo slot on a path where no membership test excluded an equal element (seen=%s) [%s]: a repeated clause accumulates duplicates" % (seen, S.trace_str(tr, 5))
    if loop_form and not any(str(c).endswith("path_value::Path") or str(c) in ("std::string::String", "str") for c in loop_types):
        return "the membership test compares %s but not the elements' paths: keys at different paths with equal values are merged into one capture" % sorted(loop_types)
    # ... and the test must not be coarser than identity either: two captured keys are the same element only if they sit at the same path.
    # The predicate has to compare the elements' paths (whole Path values, or their text) besides their values; comparing a component
    # such as the location alone merges different keys whenever locations coincide (documents built from serde values are all at 0:0).
    for ck in sorted(preds):
        body = cr.fns.get(ck)
        compared = []
        for _, t in M.iter_calls(body):
            if M.norm_path(t["fn"].get("decl", "")) == "std::cmp::PartialEq::eq":
                ga = t["fn"].get("ga", [])
                ty = M.Ty(cr, ga[0]).strip_refs() if ga else None
                compared.append((ty.adt_path() or ty.kind) if ty is not None else "?")
        if not any(str(c).endswith("path_value::Path") or str(c) in ("std::string::String", "str") for c in compared):
            return "the membership test compares %s but not the elements' paths: keys at different paths with equal values are merged into one capture" % sorted(set(map(str, compared)))
    return None


def closure_is_equality(cr, clo, st, a):
    """the `any` predicate compares the iterated element with captured state through PartialEq::eq only (reflexive on a repeat)"""
    if clo[0] == "ref":
        clo = a.load(st, clo) if hasattr(a, "load") else clo
    if clo[0] != "closure":
        return False
    body = cr.fns.get(clo[1])
    if not body:
        return False
    eqs = [t for _, t in M.iter_calls(body) if M.norm_path(t["fn"].get("decl", "")) == "std::cmp::PartialEq::eq"]
    others = [t for _, t in M.iter_calls(body) if M.norm_path(t["fn"].get("decl", "")) in ("std::cmp::PartialEq::ne", "std::cmp::PartialOrd::lt", "std::cmp::PartialOrd::gt")]
    return bool(eqs) and not others


def receiver_field(cr, f, operand):
    from rules.c08 import def_of_local
    pl = M.op_place(operand)
    for _ in range(10):
        if pl is None:
            return None
        if not isinstance(pl, int):
            names = [pr[2] for pr in M.place_projs(pl) if isinstance(pr, list) and pr[0] == "f" and pr[2]]
            if not names and all(pr == "*" or pr == ["*"] for pr in M.place_projs(pl)):
                pl = M.place_local(pl)      # a plain reborrow `&*_5`
                continue
            return names[-1] if names else None
        d = def_of_local(f, pl)
        if d and d[0] == "call" and d[2]["args"] and M.norm_path(d[2]["fn"].get("decl", "")) in (
                "std::ops::Deref::deref", "std::ops::DerefMut::deref_mut", "std::convert::AsRef::as_ref", "std::borrow::Borrow::borrow"):
            pl = M.op_place(d[2]["args"][0])        # `self.field.iter()`: the slice comes from <Vec as Deref>::deref(&self.field)
            continue
        if not d or d[0] != "stmt":
            return None
        rv = d[2]["rv"]
        if rv["r"] == "ref":
            pl = rv["p"]
        elif rv["r"] == "use":
            pl = M.op_place(rv["o"])
        else:
            return None
    return None


def run(ctx):
    cr = ctx.lib
    symmetric_folds(ctx, cr)
    lookup_before_eval(ctx, cr)
    memo_discipline(ctx, cr)
    ctx.assumptions += [
        "rule names are distinct (the property's quantifier): rule_status stopping at the first non-SKIP definition of one name cannot observe an order",
        "independence from the order in which evaluation errors arise is not claimed",
    ]

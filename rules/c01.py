"""C01 — rule verdicts equal the documented semantics (structural clauses only; DESIGN §5 C01).

The property as a whole needs an independent interpreter over programs x documents and is NOT claimed.
Decided statically are the finite control tables the documented semantics rests on:
  R-C01-unary-tables          exists / empty / is_* : QueryResult x value-kind -> result (unresolved counts as
                              `empty` / `not exists` / not of any type; `empty` errors exactly on kinds without emptiness)
  R-C01-unresolved-is-fail    binary_operation / real_binary_operation: every unresolved or not-comparable element yields
                              exactly FAIL (never dropped, never PASS); Success -> PASS, Fail -> FAIL; `selected` hands every
                              element to exactly one of its two callbacks
  R-C01-empty-selection-skips an empty selection makes the dependent clause SKIP (unary: every unary operator x operator negation x
                              prefix negation; binary; CmpOperator::compare)
  R-C01-errors-propagate      no evaluator function turns a callee's error into a value (each Result-returning call forked Ok/Err)
  R-C01-clause-aggregation    all/some aggregation of per-value statuses into the clause status
"""
from engine import ai, mirlib as M
from engine import statusmon as S
from engine.statusmon import Mon
from rules import c02

LEVEL = "other"
EVAL = "rules::eval::"
QR = "rules::QueryResult"
PAV = "rules::path_value::PathAwareValue"
ERR = "rules::errors::Error"
OPS = "rules::eval::operators::"


def vnames(cr, adt):
    return [v["name"] for v in cr.adts[adt]["variants"]]


def unary_tables(ctx, cr):
    rule = "R-C01-unary-tables"
    qn = vnames(cr, QR)
    pn = vnames(cr, PAV)
    fns = {"exists_operation": "exists", "element_empty_operation": "empty"}
    is_map = {"is_string_operation": "String", "is_list_operation": "List", "is_struct_operation": "Map", "is_int_operation": "Int",
              "is_float_operation": "Float", "is_bool_operation": "Bool", "is_null_operation": "Null"}
    for n in is_map:
        fns[n] = "is"
    EMPTYABLE = {"List", "Map", "String"}
    for name, kind in fns.items():
        key = EVAL + name
        if key not in cr.fns:
            ctx.lost(rule, "%s:%s" % (rule, name), key)
            continue
        rows = {}

        class H(ai.Hooks):
            def call(self, a, st, term, callee, args):
                p = M.norm_path(callee.get("path", ""))
                if p.endswith("::is_empty") and term.get("to") is not None:
                    return [(("sym", "IS_EMPTY"), (st.mon or ()) + ("is_empty:" + p.split("::")[-2],))]
                return None

            def constrained(self, a, st, sid, val):
                pass

            def ret(self, a, st, v):
                q = st.cons.get("arg1*")
                qv = qn[q[2]] if q and q[0] == "enum" else None
                pv = None
                if q and q[0] == "enum" and q[3]:
                    # payload Rc<PathAwareValue>: the pointee refinement
                    for sid, val in st.cons.items():
                        if val[0] == "enum" and val[1] == PAV and sid.startswith("arg1*@%d.0" % q[2]):
                            pv = pn[val[2]]
                rows.setdefault((qv, pv), set()).add((v, st.mon or ()))
        a = ai.AI(cr, H())
        a.pinned = ("arg1*",) + tuple("arg1*@%d.0*" % i for i in range(3)) + tuple("arg1*@%d.0" % i for i in range(3))
        a.run(key)
        ctx.states += a.n_states
        ctx.note_analysed("functions", key)
        f = cr.fns[key]
        T = ("enum", ai.RESULT, 0, (("bool", True),))
        F = ("enum", ai.RESULT, 0, (("bool", False),))

        def collect(qv, pv):
            out = set()
            for (q2, p2), vs in rows.items():
                if (q2 is None or q2 == qv) and (p2 is None or p2 == pv or pv is None):
                    out |= vs
            return out
        # UnResolved row
        got = set(v for v, m in collect("UnResolved", None))
        exp = {"exists": F, "empty": T, "is": F}[kind]
        ctx.ob(rule, "%s:%s:UnResolved" % (rule, name), got == {exp}, "unresolved value must give %s, got %s" % (ai.fmt_val(exp), sorted(ai.fmt_val(x) for x in got)), fn=f,
               sample={"fn": name, "value": "UnResolved", "result": sorted(ai.fmt_val(x) for x in got)})
        for qv in ("Resolved", "Literal"):
            if kind == "exists":
                got = set(v for v, m in collect(qv, None))
                ctx.ob(rule, "%s:%s:%s" % (rule, name, qv), got == {T}, "got %s" % sorted(ai.fmt_val(x) for x in got), fn=f)
                continue
            for pv in pn:
                outs = collect(qv, pv)
                got = set(v for v, m in outs)
                k2 = "%s:%s:%s:%s" % (rule, name, qv, pv)
                if kind == "is":
                    exp = T if pv == is_map[name] else F
                    ctx.ob(rule, k2, got == {exp}, "expected %s got %s" % (ai.fmt_val(exp), sorted(ai.fmt_val(x) for x in got)), fn=f)
                else:
                    if pv in EMPTYABLE:
                        ok = bool(outs) and all(v == ("enum", ai.RESULT, 0, (("sym", "IS_EMPTY"),)) and len(m) == 1 for v, m in outs)
                        ctx.ob(rule, k2, ok, "emptiness of a %s must be decided by its own is_empty(): %s" % (pv, sorted((ai.fmt_val(v), m) for v, m in outs)[:3]), fn=f,
                               sample={"fn": name, "value": pv, "via": sorted(m for v, m in outs)[:1]} if pv == "List" else None)
                    elif pv == "Bool":
                        ctx.ob(rule, k2, bool(outs), "row left open by the documentation (bool): any defined result accepted", fn=f)
                    else:
                        ok = bool(got) and all(v[0] == "enum" and v[1] == ai.RESULT and v[2] == 1 for v in got)
                        ctx.ob(rule, k2, ok, "`empty` on a %s is undefined and must raise an error, got %s" % (pv, sorted(ai.fmt_val(x, cr)[:60] for x in got)), fn=f,
                               sample={"fn": name, "value": pv, "result": "Err"} if pv == "Int" else None)


VER = OPS + "ValueEvalResult"
CRES = OPS + "ComparisonResult"
CMP = OPS + "Compare"


def binary_status(ctx, cr):
    rule = "R-C01-unresolved-is-fail"
    key = EVAL + "binary_operation"
    if key not in cr.fns or VER not in cr.adts:
        ctx.lost(rule, rule + ":binary_operation", key)
        return
    vern, crn, cmpn = vnames(cr, VER), vnames(cr, CRES), vnames(cr, CMP)
    f = cr.fns[key]
    pushes = []     # (classification, status, kind)
    problems = []

    def classify(mon):
        e = mon.get("e_ver")
        if e is None:
            return None
        if e == "LhsUnresolved":
            return ("LhsUnresolved", None)
        c = mon.get("e_cr")
        if c in ("Success", "Fail"):
            return (c, mon.get("e_cmp"))
        return (c, None)

    class H(S.StatusHooks):
        def role_of(self, a, st, term, callee):
            return "child"

        def extra_call(self, a, st, term, callee, args):
            decl = M.norm_path(callee.get("decl", ""))
            p = M.norm_path(callee.get("path", ""))
            mon = st.mon
            if decl == "std::iter::Iterator::next" and term.get("to") is not None:
                ty, _ = M.place_ty(self.cr, None, term["dest"], st.top.body)
                item = ty.args()[0] if ty is not None and ty.args() else None
                if item is not None and item.adt_path() == VER:
                    cl = classify(mon)
                    # (an element handled by a loop over a collection of its own values contributes one status per value; a collection that
                    #  turned out empty on this path contributes none — that is the QueryIn case, or any arm written as such a loop)
                    if cl is not None and cl[1] != "QueryIn" and not mon.get("e_pushed") and not mon.get("e_inner_empty"):
                        problems.append("element %s produced no status" % (cl,))
                    return [(("enum", ai.OPTION, 1, (a.sym(st, "ELEM"),)), mon.set(e_ver=None, e_cr=None, e_cmp=None, e_pushed=False, e_inner_empty=False)),
                            (("enum", ai.OPTION, 0, ()), mon.set(e_ver=None, e_cr=None, e_cmp=None, e_pushed=False, e_inner_empty=False, loop_done=True))]
                if st.top is st.frames[0] and mon.get("e_ver") is not None:
                    site = a.site(st)
                    first = not mon.get("inner:" + site)
                    return [(("enum", ai.OPTION, 1, (a.sym(st, site + ":value"),)), mon.set(**{"inner:" + site: True})),
                            (("enum", ai.OPTION, 0, ()), mon.set(e_inner_empty=bool(mon.get("e_inner_empty")) or first, **{"inner:" + site: False}))]
                return None
            if p == "std::vec::Vec::push" and len(args) == 2:
                v = a.deep(st, args[1])
                if v[0] == "tuple" and len(v[1]) == 2 and S.status_of(v[1][1]) is not None:
                    pushes.append((classify(mon), S.NAMES[S.status_of(v[1][1])], "push"))
                    return [(("tuple", ()), mon.set(e_pushed=True))]
            if decl.endswith("RecordTracer::end_record") and len(args) >= 3:
                stt = S.find_status(a, st, args[2])
                pushes.append((classify(mon), stt, "record"))
            if decl.endswith("operators::Comparator::compare") and term.get("to") is not None:
                ER = OPS + "EvalResult"
                ern = vnames(self.cr, ER)
                return [(("enum", ai.RESULT, 0, (("enum", ER, ern.index("Skip"), ()),)), mon.set(cmp="Skip")),
                        (("enum", ai.RESULT, 0, (("enum", ER, ern.index("Result"), (("sym", "RESULTS"),)),)), mon.set(cmp="Result")),
                        (("enum", ai.RESULT, 1, (("sym", "CMP_ERR"),)), mon.set(cmp="Err"))]
            return None

        def watch(self, a, st, sid, val):
            if val[0] != "enum":
                return None
            if sid == "ELEM" and val[1] == VER:
                return st.mon.set(e_ver=vern[val[2]])
            if val[1] == CRES and sid.startswith("ELEM@"):
                return st.mon.set(e_cr=crn[val[2]])
            if val[1] == CMP and sid.startswith("ELEM@"):
                return st.mon.set(e_cmp=cmpn[val[2]])
            return None

    h = H(cr)
    a = ai.AI(cr, h, max_states=900000)
    a.pinned = ("ELEM",)
    try:
        a.run(key, mon=Mon())
    except ai.Undecided as e:
        ctx.ob(rule, rule + ":binary_operation", False, "undecided %s" % e, fn=f)
        return
    ctx.states += a.n_states
    ctx.note_analysed("functions", key)
    spec = {("LhsUnresolved", None): "FAIL", ("RhsUnresolved", None): "FAIL", ("NotComparable", None): "FAIL"}
    for c in cmpn:
        spec[("Success", c)] = "PASS"
        spec[("Fail", c)] = "FAIL"
    for cl, exp in sorted(spec.items(), key=str):
        got_p = set(s for c, s, k in pushes if c == cl and k == "push")
        got_r = set(s for c, s, k in pushes if c == cl and k == "record")
        ok = got_p == {exp} and got_r == {exp}
        ctx.ob(rule, "%s:binary_operation:%s:%s" % (rule, cl[0], cl[1]), ok,
               "a %s%s element must contribute exactly %s (pushed %s, recorded %s)" % (cl[0], "(%s)" % cl[1] if cl[1] else "", exp, sorted(got_p), sorted(got_r)), fn=f,
               sample={"element": list(cl), "status": sorted(got_p)} if cl[0] in ("LhsUnresolved", "NotComparable") else None)
    ctx.ob(rule, rule + ":binary_operation:none-dropped", not problems, "; ".join(sorted(set(problems))[:3]) or "every non-list element pushes a status before the next one is taken", fn=f)
    # Skip from the comparator => EmptyQueryResult(SKIP); errors propagate
    srule = "R-C01-empty-selection-skips"
    ER_ = EVAL + "EvaluationResult"
    ok_skip = True
    n = 0
    for v, mon, tr in h.results:
        if mon.get("cmp") == "Skip":
            n += 1
            d = v
            good = d[0] == "enum" and d[1] == ai.RESULT and d[2] == 0 and d[3][0][0] == "enum" and d[3][0][1] == ER_ and S.status_of(d[3][0][3][0]) == 2
            ok_skip = ok_skip and good
        if mon.get("cmp") == "Err" and not (v[0] == "enum" and v[2] == 1):
            ok_skip = False
    ctx.ob(srule, srule + ":binary_operation", ok_skip and n >= 1, "comparator Skip must become EmptyQueryResult(SKIP) (%d paths)" % n, fn=f)


def real_binary(ctx, cr):
    rule = "R-C01-unresolved-is-fail"
    key = EVAL + "real_binary_operation"
    if key not in cr.fns:
        ctx.lost(rule, rule + ":real_binary_operation", key)
        return
    qn = vnames(cr, QR)
    f = cr.fns[key]
    pushes = []

    class H(S.StatusHooks):
        def role_of(self, a, st, term, callee):
            return "child"

        def extra_call(self, a, st, term, callee, args):
            decl = M.norm_path(callee.get("decl", ""))
            p = M.norm_path(callee.get("path", ""))
            mon = st.mon
            if decl == "std::iter::Iterator::next" and term.get("to") is not None:
                return [(("enum", ai.OPTION, 1, (("ref", ("X", "ELEMCELL"), ()),)), mon.set(elem=None)), (("enum", ai.OPTION, 0, ()), mon)]
            if p == "std::vec::Vec::push" and len(args) == 2:
                v = a.deep(st, args[1])
                if v[0] == "tuple" and len(v[1]) == 2 and S.status_of(v[1][1]) is not None:
                    pushes.append((mon.get("elem"), S.NAMES[S.status_of(v[1][1])]))
                    return [(("tuple", ()), mon)]
            return None

        def watch(self, a, st, sid, val):
            if sid == "ELEMCELL*" and val[0] == "enum" and val[1] == QR:
                return st.mon.set(elem=qn[val[2]])
            return None
    h = H(cr)
    a = ai.AI(cr, h, max_states=600000)
    try:
        a.run(key, mon=Mon())
    except ai.Undecided as e:
        ctx.ob(rule, rule + ":real_binary_operation", False, "undecided %s" % e, fn=f)
        return
    ctx.states += a.n_states
    got = set(s for e, s in pushes if e == "UnResolved")
    ctx.ob(rule, rule + ":real_binary_operation:UnResolved", got == {"FAIL"}, "an unresolved left-hand value must contribute FAIL: %s" % sorted(got), fn=f)


def selected_fn(ctx, cr):
    rule = "R-C01-unresolved-is-fail"
    key = OPS + "selected"
    if key not in cr.fns:
        ctx.lost(rule, rule + ":selected", key)
        return
    qn = vnames(cr, QR)
    f = cr.fns[key]
    problems = []
    seen = set()

    class H(ai.Hooks):
        def call(self, a, st, term, callee, args):
            decl = M.norm_path(callee.get("decl", ""))
            mon = st.mon or Mon()
            if decl == "std::iter::Iterator::next" and term.get("to") is not None:
                if mon.get("elem") is not None and mon.get("handled", 0) != 1:
                    problems.append("%s element handed to %d callbacks" % (mon.get("elem"), mon.get("handled", 0)))
                return [(("enum", ai.OPTION, 1, (("ref", ("X", "ELEMCELL"), ()),)), mon.set(elem="?", handled=0)), (("enum", ai.OPTION, 0, ()), mon.set(elem=None))]
            if decl.startswith("std::ops::FnMut::call_mut") and term.get("to") is not None:
                which = a.resolve(st, args[0])
                name = M.local_names(st.top.body)
                # which captured callback: parameter 2 (`c`, unresolved) or 3 (`r`, resolved)
                tgt = which[1] if which[0] == "ref" else None
                cb = {("L", 0, 2): "c", ("L", 0, 3): "r"}.get(tgt, "?")
                seen.add((mon.get("elem"), cb))
                return [(("tuple", ()), mon.set(handled=mon.get("handled", 0) + 1))]
            return None

        def constrained(self, a, st, sid, val):
            if sid == "ELEMCELL*" and val[0] == "enum" and val[1] == QR:
                st.mon = (st.mon or Mon()).set(elem=qn[val[2]])
    a = ai.AI(cr, H())
    a.run(key, mon=Mon())
    ctx.states += a.n_states
    exp = {("Literal", "r"), ("Resolved", "r"), ("UnResolved", "c")}
    ctx.ob(rule, rule + ":selected", seen == exp and not problems,
           "every element must go to exactly one callback (resolved -> r, unresolved -> c): saw %s %s" % (sorted(seen, key=str), problems[:2]), fn=f,
           sample={"fn": "selected", "routes": sorted(map(str, seen))})


def empty_skips(ctx, cr):
    rule = "R-C01-empty-selection-skips"
    # unary_operation: empty selection (not the result-set special case) => EmptyQueryResult(SKIP)
    key = EVAL + "unary_operation"
    CO = "rules::values::CmpOperator"
    if key not in cr.fns or CO not in cr.adts:
        ctx.lost(rule, rule + ":unary_operation", key)
    else:
        ops = vnames(cr, CO)
        f = cr.fns[key]
        ER_ = EVAL + "EvaluationResult"
        unary = [o for o in ops if o in ("Exists", "Empty") or o.startswith("Is")]
        if len(unary) < 9:
            ctx.lost(rule, rule + ":unary_operation:operators", "only %d unary operators found in CmpOperator (floor 9)" % len(unary))
        for opname, opneg, inverse in [(o, n_, i_) for o in unary for n_ in (False, True) for i_ in (False, True)]:
            rets = []

            class H(S.StatusHooks):
                def role_of(self, a, st, term, callee):
                    return "child"

                def extra_call(self, a, st, term, callee, args):
                    p = M.norm_path(callee.get("path", ""))
                    mon = st.mon
                    if p == "std::vec::Vec::is_empty":
                        return [(("bool", True), mon.set(empty=True)), (("bool", False), mon.set(empty=False))]
                    if p.endswith("QueryPart::is_variable"):
                        return [(("bool", True), mon.set(var=True)), (("bool", False), mon.set(var=False))]
                    return None

                def watch(self, a, st, sid, val):
                    if val[0] == "enum" and val[1] == "rules::exprs::QueryPart" and st.mon.get("qp") is None:
                        return st.mon.set(qp=val[2])
                    return None
            h = H(cr)
            a = ai.AI(cr, h, max_states=900000)
            cmpv = ("tuple", (("enum", CO, ops.index(opname), ()), ("bool", opneg)))
            label = ("not " if inverse else "") + ("!" if opneg else "") + opname
            try:
                a.run(key, args=[None, cmpv, ("bool", inverse), None, None, None], mon=Mon())
            except ai.Undecided as e:
                ctx.ob(rule, "%s:unary_operation:%s" % (rule, label), False, "undecided %s" % e, fn=f)
                continue
            ctx.states += a.n_states
            bad = []
            n = 0
            for v, mon, tr in h.results:
                if mon.get("empty") is True and v[0] == "enum" and v[1] == ai.RESULT and v[2] == 0:
                    inner = v[3][0]
                    special = opname == "Empty" and (mon.get("var") is True or mon.get("var") is None)
                    if special:
                        continue
                    n += 1
                    if not (inner[0] == "enum" and inner[1] == ER_ and S.status_of(inner[3][0]) == 2):
                        bad.append("empty selection under %s gives %s" % (label, ai.fmt_val(inner, cr)[:60]))
            ctx.ob(rule, "%s:unary_operation:%s" % (rule, label), not bad and (n >= 1 or opname == "Empty"),
                   "; ".join(sorted(set(bad))[:2]) or "%d empty-selection paths return EmptyQueryResult(SKIP)" % n, fn=f)
    # CmpOperator::compare: empty lhs or rhs => Skip
    key = "<rules::values::CmpOperator as rules::eval::operators::Comparator>::compare"
    if key not in cr.fns:
        ctx.lost(rule, rule + ":CmpOperator::compare", key)
        return
    f = cr.fns[key]
    ER = OPS + "EvalResult"
    ern = vnames(cr, ER)
    rets = []

    class H2(ai.Hooks):
        def call(self, a, st, term, callee, args):
            p = M.norm_path(callee.get("path", ""))
            decl = M.norm_path(callee.get("decl", ""))
            mon = st.mon or Mon()
            if p.endswith("::is_empty") and term.get("to") is not None:
                which = c02_root(a, st, args[0])
                return [(("bool", True), mon.add("empty", which)), (("bool", False), mon.add("nonempty", which))]
            if decl.endswith("operators::Comparator::compare") and term.get("to") is not None:
                return [(("sym", "DELEGATED"), mon.set(delegated=callee.get("key", "?")))]
            return None

        def ret(self, a, st, v):
            rets.append((v, st.mon or Mon()))
    a = ai.AI(cr, H2())
    a.run(key, mon=Mon())
    ctx.states += a.n_states
    bad = []
    n = 0
    deleg = set()
    for v, mon in rets:
        if mon.get("empty"):
            n += 1
            if v != ("enum", ai.RESULT, 0, (("enum", ER, ern.index("Skip"), ()),)):
                bad.append("empty %s gives %s" % (sorted(mon.get("empty")), ai.fmt_val(v, cr)[:50]))
            if mon.get("delegated"):
                bad.append("an operator was evaluated on an empty selection")
        elif mon.get("delegated"):
            deleg.add(mon.get("delegated"))
            if set(mon.get("nonempty", frozenset())) != {"arg2", "arg3"}:
                bad.append("operator evaluated without checking both sides for emptiness: %s" % sorted(mon.get("nonempty", [])))
    ctx.ob(rule, rule + ":CmpOperator::compare", not bad and n >= 2, "; ".join(sorted(set(bad))[:2]) or "%d empty paths return Skip" % n, fn=f,
           sample={"fn": "CmpOperator::compare", "empty_paths": n, "delegates": sorted(deleg)})


def c02_root(a, st, v):
    from rules.c13 import deep_root
    return deep_root(a, st, v)


def clause_aggregation(ctx, cr):
    rule = "R-C01-clause-aggregation"
    key = EVAL + "eval_guard_access_clause"
    if key not in cr.fns:
        ctx.lost(rule, rule + ":eval_guard_access_clause", key)
        return
    GAC = "rules::exprs::GuardAccessClause"
    sid_all = c02.field_sid(cr, "arg1*", GAC, ["access_clause", "query", "match_all"])
    if not sid_all:
        ctx.lost(rule, rule + ":match_all", "GuardAccessClause.access_clause.query.match_all")
        return
    ER_ = EVAL + "EvaluationResult"
    ern = vnames(cr, ER_)
    f = cr.fns[key]

    class H(S.StatusHooks):
        def role_of(self, a, st, term, callee):
            return "other"

        def extra_call(self, a, st, term, callee, args):
            k = callee.get("key", "")
            decl = M.norm_path(callee.get("decl", ""))
            mon = st.mon
            if k in (EVAL + "unary_operation", EVAL + "binary_operation"):
                outs = []
                for i, n in enumerate(S.NAMES):
                    outs.append((("enum", ai.RESULT, 0, (("enum", ER_, ern.index("EmptyQueryResult"), (S.status_val(i),)),)), mon.set(src="empty:" + n)))
                outs.append((("enum", ai.RESULT, 0, (("enum", ER_, ern.index("QueryValueResult"), (("sym", "VALUES"),)),)), mon.set(src="values")))
                outs.append((("enum", ai.RESULT, 1, (("sym", "OP_ERR"),)), mon.set(src="err")))
                return outs
            if decl == "std::iter::Iterator::next" and term.get("to") is not None and mon.get("src") == "values":
                outs = [(("enum", ai.OPTION, 1, (("tuple", (("sym", "V"), S.status_val(i))),)), mon.add("vals", n)) for i, n in enumerate(S.NAMES)]
                outs.append((("enum", ai.OPTION, 0, ()), mon.set(done=True)))
                return outs
            return None

        def watch(self, a, st, sid, val):
            if sid == sid_all and val[0] == "bool":
                return st.mon.set(all=val[1])
            return None
    h = H(cr)
    a = ai.AI(cr, h, max_states=600000)
    try:
        a.run(key, mon=Mon())
    except ai.Undecided as e:
        ctx.ob(rule, rule + ":eval_guard_access_clause", False, "undecided %s" % e, fn=f)
        return
    ctx.states += a.n_states
    ctx.note_analysed("functions", key)
    bad = []
    n = 0
    for v, mon, tr in h.results:
        kind, s = S.ret_status(v)
        src = mon.get("src")
        if kind != "ok":
            if kind == "okval":
                bad.append("non-status result")
            continue
        n += 1
        if src == "err":
            bad.append("operator error swallowed into Ok(%s)" % s)
        elif src and src.startswith("empty:"):
            if s != src.split(":")[1]:
                bad.append("EmptyQueryResult(%s) gives %s" % (src.split(":")[1], s))
        elif src == "values":
            vals = set(mon.get("vals", frozenset()))
            if "SKIP" in vals:
                continue    # per-value SKIP cannot be produced by the operators (unreachable arm)
            if mon.get("all") is None:
                bad.append("status decided without reading match_all")
                continue
            exp = ("FAIL" if "FAIL" in vals else "PASS") if mon.get("all") else ("PASS" if "PASS" in vals else "FAIL")
            if s != exp:
                bad.append("all=%s values %s give %s, expected %s" % (mon.get("all"), sorted(vals), s, exp))
    ctx.ob(rule, rule + ":eval_guard_access_clause", not bad and n >= 8, "; ".join(sorted(set(bad))[:3]) or "%d Ok paths" % n, fn=f,
           sample={"fn": "eval_guard_access_clause", "ok_paths": n, "spec": "all: FAIL iff some value FAILed else PASS; some: PASS iff some value PASSed else FAIL"})


ERR = "rules::errors::Error"
# reviewed conversions of an error into a value: function -> (callee names, reason)
ERROR_CONVERSIONS = {
    "rules::eval::each_lhs_compare": "the comparison closure's Err(NotComparable) becomes the per-pair result ComparisonResult::NotComparable, which every caller maps to FAIL (decided by R-C01-binary-status); every other error kind is returned",
}


def is_guard_result(cr, body, place):
    ty, _ = M.place_ty(cr, None, place, body)
    if ty is None or ty.adt_path() != ai.RESULT:
        return False
    args = ty.args()
    return len(args) == 2 and args[1].adt_path() == ERR


def always_err(fn):
    """every write to the return place is an Err aggregate or the propagation of a callee's error (`?`): the function never returns Ok"""
    n = 0
    for bi, si, st in M.iter_stmts(fn):
        if st.get("p") == 0 and "rv" in st:
            rv = st["rv"]
            if not (rv.get("r") == "agg" and rv.get("adt") == ai.RESULT and rv.get("vi") == 1):
                return False
            n += 1
    for bi, t in M.iter_calls(fn):
        if t.get("dest") == 0:
            if M.norm_path(t["fn"].get("decl", "")) != "std::ops::FromResidual::from_residual":
                return False
            n += 1
    return n >= 1


def errors_propagate(ctx, cr):
    """`an evaluation error is raised exactly when the semantics is undefined` has a structural half: no function of the evaluator turns a
    callee's error into a value.  For every function under rules:: reachable from the entry points that returns the crate's Result, on
    every path on which some local call returned Err the function itself returns Err (each Result-returning call is forked into Ok/Err,
    path-sensitively).  The single reviewed conversion is listed above."""
    from engine import cg
    rule = "R-C01-errors-propagate"
    g = cg.CallGraph(cr)
    reach = g.reachable(cg.entry_points(cr, "lib"))
    n = 0
    for k in sorted(reach):
        f = cr.fns.get(k)
        if f is None or not (k.startswith("rules::") or k.startswith("<rules::")) or any(w in k for w in ("::parser::", "libyaml", "_serde", "::errors::")):
            continue
        if f.get("file", "").endswith("_tests.rs") or f["kind"] not in ("fn", "assoc", "closure") or not is_guard_result(cr, f, 0):
            continue
        swallowed = set()

        class H(ai.Hooks):
            def call(self, a, st, term, callee, args):
                d = M.norm_path(callee.get("decl", ""))
                if d in ("std::ops::Try::branch", "std::ops::FromResidual::from_residual"):
                    return None
                if not callee.get("local") and M.norm_path(callee.get("path", "")).startswith(("std::result::", "std::option::")):
                    return None     # map_err / ok_or / and_then ... re-shape a Result that already exists; they are not a second error source
                if callee.get("local") and callee.get("key") in cr.fns and always_err(cr.fns[callee["key"]]) and term.get("to") is not None and st.top is st.frames[0]:
                    # a helper that only ever returns Err (`fn bail(..) -> Result<T> { record; Err(e) }`): calling it is how the error is returned
                    mon = st.mon or Mon()
                    return [(("enum", ai.RESULT, 1, (("sym", "E:" + M.norm_path(callee.get("path", "")).split("::")[-1]),)), mon)]
                if term.get("to") is not None and st.top is st.frames[0] and is_guard_result(cr, st.top.body, term["dest"]):
                    mon = st.mon or Mon()
                    site = M.norm_path(callee.get("path", "")).split("::")[-1]
                    return [(("enum", ai.RESULT, 0, (a.sym(st, a.site(st, ":ok")),)), mon), (("enum", ai.RESULT, 1, (("sym", "E:" + site),)), mon.add("errs", site))]
                return None

            def inline(self, a, st, key, fn):
                return False

            def ret(self, a, st, v):
                errs = (st.mon or Mon()).get("errs", frozenset())
                if errs and not (v[0] == "enum" and v[1] == ai.RESULT and v[2] == 1):
                    swallowed.update(errs)
        a = ai.AI(cr, H(), max_states=300000)
        try:
            a.run(k, mon=Mon())
        except ai.Undecided as e:
            ctx.ob(rule, "%s:%s" % (rule, k), False, "undecided %s" % e, fn=f)
            continue
        ctx.states += a.n_states
        n += 1
        why = ERROR_CONVERSIONS.get(k)
        if swallowed and why is None:
            ctx.ob(rule, "%s:%s" % (rule, k), False, "an error returned by %s does not make %s return an error: the undefined case is turned into a status / value" % (sorted(swallowed), k.split("::")[-1]), fn=f)
        elif swallowed:
            ctx.ob(rule, "%s:%s" % (rule, k), True, "reviewed conversion: " + why, fn=f, sample={"fn": k, "converted": sorted(swallowed)})
        elif why is not None:
            ctx.ob(rule, "%s:%s" % (rule, k), True, "no conversion left (reviewed entry unused)", fn=f)
    ctx.note_analysed("error_discipline", "%d Result-returning evaluator functions, every Err path returns Err" % n)
    ctx.ob(rule, rule + ":coverage", n >= 90, "%d reachable Result-returning functions under rules:: analysed (floor 90)" % n)


def run(ctx):
    cr = ctx.lib
    unary_tables(ctx, cr)
    binary_status(ctx, cr)
    real_binary(ctx, cr)
    selected_fn(ctx, cr)
    empty_skips(ctx, cr)
    clause_aggregation(ctx, cr)
    errors_propagate(ctx, cr)
    ctx.assumptions += [
        "query traversal over documents (keys, *, [*], index, filters, converters) and list flattening in Eq/In are "
        "run-time data dependent and NOT decided here; the property's behavioural core is not claimed",
    ]

"""C15 — variables and parameterised rules are transparent abstractions (structural clauses; DESIGN §5 C15).

Program-transformation equivalence is behavioural and NOT claimed.  Decided:
  R-C15-scope-chain         block scope: its own literals / memo / function expressions / queries are consulted first and the parent
                            only when all of them miss (inner definitions shadow outer ones); root scope: a miss is an error, never an
                            empty result; whatever is memoised is exactly what is returned, under the name that was asked for
  R-C15-literal-agreement   every site that turns a literal `let`/argument value into a query result uses QueryResult::Literal
  R-C15-parameter-binding   parameter i of a parameterised rule is bound to argument i of the call (same enumeration index), after the
                            arity comparison; the call context looks in the bound parameters before the parent
  R-C15-variable-head       the parser inserts [*] after a leading variable (unless already present)
"""
from engine import ai, mirlib as M
from engine import statusmon as S
from engine.statusmon import Mon

LEVEL = "other"
EC = "rules::eval_context::"
QR = "rules::QueryResult"
LV = "rules::exprs::LetValue"
SCOPE = EC + "Scope"


def scope_chain(ctx, cr):
    rule = "R-C15-scope-chain"
    if SCOPE not in cr.adts:
        ctx.lost(rule, rule + ":Scope", SCOPE)
        return
    sf = [x["name"] for x in cr.adts[SCOPE]["variants"][0]["fields"]]
    for owner, is_root in (("BlockScope", False), ("RootScope", True)):
        key = "<%s%s as rules::EvalContext>::resolve_variable" % (EC, owner)
        f = cr.fns.get(key)
        if not f:
            ctx.lost(rule, "%s:%s" % (rule, owner), key)
            continue
        rets = []
        problems = []

        class H(ai.Hooks):
            def which_map(self, a, st, v):
                r = a.resolve(st, v)
                if r[0] == "ref":
                    for pr in reversed(r[2]):
                        if pr[0] == "f" and pr[1] < len(sf) and len(r[2]) >= 1:
                            # last field projection that indexes Scope
                            pass
                    names = [sf[pr[1]] for pr in r[2] if pr[0] == "f" and pr[1] < len(sf)]
                    return names[-1] if names else None
                return None

            def call(self, a, st, term, callee, args):
                p = M.norm_path(callee.get("path", ""))
                decl = M.norm_path(callee.get("decl", ""))
                k = callee.get("key", "")
                mon = st.mon or Mon()
                if p.endswith("HashMap::get") and term.get("to") is not None:
                    m = self.which_map(a, st, args[0])
                    seq = mon.get("lookups", ())
                    keyv = a.deref_val(st, args[1])
                    if keyv != ("sym", "arg2") and keyv != ("sym", "arg2*"):
                        problems.append("map %s is searched with %s instead of the requested variable name" % (m, ai.fmt_val(keyv)))
                    return [(("enum", ai.OPTION, 1, (("ref", ("X", "HIT:%s" % m), ()),)), mon.set(lookups=seq + ((m, True),))),
                            (("enum", ai.OPTION, 0, ()), mon.set(lookups=seq + ((m, False),)))]
                if p.endswith("HashMap::insert") and len(args) == 3:
                    m = self.which_map(a, st, args[0])
                    keyv = a.deref_val(st, args[1])
                    return [(("sym", "OLD"), mon.set(memo=(m, ai.fmt_val(keyv), a.deep(st, args[2]))))]
                if decl.endswith("EvalContext::resolve_variable") and term.get("to") is not None:
                    return [(("enum", ai.RESULT, 0, (("sym", "FROM_PARENT"),)), mon.set(parent=True)), (("enum", ai.RESULT, 1, (("sym", "PARENT_ERR"),)), mon.set(parent=True))]
                if k.endswith("eval_context::query_retrieval") and term.get("to") is not None:
                    return [(("enum", ai.RESULT, 0, (("sym", "QUERIED"),)), mon.set(evaluated="query")), (("enum", ai.RESULT, 1, (("sym", "Q_ERR"),)), mon)]
                if k.endswith("eval_context::resolve_function") and term.get("to") is not None:
                    return [(("enum", ai.RESULT, 0, (("sym", "FUNCRES"),)), mon.set(evaluated="function")), (("enum", ai.RESULT, 1, (("sym", "F_ERR"),)), mon)]
                if decl == "std::iter::Iterator::collect" or p.endswith("Iterator::collect"):
                    return [(("sym", "FILTERED"), mon.set(filtered=True))]
                return None

            def ret(self, a, st, v):
                rets.append((a.deep(st, v), st.mon or Mon()))
        a = ai.AI(cr, H(), max_states=300000)
        try:
            a.run(key, mon=Mon())
        except ai.Undecided as e:
            ctx.ob(rule, "%s:%s" % (rule, owner), False, "undecided %s" % e, fn=f)
            continue
        ctx.states += a.n_states
        ctx.note_analysed("functions", key)
        bad = list(problems)
        n = 0
        for v, mon in rets:
            lk = mon.get("lookups", ())
            own = [m for m, hit in lk]
            hit = [m for m, h_ in lk if h_]
            is_ok = v[0] == "enum" and v[1] == ai.RESULT and v[2] == 0
            n += 1
            if mon.get("parent"):
                if is_root:
                    bad.append("the root scope consults a parent")
                if hit:
                    bad.append("the parent scope is consulted although the variable is defined here (%s): outer definition would win" % hit)
                if set(own) != {"literals", "resolved_variables", "function_expressions", "variable_queries"}:
                    bad.append("the parent scope is consulted before all own definitions were looked at (%s)" % own)
            if not hit and not mon.get("parent"):
                if is_ok:
                    bad.append("an undefined variable resolves to %s instead of an error" % ai.fmt_val(v, cr)[:50])
            memo = mon.get("memo")
            if memo:
                if memo[0] != "resolved_variables":
                    bad.append("memoised into %s" % memo[0])
                if "arg2" not in memo[1]:
                    bad.append("memoised under %s instead of the requested name" % memo[1])
                if is_ok and v[3][0] != memo[2]:
                    bad.append("memoised %s but returned %s" % (ai.fmt_val(memo[2])[:40], ai.fmt_val(v[3][0])[:40]))
            if is_ok and hit == ["resolved_variables"]:
                if "HIT:resolved_variables" not in repr(v):
                    bad.append("a memo hit returns %s, not the memoised value" % ai.fmt_val(v, cr)[:50])
                if mon.get("evaluated"):
                    bad.append("re-evaluated although memoised")
            if is_ok and mon.get("evaluated") and not memo:
                bad.append("a %s result is returned without being memoised (later references could see another value)" % mon.get("evaluated"))
        ctx.ob(rule, "%s:%s" % (rule, owner), not bad and n >= 5, "; ".join(sorted(set(bad))[:3]) or "%d return paths" % n, fn=f,
               sample={"scope": owner, "paths": n})
    # ValueScope delegates
    key = "<%sValueScope as rules::EvalContext>::resolve_variable" % EC
    f = cr.fns.get(key)
    if f:
        callees = [M.norm_path(t["fn"].get("decl", "")) for bi, t in M.iter_calls(f)]
        ctx.ob(rule, rule + ":ValueScope-delegates", any(c.endswith("EvalContext::resolve_variable") for c in callees) and len(callees) <= 2, "ValueScope must delegate variable resolution to its parent: %s" % callees, fn=f)
    else:
        ctx.lost(rule, rule + ":ValueScope", key)


def literal_agreement(ctx, cr):
    rule = "R-C15-literal-agreement"
    qn = [v["name"] for v in cr.adts[QR]["variants"]]
    lvn = [v["name"] for v in cr.adts[LV]["variants"]]
    vi = lvn.index("Value")
    sites = {}
    targets = [k for k, f in cr.fns.items() if k.startswith(("rules::eval::", "rules::eval_context::", "<rules::eval")) and has_letvalue_and_qr(cr, f)]
    ctx.note_analysed("letvalue_sites", targets)
    for key in sorted(targets):
        f = cr.fns[key]
        built = []

        class H(S.StatusHooks):
            def role_of(self, a, st, term, callee):
                return "child"

            def extra_call(self, a, st, term, callee, args):
                p = M.norm_path(callee.get("path", ""))
                if p == "std::rc::Rc::new" and args:
                    return [(("tuple", (("str", "RC"), a.resolve(st, args[0]))), st.mon)]
                return None

            def watch(self, a, st, sid, val):
                if val[0] == "enum" and val[1] == LV and val[2] == vi:
                    return st.mon.add("litpayload", sid + "@%d.0" % vi)
                return None

            def stmt(self, a, st, frame, s):
                rv = s.get("rv")
                if rv and rv.get("r") == "agg" and rv.get("adt") == QR and len(st.frames) == 1:
                    v = a.deep(st, a.read_place(st, frame, s["p"]))
                    r = repr(v)
                    for pl in (st.mon.get("litpayload", frozenset()) if st.mon is not None else ()):
                        if pl in r:
                            built.append((qn[v[2]], s.get("ln")))
        h = H(cr, track_records=False)
        a = ai.AI(cr, h, max_states=400000)
        try:
            a.run(key, mon=Mon())
        except ai.Undecided:
            continue
        ctx.states += a.n_states
        if built:
            sites[key] = set(built)
    if len(sites) < 3:
        ctx.lost(rule, rule + ":floor", "only %d sites turning a literal LetValue into a QueryResult were found (floor 3)" % len(sites))
    for key, b in sorted(sites.items()):
        kinds = set(k for k, ln in b)
        ctx.ob(rule, "%s:%s" % (rule, key), kinds == {"Literal"}, "a literal value is wrapped as QueryResult::%s (siblings use Literal; the operators dispatch on it)" % sorted(kinds), fn=cr.fns[key],
               sample={"site": key, "wraps_as": sorted(kinds)})


def has_letvalue_and_qr(cr, f):
    has_lv = False
    has_qr = False

    def scan(o):
        nonlocal has_lv
        if isinstance(o, list) and len(o) == 3 and o[0] == "dc" and o[2] == "Value":
            has_lv = True
        if isinstance(o, dict):
            for x in o.values():
                scan(x)
        elif isinstance(o, list):
            for x in o:
                scan(x)
    for bi, si, s in M.iter_stmts(f):
        rv = s.get("rv")
        if rv and rv.get("r") == "agg" and rv.get("adt") == QR:
            has_qr = True
    if not has_qr:
        return False
    scan(f["blocks"])
    return has_lv


def zipped_in_order(cr, f):
    """the function zips parameter_names (receiver) with the call's parameters (argument), both iterated from the start"""
    from rules.c04 import receiver_field
    from rules.c08 import trace_to_call
    for bi, t in M.iter_calls(f):
        if M.norm_path(t["fn"].get("decl", "")) != "std::iter::Iterator::zip" or len(t["args"]) != 2:
            continue
        sides = []
        for x in t["args"]:
            c = trace_to_call(f, x)
            fld = None
            if c is not None and M.norm_path(c["fn"].get("path", "")).endswith("::iter") and c["args"]:
                fld = receiver_field(cr, f, c["args"][0])
                if fld is None:
                    c2 = trace_to_call(f, c["args"][0])
                    if c2 is not None and c2["args"]:
                        fld = receiver_field(cr, f, c2["args"][0])
            elif c is not None and M.norm_path(c["fn"].get("decl", "")) == "std::iter::IntoIterator::into_iter" and c["args"]:
                fld = receiver_field(cr, f, c["args"][0])
            elif c is None:
                fld = receiver_field(cr, f, x)      # `.zip(&call_rule.parameters)`: the collection itself, iterated from its start
            sides.append(fld)
        if sides == ["parameter_names", "parameters"]:
            return True
    return False


def parameter_binding(ctx, cr):
    rule = "R-C15-parameter-binding"
    key = "rules::eval::eval_parameterized_rule_call"
    f = cr.fns.get(key)
    if not f:
        ctx.lost(rule, rule + ":call", key)
        return
    inserts = []
    order = []

    class H(S.StatusHooks):
        def role_of(self, a, st, term, callee):
            return "child"

        def extra_call(self, a, st, term, callee, args):
            p = M.norm_path(callee.get("path", ""))
            decl = M.norm_path(callee.get("decl", ""))
            mon = st.mon
            if decl == "std::iter::Iterator::next" and term.get("to") is not None:
                if mon.get("it", 0) >= 1:
                    return [(("enum", ai.OPTION, 0, ()), mon)]
                # the loop pairs argument i with parameter name i either by index (enumerate + parameter_names[idx]) or by walking both
                # lists in lockstep (parameter_names.iter().zip(parameters.iter())): the item's first component tells which
                first = ("sym", "IDX")
                ty, _ = M.place_ty(cr, None, term["dest"], st.top.body)
                inner = ty.args()[0] if ty is not None and ty.args() else None
                if inner is not None and inner.kind == "tuple" and inner.t.get("e"):
                    t0 = inner.field(None, 0)
                    if t0.kind == "ref" and (t0.strip_refs().adt_path() or "").endswith("String"):
                        first = ("ref", ("X", "NAME_AT(?IDX)" if zipped_in_order(cr, f) else "NAME_OF_UNKNOWN_POSITION"), ())
                return [(("enum", ai.OPTION, 1, (("tuple", (first, ("ref", ("X", "ARGCELL"), ()))),)), mon.set(it=1)), (("enum", ai.OPTION, 0, ()), mon)]
            if decl in ("std::ops::Index::index",) and len(args) == 2:
                return [(("ref", ("X", "NAME_AT(%s)" % ai.fmt_val(a.resolve(st, args[1]))), ()), mon)]
            if p.endswith("HashMap::insert") and len(args) == 3:
                kv = a.deref_val(st, args[1])
                inserts.append((ai.fmt_val(a.resolve(st, args[1])), ai.fmt_val(a.deep(st, args[2]))[:80]))
                return [(("sym", "OLD"), mon.set(bound=True))]
            if p.endswith("::len") and term.get("to") is not None:
                return None
            return None

        def watch(self, a, st, sid, val):
            if val[0] == "bool" and " Ne " in sid and "LEN(" in sid:
                order.append(("arity-compared", val[1]))
                return st.mon.set(arity_ne=val[1])
            return None
    h = H(cr, track_records=False)
    a = ai.AI(cr, h, max_states=400000)
    try:
        a.run(key, mon=Mon())
    except ai.Undecided as e:
        ctx.ob(rule, rule + ":call", False, "undecided %s" % e, fn=f)
        return
    ctx.states += a.n_states
    keys = set(k for k, v in inserts)
    ok = bool(inserts) and all("NAME_AT(?IDX)" in k for k in keys)
    ctx.ob(rule, rule + ":same-index", ok, "arguments are bound under %s; expected the parameter name at the argument's own enumeration index" % sorted(keys), fn=f,
           sample={"bindings": sorted(keys)})
    vals_ok = all(("ARGCELL" in v) or ("call" in v) for k, v in inserts)
    ctx.ob(rule, rule + ":value-from-that-argument", vals_ok, "bound values: %s" % sorted(set(v for k, v in inserts))[:4], fn=f)
    ctx.ob(rule, rule + ":arity-compared-first", any(o[0] == "arity-compared" for o in order), "the number of arguments must be compared with the number of parameters before binding", fn=f)
    # the call context looks at its bound parameters first
    key = "<rules::eval::ResolvedParameterContext as rules::EvalContext>::resolve_variable"
    f = cr.fns.get(key)
    if not f:
        ctx.lost(rule, rule + ":context", key)
        return
    rets = []

    class H2(ai.Hooks):
        def call(self, a, st, term, callee, args):
            p = M.norm_path(callee.get("path", ""))
            decl = M.norm_path(callee.get("decl", ""))
            mon = st.mon or Mon()
            if p.endswith("HashMap::get") and term.get("to") is not None:
                return [(("enum", ai.OPTION, 1, (("ref", ("X", "BOUND"), ()),)), mon.set(hit=True)), (("enum", ai.OPTION, 0, ()), mon.set(hit=False))]
            if decl.endswith("EvalContext::resolve_variable") and term.get("to") is not None:
                return [(("enum", ai.RESULT, 0, (("sym", "FROM_PARENT"),)), mon.set(parent=True))]
            return None

        def ret(self, a, st, v):
            rets.append((a.deep(st, v), st.mon or Mon()))
    a = ai.AI(cr, H2())
    a.run(key, mon=Mon())
    bad = []
    for v, mon in rets:
        if mon.get("hit") and (mon.get("parent") or "BOUND" not in repr(v)):
            bad.append("a bound parameter is not returned (%s)" % ai.fmt_val(v, cr)[:50])
        if mon.get("hit") is False and not mon.get("parent"):
            bad.append("an unbound name is not delegated to the parent")
    ctx.ob(rule, rule + ":parameters-shadow-outer", not bad and len(rets) >= 2, "; ".join(bad) or "bound parameters are returned; other names go to the parent", fn=f)


def variable_head(ctx, cr):
    rule = "R-C15-variable-head"
    fs = [f for k, f in cr.fns.items() if k.startswith("rules::parser::access::{closure")]
    if not fs:
        ctx.lost(rule, rule + ":access", "rules::parser::access closure")
        return
    ok = False
    for f in fs:
        builds = any(s.get("rv", {}).get("r") == "agg" and s["rv"].get("adt") == "rules::exprs::QueryPart" and s["rv"].get("vn") == "AllIndices" for bi, si, s in M.iter_stmts(f))
        checks_var = any(t["fn"].get("key", "").endswith("QueryPart::is_variable") for bi, t in M.iter_calls(f))
        inserts = [t for bi, t in M.iter_calls(f) if M.norm_path(t["fn"].get("path", "")) == "std::vec::Vec::insert"]
        if builds and checks_var and len(inserts) >= 2:
            ok = True
    ctx.ob(rule, rule + ":inserts-all-indices", ok, "parser::access must insert QueryPart::AllIndices after a leading variable (is_variable test + Vec::insert of AllIndices)", fn=fs[0])
    # a bare `%v` yields what the variable holds, entry by entry and unchanged: in the variable-head arm of query retrieval some path pushes
    # the iterated stored entry itself (so a Literal binding stays Literal, as if the literal were written in place)
    from rules.c08 import def_of_local
    key = "rules::eval_context::query_retrieval_with_converter"
    f = cr.fns.get(key)
    if not f:
        ctx.lost(rule, rule + ":bare-variable-identity", key)
        return
    QR = "rules::QueryResult"
    each = [l for n, l in f["names"] if n == "each" and isinstance(l, int) and M.Ty(cr, f["locals"][l]).adt_path() == QR]
    uses_var = any(M.norm_path(t["fn"].get("decl", "")).endswith("EvalContext::resolve_variable") for bi, t in M.iter_calls(f))
    pushes_each = False
    for bi, t in M.iter_calls(f):
        if M.norm_path(t["fn"].get("path", "")) != "std::vec::Vec::push" or len(t["args"]) < 2:
            continue
        pl = M.op_place(t["args"][1])
        for _ in range(4):
            if pl is None or not isinstance(pl, int):
                break
            if pl in each:
                pushes_each = True
                break
            d = def_of_local(f, pl)
            if d and d[0] == "stmt" and d[2]["rv"]["r"] == "use":
                pl = M.op_place(d[2]["rv"]["o"])
            else:
                break
    ctx.ob(rule, rule + ":bare-variable-identity", uses_var and bool(each) and pushes_each,
           "query retrieval resolves a leading variable but never hands a stored entry on as it is: a variable bound to a literal comes back as Resolved and `==` takes the query-to-query route instead of the literal one"
           if not pushes_each else "the stored entry of a bare variable is pushed unchanged", fn=f)


def emptiness_exception(ctx, cr):
    """the one documented exception to transparency — `empty` on a BARE variable tests the result set — is taken exactly for a query
    that ends in a filter (where the in-place and the variable form agree anyway) or that consists of a single variable part; a
    variable followed by anything (`%v[*]`, `%v.x`) must be treated like the in-place query"""
    rule = "R-C15-emptiness-exception"
    key = "rules::eval::unary_operation"
    f = cr.fns.get(key)
    if not f:
        ctx.lost(rule, rule + ":unary_operation", key)
        return
    names = {n: l for n, l in f["names"] if isinstance(l, int)}
    tgt = names.get("empty_on_expr")
    if tgt is None:
        ctx.lost(rule, rule + ":empty_on_expr", "the local deciding the special case in unary_operation")
        return
    QP = "rules::exprs::QueryPart"
    qn = [v["name"] for v in cr.adts[QP]["variants"]]
    seen = {}

    class H(ai.Hooks):
        def call(self, a, st, term, callee, args):
            p = M.norm_path(callee.get("path", ""))
            decl = M.norm_path(callee.get("decl", ""))
            mon = st.mon or Mon()
            if mon.get("done"):
                return [(ai.AI.DIVERGE, mon)]
            if decl.endswith("EvalContext::query"):
                return [(("enum", ai.RESULT, 0, (("sym", "LHS"),)), mon)]
            if p.endswith("QueryPart::is_variable"):
                who = a.resolve(st, args[0])
                return [(("bool", True), mon.set(var=True)), (("bool", False), mon.set(var=False))]
            return None

        def constrained(self, a, st, sid, val):
            if val[0] == "enum" and val[1] == QP:
                st.mon = (st.mon or Mon()).set(last=qn[val[2]])

        def stmt(self, a, st, frame, s):
            if frame is st.frames[0] and s.get("p") == tgt and "rv" in s:
                v = a.resolve(st, a.read_place(st, frame, tgt))
                mon = st.mon or Mon()
                val = v[1] if v[0] in ("bool", "sym") else ai.fmt_val(v)
                seen.setdefault((mon.get("last"), mon.get("var")), set()).add(val)
                st.mon = mon.set(done=True)
    a = ai.AI(cr, H())
    try:
        a.run(key, mon=Mon())
    except ai.Undecided as e:
        ctx.ob(rule, rule + ":table", False, "undecided %s" % e, fn=f)
        return
    ctx.states += a.n_states
    bad = []
    import re as _re
    for (last, var), vals in sorted(seen.items(), key=str):
        for v in vals:
            if last in ("Filter", "MapKeyFilter"):
                ok = v is True
            elif var is False:
                ok = v is False
            elif var is True:
                ok = isinstance(v, str) and _re.fullmatch(r"\(LEN\([^()]*\) Eq 1\)", v) is not None
            else:
                ok = v is False
            if not ok:
                bad.append("last part %s (is_variable=%s): special case decided by %s — expected true for filters, `len == 1` for a variable part, false otherwise" % (last, var, v))
    kinds = set(k[0] for k in seen)
    ctx.ob(rule, rule + ":table", not bad and {"Filter", "MapKeyFilter"} <= kinds and len(kinds) >= len(qn) - 1, "; ".join(bad[:3]) or "%d (last part, is_variable) cases over %d part kinds" % (len(seen), len(kinds)), fn=f,
           sample={"cases": sorted("%s/%s -> %s" % (k[0], k[1], sorted(map(str, v))) for k, v in seen.items())})


def call_evaluates_body(ctx, cr):
    """`f(args)` is equivalent to its body with the parameters replaced: so every Ok return of eval_parameterized_rule_call comes after
    exactly one evaluation of the called rule (eval_rule); a return that answers without evaluating the body — for example an early
    SKIP when an argument selects nothing — makes the call differ from the inlined body"""
    from engine import statusmon as S
    rule = "R-C15-parameter-binding"
    key = "rules::eval::eval_parameterized_rule_call"
    f = cr.fns.get(key)
    if not f:
        ctx.lost(rule, rule + ":call-evaluates-body", key)
        return

    class H(S.StatusHooks):
        def role_of(self, a, st, term, callee):
            return "child" if callee.get("key") == "rules::eval::eval_rule" else None
    h = H(cr, track_records=False)
    a = ai.AI(cr, h, max_states=400000)
    try:
        a.run(key, mon=Mon())
    except ai.Undecided as e:
        ctx.ob(rule, rule + ":call-evaluates-body", False, "undecided %s" % e, fn=f)
        return
    ctx.states += a.n_states
    bad = []
    n = 0
    for v, mon, tr in h.results:
        kind, s_ = S.ret_status(v)
        if kind != "ok":
            continue
        n += 1
        ch = mon.get("child", frozenset())
        if len(ch) != 1:
            bad.append("returns Ok(%s) after %d evaluations of the called rule [%s]" % (s_, len(ch), S.trace_str(tr, 4)))
    ctx.ob(rule, rule + ":call-evaluates-body", n >= 3 and not bad, "; ".join(sorted(set(bad))[:2]) or "%d Ok returns, each after one evaluation of the body" % n, fn=f)


def run(ctx):
    cr = ctx.lib
    scope_chain(ctx, cr)
    literal_agreement(ctx, cr)
    parameter_binding(ctx, cr)
    variable_head(ctx, cr)
    emptiness_exception(ctx, cr)
    call_evaluates_body(ctx, cr)
    ctx.assumptions += [
        "equivalence of a program with its inlined form is behavioural and not claimed; the emptiness test on a bare variable is the documented exception",
    ]

"""C09 — the structured report partitions the rules exactly as they were evaluated (DESIGN §5 C09).

  R-C09-partition        simplified_json_from_root: a PASS rule goes to `compliant`, SKIP to `not_applicable`, FAIL to neither;
                         the file status is the FileCheck record's status; not_compliant is what the builder returns for the
                         root's children; FileReport::combine folds statuses with Status::and over an accumulator that starts
                         at the identity (SKIP) and unions the three sets, each with the WHOLE bucket of the same name; the folds that
                         collect rules files (get_rule_info, StructuredEvaluator::evaluate) and data files keep every element once
  R-C09-builder          report_all_failed_clauses_for_rules, per record kind x status: a FAIL rule is listed exactly once and
                         unconditionally; FAIL containers are descended into (so the record variants the evaluator emits are all
                         handled); nothing is listed or descended for a record that is not FAIL (no failing check is attributed
                         to a PASS/SKIP node); failure-only clause variants are constructed with FAIL only; binary_operation emits
                         FAIL checks per element of the comparison's difference list, not per left-hand value
  R-C09-custom-message   every arm that builds Messages takes custom_message from the matched record
Not claimed: the content of `checks` for arbitrary programs; rules sharing one name.
"""
from engine import flow, ai, mirlib as M
from engine import statusmon as S
from engine.statusmon import Mon

LEVEL = "other"
EC = "rules::eval_context::"
RT = "rules::RecordType"
CC = "rules::ClauseCheck"
CR_ = EC + "ClauseReport"
BUILDER = EC + "report_all_failed_clauses_for_rules"


def names(cr, adt):
    return [v["name"] for v in cr.adts[adt]["variants"]]


def partition(ctx, cr):
    rule = "R-C09-partition"
    key = EC + "simplified_json_from_root"
    FR = EC + "FileReport"
    f = cr.fns.get(key)
    if not f or FR not in cr.adts:
        ctx.lost(rule, rule + ":simplified_json_from_root", key)
        return
    ffields = [x["name"] for x in cr.adts[FR]["variants"][0]["fields"]]
    inserts = []      # (status, target local)
    built = []

    class H(ai.Hooks):
        lazy_pipes = True       # `children.iter().filter_map(..).collect::<BTreeSet<_>>()` is the insert loop it abbreviates

        def call(self, a, st, term, callee, args):
            p = M.norm_path(callee.get("path", ""))
            decl = M.norm_path(callee.get("decl", ""))
            mon = st.mon or Mon()
            if p.endswith("BTreeSet::insert") or p.endswith("HashSet::insert") or p.endswith("IndexSet::insert") or p == "model::collect_item":
                tgt = a.resolve(st, args[0])
                cell = a.resolve(st, a.read_at(st, tgt[1], tgt[2])) if tgt[0] == "ref" else None
                inserts.append((mon.get("status"), cell))
                return [(("bool", True), mon)]
            if p.endswith("BTreeSet::new"):
                return [(a.sym(st, a.site(st, ":set")), mon)]
            if callee.get("key") == BUILDER:
                return [(("sym", "NOT_COMPLIANT"), mon)]
            if decl == "std::iter::Iterator::next" and term.get("to") is not None:
                it = a.resolve(st, args[0])
                if it[0] == "ref":
                    it = a.resolve(st, a.read_at(st, it[1], it[2]))
                if ai.is_pipe(it):
                    return None
                return [(("enum", ai.OPTION, 1, (("ref", ("X", "ELEMCELL"), ()),)), mon.set(status=None, kind=None)), (("enum", ai.OPTION, 0, ()), mon.set(status=None, kind=None, done=True))]
            return None

        def constrained(self, a, st, sid, val):
            if not sid.startswith("ELEMCELL*"):
                return
            if val[0] == "enum" and val[1] == RT:
                st.mon = (st.mon or Mon()).set(kind=names(cr, RT)[val[2]])
            if val[0] == "enum" and val[1] == S.STATUS and (st.mon or Mon()).get("status") is None:
                st.mon = (st.mon or Mon()).set(status=S.NAMES[val[2]])

        def inline(self, a, st, k, fn):
            it = fn.get("impl_trait", "")
            return it == "std::cmp::PartialEq" and cr.ty_adt(fn.get("impl_self")) == S.STATUS

        def stmt(self, a, st, frame, s):
            rv = s.get("rv")
            if rv and rv.get("r") == "agg" and rv.get("adt") == FR:
                ops = {}
                for i, o in enumerate(rv["ops"]):
                    pl = M.op_place(o)
                    val = a.resolve(st, a.operand(st, frame, o))
                    ops[ffields[i]] = (val, val)
                built.append(ops)
    a = ai.AI(cr, H(), max_states=300000)
    try:
        a.run(key, mon=Mon())
    except ai.Undecided as e:
        ctx.ob(rule, rule + ":simplified_json_from_root", False, "undecided %s" % e, fn=f)
        return
    ctx.states += a.n_states
    if not built:
        ctx.ob(rule, rule + ":simplified_json_from_root", False, "no FileReport constructed", fn=f)
        return
    comp_cells = set(b["compliant"][0] for b in built)
    na_cells = set(b["not_applicable"][0] for b in built)
    for stt, exp_cells, label in (("PASS", comp_cells, "compliant"), ("SKIP", na_cells, "not_applicable")):
        got = set(c for s_, c in inserts if s_ == stt)
        ctx.ob(rule, "%s:%s->%s" % (rule, stt, label), got == exp_cells and len(exp_cells) == 1,
               "a %s rule is inserted into %s, the set that becomes `%s` is %s" % (stt, sorted(map(str, got)), label, sorted(map(str, exp_cells))), fn=f,
               sample={"rule_status": stt, "set": label})
    got = set(c for s_, c in inserts if s_ == "FAIL")
    ctx.ob(rule, rule + ":FAIL->neither", not got, "a FAIL rule is inserted into %s" % sorted(map(str, got)), fn=f)
    got = set(c for s_, c in inserts if s_ is None)
    ctx.ob(rule, rule + ":no-unconditional-insert", not got, "a rule name is inserted without looking at its status", fn=f)
    ok = all(b["not_compliant"][1] == ("sym", "NOT_COMPLIANT") for b in built)
    ctx.ob(rule, rule + ":not_compliant-from-builder", ok, "not_compliant must be the builder's result for the root's children", fn=f)
    ok = all(b["status"][1][0] == "sym" and "arg1" in b["status"][1][1] for b in built)
    ctx.ob(rule, rule + ":file-status-is-FileCheck-status", ok, "FileReport.status must be copied from the FileCheck record: %s" % [ai.fmt_val(b["status"][1]) for b in built][:2], fn=f)
    # combine
    ck = FR + "::combine"
    cf = cr.fns.get(ck)
    if not cf:
        ctx.lost(rule, rule + ":combine", ck)
    else:
        calls = [(M.norm_path(t["fn"].get("path", "")), t) for bi, t in M.iter_calls(cf)]
        uses_and = any(p == "rules::Status::and" for p, t in calls)
        ext = [p for p, t in calls if p.endswith("::extend")]
        ctx.ob(rule, rule + ":combine:status-and", uses_and, "combine must fold the status with Status::and (C02 decides its table)", fn=cf)
        ctx.ob(rule, rule + ":combine:unions", len(ext) >= 4, "combine must extend not_compliant, compliant, not_applicable (and metadata): %s" % ext, fn=cf)
        # ... and nothing else: the combined record is the union of the per-rules-file partitions, so no entry is removed or rewritten
        from rules.c04 import receiver_field
        other = []
        for p, t in calls:
            if not t["args"]:
                continue
            fld = receiver_field(cr, cf, t["args"][0])
            meth = p.split("::")[-1]
            if fld in ("not_compliant", "compliant", "not_applicable") and meth not in ("extend",) and mutably(cf, t["args"][0]):
                other.append("%s.%s (l.%s)" % (fld, meth, t.get("ln")))
        # ... and each bucket receives the whole bucket of the same name of the other report: the operand of extend is that field itself
        # (possibly through into_iter / iter / cloned / drain), not a filtered, truncated or cross-wired sequence
        from rules.c08 import def_of_local
        WHOLE = ("std::iter::IntoIterator::into_iter", "std::iter::Iterator::cloned", "std::iter::Iterator::copied", "std::ops::Deref::deref",
                 "std::ops::DerefMut::deref_mut", "std::clone::Clone::clone")

        def whole_field(operand, depth=0):
            pl = M.op_place(operand)
            for _ in range(10):
                if pl is None:
                    return None
                if not isinstance(pl, int):
                    names = [pr[2] for pr in M.place_projs(pl) if isinstance(pr, list) and pr[0] == "f" and pr[2]]
                    if names:
                        return (M.place_local(pl), names[-1])
                    pl = M.place_local(pl)
                    continue
                d = def_of_local(cf, pl)
                if not d:
                    return None
                if d[0] == "call":
                    c = d[2]
                    cp, cd = M.norm_path(c["fn"].get("path", "")), M.norm_path(c["fn"].get("decl", ""))
                    if c["args"] and (cd in WHOLE or cp.split("::")[-1] in ("iter", "drain", "into_iter") and len(c["args"]) == 1):
                        pl = M.op_place(c["args"][0])
                        continue
                    return ("call", cp)
                rv = d[2]["rv"]
                pl = rv["p"] if rv["r"] == "ref" else M.op_place(rv["o"]) if rv["r"] == "use" else None
            return None
        for p, t in calls:
            if p.endswith("::extend") and len(t["args"]) == 2:
                fld = receiver_field(cr, cf, t["args"][0])
                if fld in ("not_compliant", "compliant", "not_applicable"):
                    src = whole_field(t["args"][1])
                    if not (src and src[1] == fld and src[0] != 1):
                        other.append("%s.extend(%s) (l.%s)" % (fld, "a sequence computed by %s" % src[1] if src and src[0] == "call" else "%s" % (src[1] if src else "?"), t.get("ln")))
        ctx.ob(rule, rule + ":combine:only-unions", not other, ("combine also applies %s: a rule reported by one rules file disappears from / moves between the buckets of the combined record" % other) if other
               else "the three buckets are only extended, each with the whole bucket of the same name", fn=cf)
    # the accumulator the structured reporter starts from must carry the identity of Status::and
    rk = "<commands::reporters::validate::structured::CommonStructuredReporter as commands::reporters::validate::structured::StructuredReporter>::report"
    rf = cr.fns.get(rk)
    if not rf:
        ctx.lost(rule, rule + ":accumulator", rk)
    else:
        vals = []

        class HA(ai.Hooks):
            def inline(self, a, st, k, fn):
                return k in ("<rules::eval_context::FileReport as std::default::Default>::default", "<rules::Status as std::default::Default>::default")

            def call(self, a, st, term, callee, args):
                if M.norm_path(callee.get("decl", "")) == "std::iter::Iterator::next" and term.get("to") is not None:
                    m = st.mon or Mon()
                    if m.get("n", 0) >= 1:
                        return [(("enum", ai.OPTION, 0, ()), m)]
                    return [(("enum", ai.OPTION, 1, (a.sym(st, a.site(st, ":it")),)), m.set(n=1)), (("enum", ai.OPTION, 0, ()), m)]
                return None

            def stmt(self, a, st, frame, s):
                rv = s.get("rv")
                if rv and rv.get("r") == "agg" and rv.get("adt") == FR and len(st.frames) == 1:
                    v = a.deep(st, a.read_place(st, frame, s["p"]))
                    vals.append(v[3][ffields.index("status")])
        a = ai.AI(cr, HA(), max_states=300000)
        try:
            a.run(rk, mon=Mon())
            ctx.states += a.n_states
            ok = bool(vals) and all(S.status_of(v) == 2 for v in vals)
            ctx.ob(rule, rule + ":accumulator-starts-at-SKIP", ok, "the per-file accumulator starts with status %s; Status::and needs its identity SKIP" % sorted(set(ai.fmt_val(v, cr) for v in vals)), fn=rf,
                   sample={"initial_status": sorted(set(ai.fmt_val(v, cr) for v in vals))})
        except ai.Undecided as e:
            ctx.ob(rule, rule + ":accumulator-starts-at-SKIP", False, "undecided %s" % e, fn=rf)


DESCEND = {"GuardClauseBlockCheck", "TypeBlock", "TypeCheck", "WhenCheck"}
FAIL_ONLY_CC = {"NoValueForEmptyCheck", "DependentRule", "MissingBlockValue"}
STATUS_CC = {"Unary", "Comparison", "InComparison"}


def builder(ctx, cr):
    rule = "R-C09-builder"
    f = cr.fns.get(BUILDER)
    if not f:
        ctx.lost(rule, rule + ":builder", BUILDER)
        return
    rtn, ccn, crn = names(cr, RT), names(cr, CC), names(cr, CR_)
    rows = {}          # (kind, status, cc) -> set of action tuples
    msg_rows = {}

    class H(ai.Hooks):
        def flush(self, mon):
            if mon.get("in_elem"):
                k = (mon.get("kind"), mon.get("status"), mon.get("cc"), mon.get("children_empty"))
                rows.setdefault(k, set()).add(tuple(mon.get("acts", ())))

        def call(self, a, st, term, callee, args):
            p = M.norm_path(callee.get("path", ""))
            decl = M.norm_path(callee.get("decl", ""))
            mon = st.mon or Mon()
            if decl == "std::iter::Iterator::next" and term.get("to") is not None and len(st.frames) == 1:
                ty, _ = M.place_ty(cr, None, term["dest"], st.top.body)
                item = ty.args()[0].strip_refs().adt_path() if ty is not None and ty.args() else None
                if item == EC + "EventRecord":
                    self.flush(mon)
                    base = mon.set(kind=None, status=None, cc=None, acts=(), children_empty=None)
                    return [(("enum", ai.OPTION, 1, (("ref", ("X", "ELEMCELL"), ()),)), base.set(in_elem=True)), (("enum", ai.OPTION, 0, ()), base.set(in_elem=False))]
                return None
            if callee.get("key") == BUILDER:
                return [(("sym", "REC"), mon)]
            if p == "std::vec::Vec::is_empty" and mon.get("in_elem"):
                return [(("bool", True), mon.set(children_empty=True)), (("bool", False), mon.set(children_empty=False))]
            if p == "std::vec::Vec::push" and len(args) == 2 and mon.get("in_elem"):
                v = a.deep(st, args[1])
                if v[0] == "enum" and v[1] == CR_:
                    desc = "REC" in repr(v)
                    acts = mon.get("acts", ())
                    if len(acts) < 4:
                        mon = mon.set(acts=acts + (("push", crn[v[2]], desc),))
                    msg_rows.setdefault((mon.get("kind"), mon.get("cc")), set()).add(custom_message_source(a, st, v))
                    return [(("tuple", ()), mon)]
            if p.endswith("::extend") and mon.get("in_elem") and len(args) == 2:
                v = a.resolve(st, args[1])
                acts = mon.get("acts", ())
                if len(acts) < 4:
                    mon = mon.set(acts=acts + (("extend", "REC" if v == ("sym", "REC") else "?", True),))
                return [(("tuple", ()), mon)]
            return None

        def constrained(self, a, st, sid, val):
            mon = st.mon or Mon()
            if not sid.startswith("ELEMCELL*") or val[0] != "enum":
                return
            if val[1] == RT and mon.get("kind") is None:
                st.mon = mon.set(kind=rtn[val[2]])
            elif val[1] == CC and mon.get("cc") is None:
                st.mon = mon.set(cc=ccn[val[2]])
            elif val[1] == S.STATUS and mon.get("status") is None:
                st.mon = mon.set(status=S.NAMES[val[2]])
            elif val[1] == ai.OPTION and mon.get("kind") is None and val[2] == 0 and sid.count("@") == 0:
                st.mon = mon.set(kind="<no container>")

        def inline(self, a, st, k, fn):
            it = fn.get("impl_trait", "")
            return it == "std::cmp::PartialEq" and cr.ty_adt(fn.get("impl_self")) == S.STATUS

        def ret(self, a, st, v):
            self.flush(st.mon or Mon())
    a = ai.AI(cr, H(), max_states=900000)
    try:
        a.run(BUILDER, mon=Mon())
    except ai.Undecided as e:
        ctx.ob(rule, rule + ":builder", False, "undecided %s" % e, fn=f)
        return
    ctx.states += a.n_states
    ctx.note_analysed("functions", BUILDER)

    def acts_for(kind, status=None, cc=None, ce=None):
        out = set()
        for (k, s_, c, e), acts in rows.items():
            if k == kind and (status is None or s_ == status) and (cc is None or c == cc) and (ce is None or e == ce):
                out |= acts
        return out
    # FAIL rule: exactly one Rule push that contains the recursion result, unconditionally
    got = acts_for("RuleCheck", "FAIL")
    ctx.ob(rule, rule + ":RuleCheck:FAIL", got == {(("push", "Rule", True),)},
           "a FAIL rule must be listed exactly once with the checks of its children, whatever they are: %s" % sorted(got), fn=f, sample={"record": "RuleCheck FAIL", "actions": sorted(map(str, got))})
    for stt in ("PASS", "SKIP"):
        got = acts_for("RuleCheck", stt)
        ctx.ob(rule, "%s:RuleCheck:%s" % (rule, stt), got <= {()}, "a %s rule must not be listed nor descended into: %s" % (stt, sorted(got)), fn=f)
    got = acts_for("Disjunction", "FAIL")
    ctx.ob(rule, rule + ":Disjunction:FAIL", got == {(("push", "Disjunctions", True),)}, "got %s" % sorted(got), fn=f)
    got_e = acts_for("BlockGuardCheck", "FAIL", ce=True)
    got_n = acts_for("BlockGuardCheck", "FAIL", ce=False)
    ctx.ob(rule, rule + ":BlockGuardCheck:FAIL", got_e == {(("push", "Block", False),)} and got_n == {(("extend", "REC", True),)},
           "no children => one Block entry, else descend: empty=%s non-empty=%s" % (sorted(got_e), sorted(got_n)), fn=f)
    for k in sorted(DESCEND):
        got = acts_for(k, "FAIL")
        ctx.ob(rule, "%s:%s:FAIL" % (rule, k), got == {(("extend", "REC", True),)}, "a FAIL %s must be descended into: %s" % (k, sorted(got)), fn=f)
    for k in sorted(DESCEND | {"BlockGuardCheck", "Disjunction"}):
        for stt in ("PASS", "SKIP"):
            got = acts_for(k, stt)
            ctx.ob(rule, "%s:%s:%s" % (rule, k, stt), got <= {()}, "a %s %s must not contribute failed checks: %s" % (stt, k, sorted(got)), fn=f,
                   sample={"record": "%s %s" % (k, stt), "actions": sorted(map(str, got))} if (k, stt) == ("GuardClauseBlockCheck", "PASS") else None)
    for k in ("FileCheck", "RuleCondition", "TypeCondition", "WhenCondition", "Filter", "<no container>"):
        got = acts_for(k)
        ctx.ob(rule, "%s:%s" % (rule, k), got <= {()}, "%s records must not contribute: %s" % (k, sorted(got)), fn=f)
    got = acts_for("ClauseValueCheck", cc="Success")
    ctx.ob(rule, rule + ":ClauseValueCheck:Success", got <= {()}, "a successful value check must not be listed: %s" % sorted(got), fn=f)
    for c in sorted(FAIL_ONLY_CC):
        got = acts_for("ClauseValueCheck", cc=c)
        ok = bool(got) and all(len(x) == 1 and x[0][0] == "push" for x in got)
        ctx.ob(rule, "%s:ClauseValueCheck:%s" % (rule, c), ok, "a %s check is listed exactly once: %s" % (c, sorted(got)), fn=f)
    for c in sorted(STATUS_CC):
        got = acts_for("ClauseValueCheck", "FAIL", cc=c)
        ok = bool(got) and all(len(x) <= 1 and all(y[0] == "push" for y in x) for x in got) and any(len(x) == 1 for x in got)
        ctx.ob(rule, "%s:ClauseValueCheck:%s:FAIL" % (rule, c), ok, "a FAIL %s check is listed (once): %s" % (c, sorted(got)), fn=f)
        for stt in ("PASS", "SKIP"):
            got = acts_for("ClauseValueCheck", stt, cc=c)
            ctx.ob(rule, "%s:ClauseValueCheck:%s:%s" % (rule, c, stt), got <= {()}, "a %s %s check must not be listed: %s" % (stt, c, sorted(got)), fn=f)
    # writer/reader agreement: every status-carrying RecordType variant the evaluator constructs is handled above
    constructed = set()
    for k, fx in cr.fns.items():
        if not (k.startswith("rules::eval::") or k.startswith("rules::eval_context::")):
            continue
        for bi, si, s in M.iter_stmts(fx):
            rv = s.get("rv")
            if rv and rv.get("r") == "agg" and rv.get("adt") == RT:
                constructed.add(rv["vn"])
    handled = DESCEND | {"RuleCheck", "Disjunction", "BlockGuardCheck", "ClauseValueCheck", "FileCheck", "RuleCondition", "TypeCondition", "WhenCondition", "Filter"}
    ctx.note_analysed("record_variants_constructed", sorted(constructed))
    ctx.ob(rule, rule + ":emitted-variants-handled", constructed <= handled and len(constructed) >= 10,
           "record variants emitted by the evaluator but unknown to the report builder's table: %s" % sorted(constructed - handled), fn=f)
    # failure-only clause variants are constructed with FAIL
    bad = []
    n = 0
    for k, fx in cr.fns.items():
        if not k.startswith("rules::eval"):
            continue
        for bi, si, s in M.iter_stmts(fx):
            rv = s.get("rv")
            if rv and rv.get("r") == "agg" and rv.get("adt") in ("rules::MissingValueCheck", "rules::ValueCheck", "rules::ComparisonClauseCheck", "rules::InComparisonCheck"):
                a_ = cr.adts[rv["adt"]]
                fl = [x["name"] for x in a_["variants"][0]["fields"]]
                if "status" in fl and rv["adt"] == "rules::MissingValueCheck":
                    n += 1
                    o = rv["ops"][fl.index("status")]
                    if not const_status_is(cr, fx, o, 1):
                        bad.append("%s line %s" % (k, s.get("ln")))
    ctx.ob(rule, rule + ":DependentRule-built-with-FAIL", not bad and n >= 1, "MissingValueCheck constructed with a status other than the constant FAIL at %s" % bad[:3] if bad else "%d constructions" % n)
    # custom messages
    mrule = "R-C09-custom-message"
    for (kind, cc), srcs in sorted(msg_rows.items(), key=str):
        if kind == "BlockGuardCheck":
            continue    # "query did not retrieve any value": the block clause has no custom message field
        ok = all(x in ("record", "none", "const-default") for x in srcs) and ("record" in srcs or srcs == {"none"})
        ctx.ob(mrule, "%s:%s:%s" % (mrule, kind, cc), ok, "custom_message of the listed entry comes from %s (must come from the matched record)" % sorted(srcs), fn=f,
               sample={"record": [kind, cc], "custom_message_from": sorted(srcs)} if cc == "Unary" else None)


def const_status_is(cr, f, operand, idx):
    from rules.c08 import def_of_local
    pl = M.op_place(operand)
    if pl is None:
        return False
    if isinstance(pl, int):
        d = def_of_local(f, pl)
        if d and d[0] == "stmt" and d[2]["rv"]["r"] == "agg" and d[2]["rv"].get("adt") == S.STATUS:
            return d[2]["rv"]["vi"] == idx
    return False


def custom_message_source(a, st, v):
    """where the Messages.custom_message of a pushed ClauseReport comes from: 'record' (derived from the element), or other"""
    found = []

    def walk(x, depth=0):
        if depth > 10 or not isinstance(x, tuple):
            return
        if x and x[0] == "enum" and x[1] == EC + "Messages":
            found.append(x[3][0])
            return
        for y in x:
            if isinstance(y, tuple):
                walk(y, depth + 1)
    walk(v)
    if not found:
        return "none"
    cm = found[0]
    r = repr(cm)
    if "ELEMCELL" in r:
        return "record"
    # values produced by opaque calls: look at what the call was given
    deps = getattr(a, "deps", {})
    stack = [s for s in _syms(cm)]
    seen = set()
    while stack:
        sid = stack.pop()
        if sid in seen:
            continue
        seen.add(sid)
        if "ELEMCELL" in sid:
            return "record"
        stack.extend(deps.get(sid, ()))
        # a value derived from (a field / variant payload / pointee of) an unknown depends on what that unknown depends on
        for i, ch in enumerate(sid):
            if ch in "@*[" or (ch == "." and i > 0 and sid[i - 1].isalnum() and sid[i + 1:i + 2].isdigit() and ":call" in sid[:i]):
                stack.append(sid[:i])
    if all(not d.startswith("arg") for d in seen):
        return "const-default"      # no dependence on any input: the default used when the record has no custom message
    return "other:" + ai.fmt_val(cm)[:40]


def _syms(v, acc=None, depth=0):
    acc = acc if acc is not None else []
    if depth > 10 or not isinstance(v, tuple):
        return acc
    if v and v[0] == "sym":
        acc.append(v[1])
        return acc
    for x in v:
        if isinstance(x, tuple):
            _syms(x, acc, depth + 1)
    return acc


def mutably(f, operand):
    from rules.c17 import mut_borrowed
    return mut_borrowed(f, operand)


def every_rules_file_kept(ctx):
    """`reports for several rules files are the union of the individual reports` needs every rules file that was read to reach the
    evaluation: the fold in get_rule_info pushes the item exactly once on every path on which the read succeeded (no filtering,
    de-duplication or early exit), and returns the error otherwise"""
    rule = "R-C09-partition"
    cr = ctx.bin
    key = "commands::validate::get_rule_info"
    f = cr.fns.get(key)
    if not f:
        ctx.lost(rule, rule + ":every-rules-file-kept", key)
    else:
        rets = []

        class H(ai.Hooks):
            """runs get_rule_info itself; a try_fold/fold closure is interpreted as the loop it stands for (engine model), so the rule does
            not depend on whether the per-file step is written as a closure or as a `for` body"""

            def inline(self, a, st, k, fn):
                return k.startswith(key + "::{closure")

            def ret(self, a, st, v):
                rets.append((v, st.mon or Mon()))

            def call(self, a, st, term, callee, args):
                p = M.norm_path(callee.get("path", ""))
                decl = M.norm_path(callee.get("decl", ""))
                mon = st.mon or Mon()
                if decl == "std::iter::Iterator::next" and term.get("to") is not None:
                    if mon.get("taken"):
                        return [(("enum", ai.OPTION, 0, ()), mon)]
                    return [(("enum", ai.OPTION, 1, (("enum", ai.RESULT, 0, (("sym", "FILE"),)),)), mon.set(taken=True, item="ok")),
                            (("enum", ai.OPTION, 1, (("enum", ai.RESULT, 1, (("sym", "READ_ERR"),)),)), mon.set(taken=True, item="err")),
                            (("enum", ai.OPTION, 0, ()), mon)]
                if p == "std::vec::Vec::push":
                    return [(("tuple", ()), mon.set(pushes=mon.get("pushes", 0) + 1, pushed=ai.fmt_val(a.resolve(st, args[1]))[:60]))]
                if p.endswith("Writer::write_err"):
                    return [(("enum", ai.RESULT, 0, (("tuple", ()),)), mon.set(reported=True)), (("enum", ai.RESULT, 1, (("sym", "IOERR"),)), mon.set(reported=True))]
                return None
        a = ai.AI(cr, H())
        try:
            a.run(key, mon=Mon())
            ctx.states += a.n_states
            bad = []
            n_ok = 0
            for v, mon in rets:
                is_ok = v[0] == "enum" and v[1] == ai.RESULT and v[2] == 0
                if mon.get("item") == "ok":
                    n_ok += 1
                    if not is_ok:
                        bad.append("a rules file that was read successfully makes the fold return an error")
                    elif mon.get("pushes", 0) != 1 or "FILE" not in str(mon.get("pushed")):
                        bad.append("a rules file that was read successfully is pushed %d times (%s): it is dropped / duplicated before evaluation" % (mon.get("pushes", 0), mon.get("pushed")))
                elif mon.get("item") == "err" and is_ok:
                    bad.append("a read error is swallowed (the fold continues with Ok)")
            ctx.ob(rule, rule + ":every-rules-file-kept", not bad and n_ok >= 1, "; ".join(sorted(set(bad))[:2]) or "%d success paths, each pushes the item once" % n_ok, fn=f)
        except ai.Undecided as e:
            ctx.ob(rule, rule + ":every-rules-file-kept", False, "undecided %s" % e, fn=f)
    # the structured evaluator collects its rules files and its (parameter-merged) data files with two folds of its own: same obligation —
    # one push per element, except that a rules file that does not parse (Err, reported) or is empty (Ok(None)) is not collected
    SE = "commands::reporters::validate::structured::StructuredEvaluator::evaluate"
    f = cr.fns.get(SE)
    if not f:
        ctx.lost(rule, rule + ":structured-every-file-kept", SE)
    else:
        rets = []

        class HS(ai.Hooks):
            lazy_pipes = True

            def inline(self, a, st, k, fn):
                return k.startswith(SE + "::{closure")

            def ret(self, a, st, v):
                rets.append((v, st.mon or Mon()))

            def call(self, a, st, term, callee, args):
                p = M.norm_path(callee.get("path", ""))
                decl = M.norm_path(callee.get("decl", ""))
                mon = st.mon or Mon()
                if decl == "std::iter::Iterator::next" and term.get("to") is not None:
                    it = a.resolve(st, args[0])
                    if it[0] == "ref":
                        it = a.resolve(st, a.read_at(st, it[1], it[2]))
                    if ai.is_pipe(it):
                        return None
                    # a loop is identified by its source iterator (named by the site that created it); a push belongs to the loop
                    # whose element was handed out last
                    lp = it[1] if it[0] == "sym" else a.site(st)
                    if mon.get("taken:" + lp):
                        return [(("enum", ai.OPTION, 0, ()), mon)]
                    return [(("enum", ai.OPTION, 1, (a.sym(st, "ITEM:" + lp),)), mon.set(cur=lp, **{"taken:" + lp: True})), (("enum", ai.OPTION, 0, ()), mon)]
                if p.endswith("validate::parse_rules"):
                    lp = mon.get("cur") or "body"
                    return [(("enum", ai.RESULT, 0, (("enum", ai.OPTION, 1, (("sym", "RULES"),)),)), mon.set(parsed="some", rules_loop=lp)),
                            (("enum", ai.RESULT, 0, (("enum", ai.OPTION, 0, ()),)), mon.set(parsed="none", rules_loop=lp)),
                            (("enum", ai.RESULT, 1, (("sym", "PARSE_ERR"),)), mon.set(parsed="err", rules_loop=lp))]
                if p == "std::vec::Vec::push":
                    lp = mon.get("cur") or "body"
                    return [(("tuple", ()), mon.set(**{"pushes:" + lp: mon.get("pushes:" + lp, 0) + 1}))]
                if p.endswith("Writer::write_err"):
                    return [(("enum", ai.RESULT, 0, (("tuple", ()),)), mon), (("enum", ai.RESULT, 1, (("sym", "IOERR"),)), mon)]
                if decl.endswith("StructuredReporter::report"):
                    return [(("enum", ai.RESULT, 0, (("sym", "CODE"),)), mon.set(reported=True))]
                return None
        a = ai.AI(cr, HS(), max_states=600000)
        try:
            a.run(SE, mon=Mon())
            ctx.states += a.n_states
            bad, n_rules, n_data = [], 0, 0
            for v, mon in rets:
                if not mon.get("reported"):
                    continue        # error exits before the report
                for k in [k for k in mon.d if k.startswith("taken:")]:
                    lp = k[6:]
                    pushes = mon.get("pushes:" + lp, 0)
                    if lp == mon.get("rules_loop"):
                        want = 1 if mon.get("parsed") == "some" else 0
                        n_rules += 1
                        if pushes != want:
                            bad.append("a rules file whose parse result is %s is collected %d times (expected %d): it is dropped / duplicated before the report" % (mon.get("parsed"), pushes, want))
                    else:
                        n_data += 1
                        if pushes != 1:
                            bad.append("a data file is collected %d times before the report" % pushes)
            ctx.ob(rule, rule + ":structured-every-file-kept", not bad and n_rules >= 1 and n_data >= 1, "; ".join(sorted(set(bad))[:2]) or "%d rules-file and %d data-file paths, each collected exactly once" % (n_rules, n_data), fn=f)
        except ai.Undecided as e:
            ctx.ob(rule, rule + ":structured-every-file-kept", False, "undecided %s" % e, fn=f)
    # ... and nothing removes entries from the collected lists of rules files / data files in Validate::execute
    EX = "<commands::validate::Validate as commands::Executable>::execute"
    removers = ("dedup", "dedup_by", "dedup_by_key", "retain", "retain_mut", "remove", "swap_remove", "truncate", "drain", "pop", "clear", "split_off")
    hits = []
    n_push = 0
    if EX not in cr.fns:
        ctx.lost(rule, rule + ":no-file-dropped", EX)
        return
    for k in flow.unit_functions(cr, EX, ("commands::validate::",)):
        f = cr.fns[k]
        for bi, t in M.iter_calls(f):
            p = M.norm_path(t["fn"].get("path", ""))
            if p.startswith("std::vec::Vec::") and p.split("::")[-1] in removers:
                hits.append("%s (l.%s)" % (p.split("::")[-1], t.get("ln")))
            if p.startswith("std::vec::Vec::") and p.split("::")[-1] in ("push", "extend", "append"):
                n_push += 1
    ctx.ob(rule, rule + ":no-file-dropped", not hits and n_push >= 1, ("Validate::execute applies %s to a collected list: a rules / data file that was named on the command line is silently not evaluated" % hits) if hits
           else "the lists of rules and data files are only extended (%d push/extend sites, no removal)" % n_push, fn=cr.fns[EX])


def failed_values_only(ctx, cr):
    """every check listed under a failed query-vs-query comparison did fail: binary_operation emits one FAIL InComparisonCheck per element
    of the comparison's DIFFERENCE list (the left-hand values that were not matched), not per left-hand value — iterating `lhs` there lists
    values that passed among the failures."""
    from rules.c14 import const_of
    from rules.c04 import receiver_field
    from rules.c08 import def_of_local
    rule = "R-C09-builder"
    key = "rules::eval::binary_operation"
    f = cr.fns.get(key)
    if not f:
        ctx.lost(rule, rule + ":binary-operation:failed-values", key)
        return
    dom = flow.dominators(f)
    nexts = [bi for bi, t in M.iter_calls(f) if M.norm_path(t["fn"].get("decl", "")) == "std::iter::Iterator::next"]
    loops = [(len(flow.natural_loop(f, h, dom)), h) for h in nexts]
    found, bad = 0, []
    for size, h in sorted(loops):
        body = flow.natural_loop(f, h, dom)
        inner = [h2 for s2, h2 in loops if h2 != h and h2 in body]
        t = f["blocks"][h]["term"]
        pl, src = M.op_place(t["args"][0]) if t["args"] else None, None
        for _ in range(6):
            if pl is None:
                break
            if not isinstance(pl, int):
                pl = M.place_local(pl)
                continue
            d = def_of_local(f, pl)
            if not d:
                break
            if d[0] == "call":
                src = receiver_field(cr, f, d[2]["args"][0]) if d[2]["args"] else None
                break
            rv = d[2]["rv"]
            pl = rv["p"] if rv["r"] == "ref" else M.op_place(rv.get("o", {}))
        if src not in ("diff", "lhs", "rhs"):
            continue        # not a loop over a field of a QueryIn / ListIn comparison
        statuses = set()
        for bi, si, st in M.iter_stmts(f):
            rv = st.get("rv")
            if bi in body and not any(bi in flow.natural_loop(f, h2, dom) for h2 in inner) and rv and rv.get("r") == "agg" and str(rv.get("adt", "")).endswith("InComparisonCheck"):
                fl = [x["name"] for x in cr.adts[rv["adt"]]["variants"][0]["fields"]]
                c = const_of(f, rv["ops"][fl.index("status")])
                statuses.add(c[1] if c else "?")
        if "Status::FAIL" not in statuses:
            # the record may be built by a private helper of the file that the loop body calls
            for bi, t2 in M.iter_calls(f):
                callee = cr.fns.get(t2["fn"].get("key", "")) if t2["fn"].get("local") else None
                if bi in body and callee is not None and ai.is_private_fn(callee) and callee.get("file") == f.get("file"):
                    for b2, s2, st2 in M.iter_stmts(callee):
                        rv2 = st2.get("rv")
                        if rv2 and rv2.get("r") == "agg" and str(rv2.get("adt", "")).endswith("InComparisonCheck"):
                            fl2 = [x["name"] for x in cr.adts[rv2["adt"]]["variants"][0]["fields"]]
                            c2 = const_of(callee, rv2["ops"][fl2.index("status")])
                            statuses.add(c2[1] if c2 else "?")
        if "Status::FAIL" in statuses:
            found += 1
            if src != "diff":
                bad.append("FAIL checks are emitted per element of `%s` (l.%s)" % (src, t.get("ln")))
    ctx.ob(rule, rule + ":binary-operation:failed-values", found >= 1 and not bad, "; ".join(bad) + ": values that matched are listed among the failed checks" if bad
           else "%d loop(s) emitting FAIL checks, each over the comparison's difference list" % found, fn=f)


def run(ctx):
    cr = ctx.lib
    failed_values_only(ctx, cr)
    partition(ctx, cr)
    builder(ctx, cr)
    every_rules_file_kept(ctx)
    ctx.assumptions += [
        "rule names are distinct (the property's quantifier); two rules sharing a name share one set entry",
        "the evaluation record handed to the builder is the one produced by the evaluator (C02 decides its shape)",
    ]

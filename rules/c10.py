"""C10 — reported paths, values and source positions point into the input document (structural clauses; DESIGN §5 C10).

Positions come from libyaml marks at run time and pointers from the shape of the document: the behavioural statement is NOT
claimed.  Decided necessary conditions:
  R-C10-path-construction  in both document loaders a list child's path is parent/<i> with i the enumeration index of that child,
                           a map child's path is parent/<k> with k the key it is stored under, children are converted with that
                           path, and scalars keep the incoming path; Path values are only built by Path's own constructors
  R-C10-locations          libyaml marks map line->line, column->col; with_location replaces only the location; every value is
                           located at its own mark (list elements and map values at the value's mark, map keys at the key's mark)
  R-C10-text-as-read       the text handed to a document parser (libyaml Loader::load, serde_json/serde_yaml from_str, and the
                           repo's own read_from / build_data_file / deserialize_payload wrappers) is the text as it was read: on the
                           backward data slice of that argument, inside the calling function, only copying operations and the
                           reads themselves occur — positions and values are those of the input, not of a rewritten text
  R-C10-unresolved-point   every UnResolved built during query retrieval (to_unresolved_result / to_unresolved_value / the aggregate in
                           retrieve_index) names as "traversed to" a clone of the value that very function is traversing — its own
                           Rc<PathAwareValue> parameter — and nothing obtained from another query result (sibling agreement, 13 sites)
  R-C10-reported-value     the conversion of a value for machine-readable reports hands Int / Float to serde_json's i64 / f64 constructors
                           without a numeric cast (no saturation or rounding of the reported number)
                           (R-C10-path-construction also: no list element / map entry of the loaded document is skipped by the conversion loops)
  R-C10-path-primitives    extend_str appends '/' + part to the parent's pointer and keeps the location; extend_usize /
                           extend_string delegate to it
"""
from engine import ai, flow, mirlib as M
from engine.statusmon import Mon

LEVEL = "other"
PV = "rules::path_value::"
PAV = PV + "PathAwareValue"
MV = "rules::values::MarkedValue"
VAL = "rules::values::Value"
K_MARKED = "<rules::path_value::PathAwareValue as std::convert::TryFrom<(rules::values::MarkedValue,rules::path_value::Path)>>::try_from"
K_VALUE = "<rules::path_value::PathAwareValue as std::convert::TryFrom<(&rules::values::Value,rules::path_value::Path)>>::try_from"


def T(*xs):
    return ("tuple", tuple(xs))


class LoaderHooks(ai.Hooks):
    """symbolic path algebra: EXT(parent, part), WL(path, loc)"""

    def __init__(self, cr, key, marked):
        self.cr = cr
        self.key = key
        self.marked = marked
        self.rec = []        # (container kind, child value, child path) at recursive conversions
        self.inserts = []    # (key used for insertion, mon)
        self.keyrecs = []    # PathAwareValue::String pushed into keys
        self.rets = []

    def call(self, a, st, term, callee, args):
        k = callee.get("key", "")
        p = M.norm_path(callee.get("path", ""))
        decl = M.norm_path(callee.get("decl", ""))
        mon = st.mon or Mon()
        if k == PV + "Path::extend_usize" or k == PV + "Path::extend_string" or k == PV + "Path::extend_str":
            return [(T(("str", "EXT"), a.deref_val(st, args[0]), a.deref_val(st, args[1])), mon)]
        if k == PV + "Path::with_location":
            return [(T(("str", "WL"), a.deref_val(st, args[0]), a.resolve(st, args[1])), mon)]
        if k == "rules::values::MarkedValue::location":
            v = a.deref_val(st, args[0])
            return [(("ref", ("X", "LOCOF:" + ai.fmt_val(v)), ()), mon)]
        if k == self.key and term.get("to") is not None:
            tup = a.deep(st, args[0])
            self.rec.append((mon.get("container"), tup))
            return [(("enum", ai.RESULT, 0, (("sym", "CHILD"),)), mon), (("enum", ai.RESULT, 1, (("sym", "CHILD_ERR"),)), mon)]
        if decl == "std::iter::Iterator::next" and term.get("to") is not None:
            selfs = self.cr.ty_str(callee["self"]) if "self" in callee else ""
            if mon.get("it", 0) >= 1 and mon.get("iter") == selfs:
                return [(("enum", ai.OPTION, 0, ()), mon)]
            if "Enumerate" in selfs:
                return [(("enum", ai.OPTION, 1, (T(("sym", "IDX"), ("sym", "EACH")),)), mon.set(it=1, iter=selfs, container="List")), (("enum", ai.OPTION, 0, ()), mon)]
            if "Keys" in selfs:
                return [(("enum", ai.OPTION, 1, (("sym", "KEYONLY"),)), mon.set(it=1, iter=selfs, container="MapKeys")), (("enum", ai.OPTION, 0, ()), mon)]
            if self.marked:
                item = T(T(("sym", "KEY"), ("sym", "KEYLOC")), ("sym", "EACHV"))
            else:
                item = T(("sym", "KEY"), ("sym", "EACHV"))
            return [(("enum", ai.OPTION, 1, (item,)), mon.set(it=1, iter=selfs, container="Map")), (("enum", ai.OPTION, 0, ()), mon)]
        if p.endswith("IndexMap::insert") and len(args) >= 3:
            self.inserts.append((a.deep(st, args[1]), a.deep(st, args[2])))
            return [(("sym", "OLD"), mon)]
        if decl in ("std::borrow::ToOwned::to_owned", "std::string::ToString::to_string", "std::clone::Clone::clone") and args:
            v = a.deref_val(st, args[0])
            if v is not None and v[0] in ("sym", "tuple"):
                return [(v, mon)]
        if p == "std::vec::Vec::push" and len(args) == 2:
            v = a.deep(st, args[1])
            if v[0] == "enum" and v[1] == PAV:
                self.keyrecs.append((mon.get("container"), v))
            return [(("tuple", ()), mon)]
        return None

    def ret(self, a, st, v):
        self.rets.append((a.deep(st, v), st.mon or Mon(), dict(st.cons)))


def loaders(ctx, cr):
    rule = "R-C10-path-construction"
    lrule = "R-C10-locations"
    for key, marked, label in ((K_MARKED, True, "libyaml"), (K_VALUE, False, "serde/literal")):
        f = cr.fns.get(key)
        if not f:
            ctx.lost(rule, "%s:%s" % (rule, label), key)
            continue
        h = LoaderHooks(cr, key, marked)
        a = ai.AI(cr, h, max_states=400000)
        a.pinned = ("arg1.0", "arg1.0*")
        try:
            a.run(key, mon=Mon())
        except ai.Undecided as e:
            ctx.ob(rule, "%s:%s" % (rule, label), False, "undecided %s" % e, fn=f)
            continue
        ctx.states += a.n_states
        ctx.note_analysed("functions", key)
        PATH = ("sym", "arg1.1")
        # children
        lists = [t for c, t in h.rec if c == "List"]
        maps = [t for c, t in h.rec if c == "Map"]
        bad = []
        for t in lists:
            child, path = t[1][0], t[1][1]
            base = path[1][1] if (path[0] == "tuple" and path[1][0] == ("str", "WL")) else path
            if child != ("sym", "EACH") and not (child[0] == "ref"):
                bad.append("list conversion of %s instead of the enumerated element" % ai.fmt_val(child))
            if not (base[0] == "tuple" and base[1][0] == ("str", "EXT") and base[1][1] == PATH and base[1][2] == ("sym", "IDX")):
                bad.append("list child path is %s, expected parent/<enumeration index>" % ai.fmt_val(base))
            if marked:
                if not (path[0] == "tuple" and path[1][0] == ("str", "WL") and "LOCOF:?EACH" in repr(path[1][2])):
                    ctx.ob(lrule, "%s:%s:list-element" % (lrule, label), False, "list element is located at %s, expected its own mark" % ai.fmt_val(path[1][2] if path[0] == "tuple" else path), fn=f)
        ctx.ob(rule, "%s:%s:list-children" % (rule, label), not bad and bool(lists), "; ".join(sorted(set(bad))[:2]) or "child i of a list is converted with path parent/i", fn=f,
               sample={"loader": label, "child_path": "EXT(parent, enumerate index)"})
        if marked and lists:
            ok = all(t[1][1][0] == "tuple" and t[1][1][1][0] == ("str", "WL") and "LOCOF:?EACH" in repr(t[1][1][1][2]) for t in lists)
            ctx.ob(lrule, "%s:%s:list-element" % (lrule, label), ok, "list elements must be located at their own mark", fn=f)
        bad = []
        for t in maps:
            child, path = t[1][0], t[1][1]
            base = path[1][1] if (path[0] == "tuple" and path[1][0] == ("str", "WL")) else path
            if child != ("sym", "EACHV") and child[0] != "ref":
                bad.append("map conversion of %s instead of the entry's value" % ai.fmt_val(child))
            if not (base[0] == "tuple" and base[1][0] == ("str", "EXT") and base[1][1] == PATH and base[1][2] in (("sym", "KEY"), ("sym", "KEY*"))):
                bad.append("map child path is %s, expected parent/<its key>" % ai.fmt_val(base))
        ins_keys = set((("sym", "KEY") if k == ("sym", "KEY*") else k) for k, v in h.inserts)
        if ins_keys != {("sym", "KEY")}:
            bad.append("children are stored under %s, expected the same key that extends the path" % sorted(map(ai.fmt_val, ins_keys)))
        if any(v != ("sym", "CHILD") for k, v in h.inserts):
            bad.append("a value other than the converted child is stored")
        ctx.ob(rule, "%s:%s:map-children" % (rule, label), not bad and bool(maps), "; ".join(sorted(set(bad))[:2]) or "the value under key k is converted with path parent/k and stored under k", fn=f)
        if marked and maps:
            ok = all(t[1][1][0] == "tuple" and t[1][1][1][0] == ("str", "WL") and "LOCOF:?EACHV" in repr(t[1][1][1][2]) for t in maps)
            ctx.ob(lrule, "%s:%s:map-value" % (lrule, label), ok, "map values must be located at the value's own mark (not the key's): %s" % [ai.fmt_val(t[1][1])[:80] for t in maps][:1], fn=f)
            kr = [v for c, v in h.keyrecs if c == "Map"]
            ok = bool(kr) and all("KEYLOC" in repr(v) and "'KEY'" in repr(v) for v in kr)
            ctx.ob(lrule, "%s:%s:map-key" % (lrule, label), ok, "map key records must carry the key and the key's mark", fn=f)
        # scalars keep the incoming path (and, for libyaml, their own mark)
        src = MV if marked else VAL
        sn = [v["name"] for v in cr.adts[src]["variants"]]
        bad = []
        n = 0
        for v, mon, cons in h.rets:
            if not (v[0] == "enum" and v[1] == ai.RESULT and v[2] == 0 and v[3][0][0] == "enum" and v[3][0][1] == PAV):
                continue
            root = None
            for sid, val in cons.items():
                if val[0] == "enum" and val[1] == src and sid.startswith("arg1.0"):
                    root = (sid, sn[val[2]], val)
            if root is None or root[1] in ("List", "Map", "BadValue"):
                continue
            n += 1
            payload = v[3][0][3][0]
            if payload[0] == "tuple" and payload[1] and payload[1][0] in (("str", "WL"), ("str", "EXT")):
                pth = payload
            else:
                pth = payload[1][0] if payload[0] == "tuple" else payload
            if marked:
                okp = pth[0] == "tuple" and pth[1][0] == ("str", "WL") and pth[1][1] == PATH and pth[1][2][0] == "sym" and pth[1][2][1].startswith(root[0] + "@")
                if not okp:
                    bad.append("%s scalar gets path %s, expected WL(incoming path, its own mark)" % (root[1], ai.fmt_val(pth)[:80]))
            else:
                if pth != PATH:
                    bad.append("%s scalar gets path %s, expected the incoming path" % (root[1], ai.fmt_val(pth)[:60]))
        ctx.ob(rule, "%s:%s:scalars" % (rule, label), not bad and n >= 8, "; ".join(sorted(set(bad))[:2]) or "%d scalar kinds keep the incoming path%s" % (n, " and take their own mark" if marked else ""), fn=f)
    # Path(..) is built only by Path's own constructors
    builders = set()
    for k, f in cr.fns.items():
        for bi, si, s in M.iter_stmts(f):
            rv = s.get("rv")
            if rv and rv.get("r") == "agg" and rv.get("adt") == PV + "Path":
                builders.add(k)
    outside = [b for b in builders if not (b.startswith(PV + "Path::") or b.startswith("<" + PV + "Path as ") or "_serde" in b or "Deserialize" in b or "Clone" in b)]
    ctx.ob(rule, rule + ":Path-built-only-by-Path", not outside and len(builders) >= 4, "Path values constructed outside impl Path: %s" % outside if outside else "constructors: %s" % sorted(b.split("::")[-1] for b in builders))


def primitives(ctx, cr):
    rule = "R-C10-path-primitives"
    lrule = "R-C10-locations"
    # with_location: keeps .0, replaces .1
    for name, check in (("Path::with_location", "wl"), ("Path::extend_str", "ext")):
        key = PV + name
        f = cr.fns.get(key)
        if not f:
            ctx.lost(rule, "%s:%s" % (rule, name), key)
            continue
        rets = []
        pushes = []

        class H(ai.Hooks):
            def call(self, a, st, term, callee, args):
                p = M.norm_path(callee.get("path", ""))
                d = M.norm_path(callee.get("decl", ""))
                if d == "std::clone::Clone::clone" and args:
                    v = a.deref_val(st, args[0])
                    return [(T(("str", "CLONE"), v), st.mon)]
                if p == "std::string::String::push" and len(args) == 2:
                    pushes.append(("push", a.resolve(st, args[1])))
                    return [(("tuple", ()), st.mon)]
                if p == "std::string::String::push_str" and len(args) == 2:
                    pushes.append(("push_str", a.deref_val(st, args[1])))
                    return [(("tuple", ()), st.mon)]
                return None

            def ret(self, a, st, v):
                rets.append(a.deep(st, v))
        a = ai.AI(cr, H())
        a.run(key, args=[("ref", ("X", "SELF"), ()), ("sym", "ARG")], ext={"SELF": ("enum", PV + "Path", 0, (("sym", "PTR"), ("sym", "LOC")))})
        if check == "wl":
            ok = bool(rets) and all(v[0] == "enum" and v[3][0] == T(("str", "CLONE"), ("sym", "PTR")) and v[3][1] == ("sym", "ARG") for v in rets)
            ctx.ob(lrule, lrule + ":with_location", ok, "with_location must keep the pointer and replace only the location: %s" % [ai.fmt_val(v, cr)[:80] for v in rets][:1], fn=f)
        else:
            seq = [(k, (v[1] if v and v[0] in ("chr", "str", "sym") else v)) for k, v in pushes]
            keeps_loc = bool(rets) and all(v[0] == "enum" and v[3][1] == ("sym", "LOC") for v in rets)
            # either a copy of the pointer followed by '/' and the part, or a fresh buffer filled with pointer, '/', part
            body_ = [(k, str(v).rstrip("*")) for k, v in seq]
            has_ptr = any("PTR" in ai.fmt_val(v[3][0]) for v in rets if v[0] == "enum" and v[3])
            if body_[:1] == [("push_str", "PTR")]:
                body_ = body_[1:]
                has_ptr = True
            ok = keeps_loc and has_ptr and len(body_) == 2 and body_[0][1] == "/" and body_[1] == ("push_str", "ARG")
            ctx.ob(rule, rule + ":extend_str", ok, "extend_str must append '/' then the part to a copy of the parent's pointer and keep the location: pushes %s" % seq, fn=f,
                   sample={"appends": [str(x) for x in seq]})
    for name in ("Path::extend_string", "Path::extend_usize"):
        f = cr.fns.get(PV + name)
        if not f:
            ctx.lost(rule, "%s:%s" % (rule, name), PV + name)
            continue
        callees = [t["fn"].get("key", "") for bi, t in M.iter_calls(f)]
        ok = any(c in (PV + "Path::extend_str", PV + "Path::extend_string") for c in callees)
        ctx.ob(rule, "%s:%s" % (rule, name), ok, "%s must delegate to extend_str (calls %s)" % (name, callees), fn=f)
    # libyaml mark -> Location
    key = "rules::libyaml::util::system_mark_to_location"
    f = cr.fns.get(key)
    if not f:
        ctx.lost(lrule, lrule + ":mark", key)
    else:
        LOC = PV + "Location"
        lf = [x["name"] for x in cr.adts[LOC]["variants"][0]["fields"]] if LOC in cr.adts else []
        mark_ty = M.Ty(cr, f["locals"][1])
        ma = mark_ty.adt()
        mf = [x["name"] for x in ma["variants"][0]["fields"]] if ma and ma["variants"][0]["fields"] else []
        rets = []

        class H2(ai.Hooks):
            def ret(self, a, st, v):
                rets.append(a.deep(st, v))
        a = ai.AI(cr, H2())
        a.run(key)
        ok = False
        detail = "Location fields %s, mark fields %s" % (lf, mf)
        if rets and lf and rets[0][0] == "enum":
            got = {}
            for i, n in enumerate(lf):
                v = rets[0][3][i]
                got[n] = v[1] if v[0] == "sym" else str(v)
            # arg1 is the mark; field i of it is arg1.<i>
            names = {}
            for i, n in enumerate(mf):
                names["arg1.%d" % i] = n

            def scan(o):
                if isinstance(o, list) and len(o) == 2 and o[0] == 1 and isinstance(o[1], list):
                    for pr in o[1]:
                        if isinstance(pr, list) and pr and pr[0] == "f" and pr[2]:
                            names["arg1.%d" % pr[1]] = pr[2]
                if isinstance(o, dict):
                    for x in o.values():
                        scan(x)
                elif isinstance(o, list):
                    for x in o:
                        scan(x)
            scan(f["blocks"])
            mapped = {n: names.get(s, s) for n, s in got.items()}
            ok = mapped.get("line") == "line" and mapped.get("col") == "column"
            detail = "Location{line <- mark.%s, col <- mark.%s}" % (mapped.get("line"), mapped.get("col"))
        ctx.ob(lrule, lrule + ":mark->location", ok, detail, fn=f, sample={"mapping": detail})


# ------------------------------------------------------------------------------------------------ unresolved point

def unresolved_point(ctx, cr):
    rule = "R-C10-unresolved-point"
    n = 0
    for k, f in sorted(cr.fns.items()):
        if not k.startswith("rules::eval_context::") or "report_" in k:
            continue
        sites = []
        for bi, t in M.iter_calls(f):
            p = M.norm_path(t["fn"].get("path", ""))
            if p.endswith("eval_context::to_unresolved_result") or p.endswith("eval_context::to_unresolved_value"):
                sites.append((t.get("ln", 0), M.op_place(t["args"][0]), p.split("::")[-1]))
        for bi, b in enumerate(f["blocks"]):
            for st in b["s"]:
                rv = st.get("rv")
                if rv and rv["r"] == "agg" and rv.get("ak") == "adt" and str(rv.get("adt", "")) == "rules::UnResolved":
                    sites.append((st.get("ln", 0), M.op_place(rv["ops"][0]), "UnResolved{..}"))
        for i, (ln, pl, what) in enumerate(sorted(sites, key=lambda x: (x[0], x[2]))):
            n += 1
            key = "%s:%s:%s#%d" % (rule, k, what, i)
            if pl is None:
                ctx.ob(rule, key, False, "traversed_to is a constant", fn=f, line=ln)
                continue
            def traversal_origin(fk, fx, place, depth=0):
                """-> (other calls on the slice, Rc<PathAwareValue> parameters reached, all parameters reached); a closure's captured
                variables are followed into the function that builds the closure"""
                calls_, _c, locs_ = flow.backward_slice(fx, M.place_local(place))
                other_ = sorted(set(M.norm_path(c["fn"].get("path", "")) for c in calls_ if M.norm_path(c["fn"].get("decl", "")) != "std::clone::Clone::clone"))
                params_ = [l for l in locs_ if 0 < l <= fx["argc"]]
                rcs = []
                for l in params_:
                    tt = M.Ty(cr, fx["locals"][l]).strip_refs()
                    if (tt.adt_path() or "").endswith("rc::Rc") and tt.args() and (tt.args()[0].adt_path() or "") == PAV:
                        rcs.append((fk, l))
                if fx.get("kind") == "closure" and 1 in params_ and depth < 2 and "::{closure" in fk:
                    # which captured variables feed the value
                    idxs = set()
                    places = [place] + [((st_["rv"].get("p") if st_["rv"]["r"] == "ref" else M.op_place(st_["rv"].get("o", {})))) for _b, _s, st_ in M.iter_stmts(fx)
                                        if "rv" in st_ and M.place_local(st_["p"]) in locs_ and st_["rv"]["r"] in ("ref", "use")]
                    for pl_ in places:
                        if pl_ is not None and not isinstance(pl_, int) and M.place_local(pl_) == 1:
                            for pr in M.place_projs(pl_):
                                if isinstance(pr, list) and pr[0] == "f":
                                    idxs.add(pr[1])
                                    break
                    parent_k = fk.rsplit("::{closure", 1)[0]
                    parent = cr.fns.get(parent_k)
                    if parent is not None and idxs:
                        params_ = [l for l in params_ if l != 1]
                        for _b, _s, st_ in M.iter_stmts(parent):
                            rv_ = st_.get("rv")
                            if rv_ and rv_.get("r") == "agg" and rv_.get("ak") == "closure" and rv_.get("key") == fk:
                                for ix in sorted(idxs):
                                    if ix < len(rv_["ops"]) and M.op_place(rv_["ops"][ix]) is not None:
                                        o2, r2, p2 = traversal_origin(parent_k, parent, M.op_place(rv_["ops"][ix]), depth + 1)
                                        other_ = sorted(set(other_) | set(o2))
                                        rcs += r2
                                        params_ += ["%s:%s" % (parent_k.split("::")[-1], x) for x in p2]
                return other_, rcs, params_
            other, rc_params, params = traversal_origin(k, f, pl)
            rc_params = sorted(set(rc_params))
            ok = not other and len(rc_params) == 1
            ctx.ob(rule, key, ok, "traversed_to is a clone of the function's own traversal parameter" if ok else
                   "the point reported as reached is not (only) the value this function is traversing: slice reaches parameters %s through %s" % (rc_params or params, other[:3] or "no call"),
                   fn=f, line=ln, sample={"fn": k, "line": ln} if n == 1 else None)
    if n < 13:
        ctx.lost(rule, rule + ":floor", "only %d UnResolved construction sites found (floor 13)" % n)


# ------------------------------------------------------------------------------------------------ text as read

TEXT_SINKS = {
    # callee path suffix -> index of the text argument
    "rules::libyaml::loader::Loader::load": 1,
    "serde_json::from_str": 0,
    "serde_yaml::from_str": 0,
    "rules::values::read_from": 0,
    "commands::validate::build_data_file": 0,
    "commands::validate::deserialize_payload": 0,
}

COPIES = {
    "<T as std::string::ToString>::to_string": "copy of a str / Display of an already parsed value",
    "<std::string::String as std::ops::Deref>::deref": "borrow",
    "<std::rc::Rc<T, A> as std::ops::Deref>::deref": "borrow",
    "<std::string::String as std::convert::From<&str>>::from": "copy",
    "<std::string::String as std::clone::Clone>::clone": "copy",
    "std::string::String::as_str": "borrow",
    "<std::string::String as std::convert::AsRef<str>>::as_ref": "borrow",
    "<I as std::iter::IntoIterator>::into_iter": "element selection",
    "core::slice::<impl [T]>::iter": "element selection",
    "<std::slice::Iter<'a, T> as std::iter::Iterator>::next": "element selection",
    "<std::iter::Enumerate<I> as std::iter::Iterator>::next": "element selection",
    "std::string::String::new": "empty read buffer",
}

READS = {
    "std::io::Read::read_to_string": "the read itself",
    "std::fs::read_to_string": "the read itself",
    "std::io::BufReader::<R>::new": "reader",
    "std::fs::File::open": "reader",
    "std::fs::DirEntry::path": "file name",
    "walkdir::DirEntry::path": "file name",
    "<std::result::Result<T, E> as std::ops::Try>::branch": "error propagation",
    "<std::result::Result<T, F> as std::ops::FromResidual<std::result::Result<std::convert::Infallible, E>>>::from_residual": "error propagation",
    "std::ops::FromResidual::from_residual": "error propagation",
    "std::ops::Try::branch": "error propagation",
    "<std::path::PathBuf as std::ops::Deref>::deref": "file name",
    "<std::path::PathBuf as std::convert::AsRef<std::path::Path>>::as_ref": "file name",
}


def _is_read(c):
    return M.norm_path(c["fn"].get("decl", "")) in ("std::io::Read::read_to_string",) or M.norm_path(c["fn"].get("path", "")) == "std::fs::read_to_string"


def is_read_wrapper(cr, key, depth=0):
    """a private helper that returns the text of a file as it was read (open + read_to_string, copies only): `read_file_to_string(path)`"""
    fn = cr.fns.get(key)
    if fn is None or depth > 1 or not ai.is_private_fn(fn):
        return False
    calls, consts, locs = flow.backward_slice(fn, 0, stop=_is_read)
    saw_read = False
    for c in calls:
        cp, decl = M.norm_path(c["fn"].get("path", "")), M.norm_path(c["fn"].get("decl", ""))
        if _is_read(c):
            saw_read = True
            continue
        if cp in COPIES or cp in READS or decl in READS or decl in COPIES:
            continue
        if c["fn"].get("local") and is_read_wrapper(cr, c["fn"].get("key", ""), depth + 1):
            saw_read = True
            continue
        return False
    return saw_read


def text_as_read(ctx, crates, sinks=None, floor=True):
    rule = "R-C10-text-as-read"
    n_sites = 0
    TEXT_SINKS_ = sinks or TEXT_SINKS
    for cr, kind in crates:
        for k, f in sorted(cr.fns.items()):
            if "_tests::" in k or k.startswith("tests::") or "::tests::" in k or f.get("file", "").endswith("_tests.rs"):
                continue
            ordinal = {}
            for bi, t in M.iter_calls(f):
                p = M.norm_path(t["fn"].get("path", ""))
                sink = next((s for s in TEXT_SINKS_ if p.endswith(s)), None)
                if sink is None:
                    continue
                idx = TEXT_SINKS_[sink]
                if idx >= len(t["args"]):
                    continue
                n = ordinal.get(sink, 0)
                ordinal[sink] = n + 1
                key = "%s:%s:%s:%s#%d" % (rule, kind, k, sink.split("::")[-1], n)
                pl = M.op_place(t["args"][idx])
                if pl is None:
                    ctx.ob(rule, key, True, "constant text", fn=f, line=t.get("ln", 0))
                    n_sites += 1
                    continue
                wrappers = set(c2["fn"].get("key") for _b, c2 in M.iter_calls(f) if c2["fn"].get("local") and is_read_wrapper(cr, c2["fn"].get("key", "")))
                calls, consts, locs = flow.backward_slice(f, M.place_local(pl), stop=lambda c: _is_read(c) or c["fn"].get("key") in wrappers)
                bad = []
                for c in calls:
                    cp = M.norm_path(c["fn"].get("path", ""))
                    decl = M.norm_path(c["fn"].get("decl", ""))
                    if cp in COPIES or cp in READS or decl in READS or decl in COPIES or c["fn"].get("key") in wrappers:
                        continue
                    if any(cp.endswith(s) for s in TEXT_SINKS_):
                        continue
                    bad.append("%s (l.%s)" % (cp, c.get("ln")))
                n_sites += 1
                ctx.ob(rule, key, not bad, ("the text given to %s passes through %s, which is not a copy of what was read: positions/values would be those of a rewritten text" % (sink.split("::")[-1], "; ".join(sorted(set(bad))[:3]))) if bad
                       else "%d calls on the slice, all copies or the read itself" % len(calls), fn=f, line=t.get("ln", 0),
                       sample={"site": k, "sink": sink, "calls": sorted(set(M.norm_path(c["fn"].get("path", "")).split("::")[-1] for c in calls))} if sink.endswith("Loader::load") else None)
    if floor and n_sites < 14 * len(crates):
        ctx.lost(rule, rule + ":floor", "only %d parser call sites found (floor %d: 14 per crate copy)" % (n_sites, 14 * len(crates)))


def reported_value(ctx, cr):
    """the `value` shown for a path in JSON / YAML / SARIF reports is the document's value: the one conversion every machine-readable report
    goes through (TryInto<(String, serde_json::Value)> for &PathAwareValue) hands each scalar to serde_json's constructor of its own kind
    — Number::from(i64) for an Int, Number::from_f64 for a Float — without a numeric cast on the way (`as i64` saturates: every float of
    magnitude 2^63 and above would be reported as 9223372036854775807)."""
    rule = "R-C10-reported-value"
    key = next((k for k in sorted(cr.fns) if "TryInto<(std::string::String," in k and "serde_json::Value)>>::try_into" in k and "PathAwareValue" in k and "{closure" not in k), None)
    if not key:
        ctx.lost(rule, rule + ":conversion", "impl TryInto<(String, serde_json::Value)> for &PathAwareValue")
        return
    unit = [k for k in cr.fns if k == key or k.startswith(key + "::{closure")]
    casts, numbers = [], []
    for k in unit:
        f = cr.fns[k]
        for bi, si, st in M.iter_stmts(f):
            rv = st.get("rv")
            if rv and rv["r"] == "cast" and rv.get("ck") in ("FloatToInt", "IntToFloat", "IntToInt", "FloatToFloat"):
                casts.append("%s to %s (l.%s)" % (rv["ck"], cr.ty_str(rv["ty"]), st.get("ln")))
        for bi, t in M.iter_calls(f):
            p = M.norm_path(t["fn"].get("path", ""))
            if "serde_json::Number" in p or "serde_json::number::Number" in p:
                ga = [cr.ty_str(g) for g in t["fn"].get("ga", []) if isinstance(g, int)]
                numbers.append((p.split("::")[-1] if "from_f64" in p else "from", tuple(ga)))
    f = cr.fns[key]
    kinds = set()
    for nm, ga in numbers:
        if nm == "from_f64":
            kinds.add("f64")
        else:
            kinds.add("i64" if any(g == "i64" for g in ga) or not ga else "/".join(ga))
    ok = not casts and kinds == {"i64", "f64"}
    ctx.ob(rule, rule + ":conversion", ok, ("the reported value passes through %s: the number in the report is no longer the number in the document" % casts[:3]) if casts
           else ("numbers are handed to serde_json as %s" % sorted(kinds)) + ("" if ok else ", expected exactly one i64 and one f64 constructor"), fn=f,
           sample={"fn": key, "number_constructors": sorted(kinds)})


def no_entry_skipped(ctx, cr):
    """every list element and every map entry of the loaded document becomes an element / entry of the value the rules see (and that
    reports point into): in the MarkedValue -> PathAwareValue conversion every path through the body of the list loop and of the map
    loop that goes on to the next item passes the push / insert of that item (paths that leave the loop are error returns).  A
    `continue` for "already seen" keys makes a repeated key keep its first value while the document's last one is what the file says."""
    rule = "R-C10-path-construction"
    f = cr.fns.get(K_MARKED)
    if not f:
        ctx.lost(rule, rule + ":marked:no-entry-skipped", K_MARKED)
        return
    dom = flow.dominators(f)
    succ = [M.successors(b["term"]) for b in f["blocks"]]
    nexts = [bi for bi, t in M.iter_calls(f) if M.norm_path(t["fn"].get("decl", "")) == "std::iter::Iterator::next"]
    n = 0
    bad = []
    for h in nexts:
        body = flow.natural_loop(f, h, dom)
        inner = [h2 for h2 in nexts if h2 != h and h2 in body]
        collects = set(bi for bi, t in M.iter_calls(f) if bi in body and M.norm_path(t["fn"].get("path", "")).split("::")[-1] in ("push", "insert")
                       and any(x in M.norm_path(t["fn"].get("path", "")) for x in ("Vec", "IndexMap")) and not any(bi in flow.natural_loop(f, h2, dom) for h2 in inner))
        if not collects:
            continue
        n += 1
        seen, st, escaped = set(), [x for x in succ[h] if x in body], False
        while st:
            b = st.pop()
            if b in seen or b in collects or b not in body:
                continue
            if b == h:
                escaped = True
                break
            seen.add(b)
            st.extend(succ[b])
        if escaped:
            bad.append("the loop at l.%s can go on to the next item without the push / insert of the current one" % f["blocks"][h]["term"].get("ln"))
    ctx.ob(rule, rule + ":marked:no-entry-skipped", not bad and n >= 2, "; ".join(bad) or "%d collection loops: every item is pushed / inserted before the next one" % n, fn=f)


def run(ctx):
    cr = ctx.lib
    reported_value(ctx, cr)
    no_entry_skipped(ctx, cr)
    loaders(ctx, cr)
    primitives(ctx, cr)
    unresolved_point(ctx, cr)
    text_as_read(ctx, [(ctx.lib, "lib")] if ctx.lib is ctx.bin else [(ctx.lib, "lib"), (ctx.bin, "bin")])
    ctx.positive_control("R-C10-text-as-read", "rewritten-text", lambda sub, fx: text_as_read(sub, [(fx, "fixture")], sinks={"sink": 0}, floor=False), ["rewritten", "replace"])
    ctx.assumptions += [
        "libyaml reports the mark at which a scalar starts (dependency)",
        "that a reported pointer resolves in the document to the reported value, remaining_query text and unresolved traversal points are run-time facts and not claimed",
    ]

"""C07 — the verdict is independent of output format, verbosity and entry point (structural clauses; DESIGN §5 C07).

  R-C07-single-core        every entry path (plain validate, structured JSON/YAML/SARIF, JUnit, test reporters, the library call
                           used by Lambda/FFI) evaluates through eval_rules_file on a fresh root_scope; nothing outside the evaluator
                           constructs verdict records or calls the partial evaluators
  R-C07-flag-noninterference  the status / exit code computed by the command layer satisfies its specification on every path with
                           the output flags left unconstrained (so the verdict cannot depend on them)
  R-C07-status-buckets     every reporter's Status -> bucket mapping agrees with one oracle (summary table, console summary,
                           JUnit test case, JUnit status attribute, SARIF from not_compliant only); while the summary table collects
                           the rules its section maps are only inserted into (the section of a rule does not depend on definition order)
  R-C07-bucket-tables      SARIF turns each message of a failing clause into exactly one result (none dropped for lacking a location)
  R-C07-escaping           XML text of the JUnit report is written through the escaping constructor
Not claimed: that serde_json/serde_yaml/quick-xml emit well-formed documents; equality of the library loader with the CLI loader (C11).
"""
from engine import ai, cg, mirlib as M
from engine import statusmon as S
from engine.statusmon import Mon
from rules import c06

LEVEL = "other"
THOROUGH_VIEWS = ("cap=3",)   # this module already reads both the library's and the binary's copy where it matters
RT = "rules::RecordType"
EXPECTED_CALLERS = {
    "<commands::reporters::validate::structured::CommonStructuredReporter as commands::reporters::validate::structured::StructuredReporter>::report",
    "commands::helper::validate_and_return_json", "commands::reporters::get_test_case",
    "commands::reporters::test::generic::GenericReporter::get_by_result",
    "commands::reporters::test::structured::StructuredTestReporter::evaluate", "commands::validate::evaluate_against_data_input",
}


def single_core(ctx):
    rule = "R-C07-single-core"
    for cr in (ctx.lib, ctx.bin):
        g = cg.CallGraph(cr)
        callers = set(g.callers("rules::eval::eval_rules_file"))
        callers = set(c for c in callers if not c.startswith("rules::eval"))
        # a private helper that only the expected callers call stands for them (the per-input step of a reporter split off into a helper)
        from engine import ai as AIM
        for c in sorted(callers):
            fc = cr.fns.get(c)
            if c in EXPECTED_CALLERS or fc is None or not AIM.is_private_fn(fc):
                continue
            up = set(x.split("::{closure")[0] for x in g.callers(c))
            if up and up <= EXPECTED_CALLERS:
                callers.discard(c)
                callers |= up
        if cr is ctx.lib:
            ctx.note_analysed("eval_rules_file_callers", sorted(callers))
        from engine import flow
        for c in sorted(callers):
            f = cr.fns[c]
            called = set()
            for uk in flow.unit_functions(cr, c, ("::".join(c.lstrip("<").split(" as ")[0].split("::")[:3]) + "::",)):
                called |= set(t["fn"].get("key", "") for bi, t in M.iter_calls(cr.fns[uk]))
            ctx.ob(rule, "%s:%s:fresh-scope:%s" % (rule, cr.name.split("-")[1], c), "rules::eval_context::root_scope" in called,
                   "caller of eval_rules_file must build its resolver with root_scope", fn=f,
                   sample={"caller": c} if c.endswith("evaluate_against_data_input") and cr is ctx.lib else None)
        if cr is ctx.lib:
            ctx.ob(rule, rule + ":callers", callers == EXPECTED_CALLERS,
                   "callers of eval_rules_file: unexpected %s, missing %s" % (sorted(callers - EXPECTED_CALLERS), sorted(EXPECTED_CALLERS - callers)))
        # nobody outside the evaluator calls the partial evaluators or builds verdict records
        for k, f in cr.fns.items():
            if k.startswith(("rules::eval::", "rules::eval_context::", "<rules::eval", "rules::evaluate")) or "_serde" in k or "Clone" in k or "Deserialize" in k:
                continue
            for bi, t in M.iter_calls(f):
                ck = t["fn"].get("key", "")
                if ck.startswith("rules::eval::eval_") and ck != "rules::eval::eval_rules_file":
                    ctx.ob(rule, "%s:partial-evaluation:%s" % (rule, k), False, "%s calls %s directly (bypasses the file-level evaluator)" % (k, ck), fn=f, line=t.get("ln", 0))
            for bi, si, s in M.iter_stmts(f):
                rv = s.get("rv")
                if rv and rv.get("r") == "agg" and rv.get("adt") == RT and rv.get("vn") in ("FileCheck", "RuleCheck"):
                    ctx.ob(rule, "%s:verdict-record-built-outside:%s" % (rule, k), False, "%s constructs a %s record" % (k, rv["vn"]), fn=f, line=s.get("ln", 0))
    ctx.ob(rule, rule + ":no-outside-construction", True, "no FileCheck/RuleCheck construction or partial evaluator call outside rules::eval / rules::eval_context")
    # the library call used by Lambda / FFI reaches the same helper
    for crate, fn_pat in (("cfn_guard_lambda-lib", "call_cfn_guard"), ("cfn_guard_ffi-lib", "cfn_guard_run_checks")):
        try:
            c2 = ctx.crate(crate)
        except Exception:
            ctx.lost(rule, "%s:%s" % (rule, crate), "crate facts missing")
            continue
        hits = []
        for k, f in c2.fns.items():
            for bi, t in M.iter_calls(f):
                p = M.norm_path(t["fn"].get("path", ""))
                if p.endswith("run_checks") or p.endswith("validate_and_return_json"):
                    hits.append(k)
        ctx.ob(rule, "%s:%s-uses-run_checks" % (rule, crate.split("-")[0]), bool(hits), "%s must evaluate through cfn_guard::run_checks (found in %s)" % (crate, hits[:2]))
    ctx.ob(rule, rule + ":run_checks-is-the-shared-helper", "commands::helper::validate_and_return_json" in ctx.lib.fns,
           "the library entry point run_checks (re-export of commands::helper::validate_and_return_json) must exist")


def flag_noninterference(ctx):
    rule = "R-C07-flag-noninterference"
    sub = type(ctx).__new__(type(ctx))
    sub.__dict__.update(ctx.__dict__)
    sub.obs = []
    cr = ctx.bin
    c06.tables(sub, cr)
    for k in c06.VALIDATE_FOLDS:
        c06.fold_fn(sub, cr, k, "validate")
    want = ("evaluate_rule", "evaluate_against_data_input", "Validate as commands::Executable>::execute", "StructuredEvaluator::evaluate")
    n = 0
    for o in sub.obs:
        if any(w in o.key for w in want):
            n += 1
            ctx.ob(rule, o.key.replace("R-C06-tables", rule).replace("R-C06-folds", rule), o.ok,
                   "with output/verbose/print_json/summary flags unconstrained: " + o.detail, file=o.file, line=o.line,
                   sample={"obligation": o.key, "flags": "unconstrained"} if "evaluate_against_data_input" in o.key else None)
    if n < 8:
        ctx.lost(rule, rule + ":floor", "only %d command-layer obligations re-checked (floor 8)" % n)


def bucket_tables(ctx, cr):
    rule = "R-C07-status-buckets"
    # 1. summary table: status -> map, map -> header literal
    key = "<commands::reporters::validate::summary_table::SummaryTable as commands::validate::Reporter>::report_eval"
    f = cr.fns.get(key)
    if not f:
        ctx.lost(rule, rule + ":summary_table", key)
    else:
        ins = set()
        printed = set()

        class H(ai.Hooks):
            def call(self, a, st, term, callee, args):
                p = M.norm_path(callee.get("path", ""))
                decl = M.norm_path(callee.get("decl", ""))
                mon = st.mon or Mon()
                if p.endswith("IndexMap::insert") and args:
                    tgt = a.resolve(st, args[0])
                    ins.add((mon.get("status"), tgt[1] if tgt[0] == "ref" else None))
                    return [(("sym", "OLD"), mon)]
                if p.endswith("IndexMap::with_capacity") or p.endswith("IndexMap::retain"):
                    return [(a.sym(st, a.site(st, ":map")), mon)] if p.endswith("with_capacity") else [(("tuple", ()), mon)]
                if p.endswith("IndexMap::is_empty"):
                    return [(("bool", False), mon)]
                if callee.get("key", "").endswith("summary_table::print_summary") and len(args) >= 4:
                    tgt = a.resolve(st, args[3])
                    printed.add((mon.get("header"), tgt[1] if tgt[0] == "ref" else None))
                    return [(("enum", ai.RESULT, 0, (("tuple", ()),)), mon)]
                if decl.endswith("Colorize::bold") and args:
                    v = a.deref_val(st, args[0])
                    if v and v[0] == "str":
                        return [(("sym", "BOLD"), mon.set(header=v[1]))]
                if decl == "std::iter::Iterator::next" and term.get("to") is not None:
                    it = a.resolve(st, args[0]) if args else None
                    if it is not None and it[0] == "ref":
                        cur = a.resolve(st, a.read_at(st, it[1], it[2]))
                        if cur[0] == "tuple" and len(cur[1]) == 3 and cur[1][0] == ("str", "__array_cursor__"):
                            return None          # a loop over a fixed table of sections: unrolled by the engine
                    if mon.get("it", 0) >= 1:
                        return [(("enum", ai.OPTION, 0, ()), mon.set(status=None))]
                    return [(("enum", ai.OPTION, 1, (("ref", ("X", "ELEMCELL"), ()),)), mon.set(status=None, it=1)), (("enum", ai.OPTION, 0, ()), mon.set(status=None))]
                if p.endswith("BitFlags::contains"):
                    return [(("bool", True), mon)]
                return None

            def constrained(self, a, st, sid, val):
                if sid.startswith("ELEMCELL*") and val[0] == "enum" and val[1] == S.STATUS and (st.mon or Mon()).get("status") is None:
                    st.mon = (st.mon or Mon()).set(status=S.NAMES[val[2]])
        a = ai.AI(cr, H(), max_states=400000)
        try:
            a.run(key, mon=Mon())
            ctx.states += a.n_states
            m_ins = {s_: c for s_, c in ins if s_}
            m_hdr = {c: h for h, c in printed if h}
            exp = {"PASS": "PASS rules", "FAIL": "FAILED rules", "SKIP": "SKIP rules"}
            for s_, hdr in exp.items():
                got = m_hdr.get(m_ins.get(s_))
                ctx.ob(rule, "%s:summary_table:%s" % (rule, s_), got == hdr and len([1 for x, c in ins if x == s_]) == 1,
                       "a %s rule is listed under %r (expected %r)" % (s_, got, hdr), fn=f, sample={"reporter": "summary_table", "status": s_, "section": got})
        except ai.Undecided as e:
            ctx.ob(rule, rule + ":summary_table", False, "undecided %s" % e, fn=f)
        # who may remove from the three section maps: only the reviewed SKIP clean-up (a name that also PASSed or FAILed is not listed as
        # skipped); a PASS or FAIL entry is never removed, so the PASS/FAIL sets of the table equal the compliant/not_compliant sets of
        # the structured report
        from rules.c19 import receiver_name
        removals = []
        for bi, t in M.iter_calls(f):
            p = M.norm_path(t["fn"].get("path", ""))
            if p.split("::")[-1] in ("retain", "remove", "shift_remove", "swap_remove", "clear", "drain", "pop", "truncate") and t["args"]:
                removals.append((receiver_name(f, t["args"][0]), p.split("::")[-1], t.get("ln")))
        bad = [r for r in removals if r[0] in ("passed", "failed") or r[0] not in ("skipped",)]
        ctx.ob(rule, rule + ":summary_table:removals", not bad and len(removals) <= 1,
               ("entries are removed from %s: a rule that the structured report lists as compliant / non-compliant disappears from the table section" % [(r[0], r[1], "l.%s" % r[2]) for r in bad]) if bad
               else "only removal: %s" % [(r[0], r[1]) for r in removals], fn=f)
        # ... and while the rules are being sorted into the sections, where one rule goes does not depend on which rules came before it:
        # inside the collecting loop the section maps are only inserted into (a SKIP entry kept "unless the name was already seen as
        # PASS/FAIL" is right only when the applying definition comes first; the clean-up belongs after the loop)
        from engine import flow as _flow
        nexts = [bi for bi, t in M.iter_calls(f) if M.norm_path(t["fn"].get("decl", "")) == "std::iter::Iterator::next"]
        if not nexts:
            ctx.lost(rule, rule + ":summary_table:order-free", "the loop over the rule records")
        else:
            dom = _flow.dominators(f)
            body = _flow.natural_loop(f, nexts[0], dom)
            lookups = []
            for bi, t in M.iter_calls(f):
                p = M.norm_path(t["fn"].get("path", ""))
                if bi in body and t["args"] and ("HashMap" in p or "IndexMap" in p or "BTreeMap" in p or "hash_map" in p or "HashSet" in p) and p.split("::")[-1] in (
                        "contains_key", "get", "get_mut", "entry", "remove", "retain", "contains", "is_empty", "len"):
                    lookups.append("%s on %s (l.%s)" % (p.split("::")[-1], receiver_name(f, t["args"][0]), t.get("ln")))
            ctx.ob(rule, rule + ":summary_table:order-free", not lookups, ("while collecting, the section maps are consulted through %s: the section a rule is listed in depends on the order of the definitions" % lookups) if lookups
                   else "inside the collecting loop the section maps are only inserted into", fn=f)
    # 2. console summary: report_from_events -> GenericReporter::report(failed, passed, skipped)
    key = "commands::reporters::validate::common::report_from_events"
    f = cr.fns.get(key)
    if not f:
        ctx.lost(rule, rule + ":report_from_events", key)
    else:
        ins = set()
        passed_args = []

        class H2(ai.Hooks):
            def call(self, a, st, term, callee, args):
                p = M.norm_path(callee.get("path", ""))
                decl = M.norm_path(callee.get("decl", ""))
                mon = st.mon or Mon()
                if p.endswith("HashMap::insert") or p.endswith("HashSet::insert"):
                    tgt = a.resolve(st, args[0])
                    ins.add((mon.get("status"), a.resolve(st, a.read_at(st, tgt[1], tgt[2])) if tgt[0] == "ref" else None))
                    return [(("sym", "OLD"), mon)]
                if p.endswith("HashMap::new") or p.endswith("HashSet::new"):
                    return [(a.sym(st, a.site(st, ":coll")), mon)]
                if decl.endswith("common::GenericReporter::report"):
                    passed_args.append(tuple(a.resolve(st, x) for x in args))
                    return [(("enum", ai.RESULT, 0, (("tuple", ()),)), mon)]
                if decl == "std::iter::Iterator::next" and term.get("to") is not None:
                    ty, _ = M.place_ty(cr, None, term["dest"], st.top.body)
                    item = ty.args()[0].strip_refs().adt_path() if ty is not None and ty.args() else None
                    selfs = cr.ty_str(callee["self"]) if "self" in callee else ""
                    if item == "rules::eval_context::EventRecord" and selfs.startswith("std::slice::Iter"):
                        if mon.get("it", 0) >= 1:
                            return [(("enum", ai.OPTION, 0, ()), mon.set(status=None))]
                        return [(("enum", ai.OPTION, 1, (("ref", ("X", "ELEMCELL"), ()),)), mon.set(status=None, it=1)), (("enum", ai.OPTION, 0, ()), mon.set(status=None))]
                    return [(("enum", ai.OPTION, 0, ()), mon)]
                return None

            def constrained(self, a, st, sid, val):
                if sid.startswith("ELEMCELL*") and val[0] == "enum" and val[1] == S.STATUS and (st.mon or Mon()).get("status") is None:
                    st.mon = (st.mon or Mon()).set(status=S.NAMES[val[2]])
        a = ai.AI(cr, H2(), max_states=400000)
        try:
            a.run(key, mon=Mon())
            ctx.states += a.n_states
            m_ins = {s_: c for s_, c in ins if s_}
            pos = {}
            for args in passed_args:
                for i, v in enumerate(args):
                    pos.setdefault(v, set()).add(i)
            exp = {"FAIL": 4, "PASS": 5, "SKIP": 6}     # self, writer, rules, data, failed, passed, skipped, len
            for s_, idx in exp.items():
                got = pos.get(m_ins.get(s_), set())
                ctx.ob(rule, "%s:report_from_events:%s" % (rule, s_), got == {idx}, "a %s rule ends up in argument %s of GenericReporter::report (expected %d: failed/passed/skipped)" % (s_, sorted(got), idx), fn=f)
        except ai.Undecided as e:
            ctx.ob(rule, rule + ":report_from_events", False, "undecided %s" % e, fn=f)
    # 3. JUnit test case from the evaluated status
    key = "commands::reporters::get_test_case"
    TCS = "commands::reporters::TestCaseStatus"
    f = cr.fns.get(key)
    if not f or TCS not in cr.adts:
        ctx.lost(rule, rule + ":get_test_case", key)
    else:
        names = [v["name"] for v in cr.adts[TCS]["variants"]]
        rows = {}

        class H3(S.StatusHooks):
            def role_of(self, a, st, term, callee):
                return "child" if callee.get("key", "").endswith("eval::eval_rules_file") else None

            def extra_call(self, a, st, term, callee, args):
                if callee.get("key", "").endswith("simplified_json_from_root"):
                    return [(("enum", ai.RESULT, 0, (("sym", "REPORT"),)), st.mon.set(rep="Ok")), (("enum", ai.RESULT, 1, (("sym", "REP_ERR"),)), st.mon.set(rep="Err"))]
                return None
        h = H3(cr, track_records=False)
        a = ai.AI(cr, h, max_states=400000)
        try:
            a.run(key, mon=Mon())
            ctx.states += a.n_states
            for v, mon, tr in h.results:
                if v[0] == "enum" and v[1] == ai.RESULT and v[2] == 0 and v[3][0][0] == "enum":
                    tc = v[3][0]
                    stv = [x for x in tc[3] if x[0] == "enum" and x[1] == TCS]
                    ch = mon.get("child", frozenset())
                    if stv and len(ch) == 1:
                        rows.setdefault((next(iter(ch)), mon.get("rep")), set()).add(names[stv[0][2]])
            spec = {("PASS", "Ok"): "Pass", ("SKIP", "Ok"): "Skip", ("FAIL", "Ok"): "Fail", ("PASS", "Err"): "Error", ("FAIL", "Err"): "Error", ("SKIP", "Err"): "Error"}
            for k2, exp in spec.items():
                got = rows.get(k2, set())
                ctx.ob(rule, "%s:get_test_case:%s:%s" % (rule, k2[0], k2[1]), got == {exp}, "status %s (report %s) becomes test case %s, expected %s" % (k2[0], k2[1], sorted(got), exp), fn=f,
                       sample={"reporter": "junit", "status": k2[0], "case": sorted(got)} if k2[1] == "Ok" else None)
        except ai.Undecided as e:
            ctx.ob(rule, rule + ":get_test_case", False, "undecided %s" % e, fn=f)
    # 4. JUnit status attribute
    key = "commands::reporters::EventType::extend_attributes"
    ET = "commands::reporters::EventType"
    f = cr.fns.get(key)
    if not f or ET not in cr.adts or TCS not in cr.adts:
        ctx.lost(rule, rule + ":extend_attributes", key)
    else:
        names = [v["name"] for v in cr.adts[TCS]["variants"]]
        etn = [v["name"] for v in cr.adts[ET]["variants"]]
        tcf = [x["name"] for x in cr.adts["commands::reporters::TestCase"]["variants"][0]["fields"]]
        for vi, n in enumerate(names):
            nf = len(cr.adts[TCS]["variants"][vi]["fields"])
            stv = ("enum", TCS, vi, tuple(("sym", "P%d" % i) for i in range(nf)))
            tcv = [("sym", "T%d" % i) for i in range(len(tcf))]
            tcv[tcf.index("status")] = stv
            tcv[tcf.index("id")] = ("enum", ai.OPTION, 0, ())
            seen = []

            class H4(ai.Hooks):
                def call(self, a, st, term, callee, args):
                    p = M.norm_path(callee.get("path", ""))
                    if p.endswith("BytesStart::extend_attributes") or p.endswith("BytesStart::push_attribute"):
                        seen.append(a.deep(st, args[1]) if len(args) > 1 else None)
                    return None
            a = ai.AI(cr, H4())
            a.run(key, args=[("ref", ("X", "SELF"), ()), None], ext={"SELF": ("enum", ET, etn.index("TestCase"), (("ref", ("X", "TC"), ()),)), "TC": ("enum", "commands::reporters::TestCase", 0, tuple(tcv))})
            lits = set()
            for v in seen:
                r = repr(v)
                for lit in ("pass", "skip", "error", "fail"):
                    if "('str', '%s')" % lit in r or "'str:%s'" % lit in r:
                        lits.add(lit)
            exp = {"Pass": {"pass"}, "Skip": {"skip"}, "Error": {"error"}, "Fail": set()}[n]
            ctx.ob(rule, "%s:junit-status-attribute:%s" % (rule, n), lits == exp, "test case %s gets status attribute %s, expected %s" % (n, sorted(lits), sorted(exp)), fn=f)
    # 5. SARIF: results only from not_compliant of FAIL reports
    key = "<commands::reporters::validate::sarif::SarifRun as std::convert::From<&[rules::eval_context::FileReport]>>::from"
    fs = [k for k in cr.fns if k.startswith(key)]
    if not fs:
        ctx.lost(rule, rule + ":sarif", key)
    else:
        FR = "rules::eval_context::FileReport"
        ff = [x["name"] for x in cr.adts[FR]["variants"][0]["fields"]]
        read = set()
        for k in fs:
            f = cr.fns[k]
            for body in [f]:
                def scan(o):
                    if isinstance(o, list) and len(o) == 2 and isinstance(o[0], int) and isinstance(o[1], list):
                        for pr in o[1]:
                            if isinstance(pr, list) and pr and pr[0] == "f" and pr[2] in ff:
                                read.add(pr[2])
                    if isinstance(o, dict):
                        for v in o.values():
                            scan(v)
                    elif isinstance(o, list):
                        for v in o:
                            scan(v)
                scan(body["blocks"])
        ctx.ob(rule, rule + ":sarif-from-not_compliant-only", "not_compliant" in read and not ({"compliant", "not_applicable"} & read),
               "SARIF results are built from FileReport fields %s (must use not_compliant, never compliant/not_applicable)" % sorted(read), fn=cr.fns[fs[0]])


def sarif_one_result_per_message(ctx, cr):
    """JSON / YAML list every failing check of a rule; SARIF must too: SarifResults::from turns EACH message of a failing clause into
    exactly one result (the fold over get_message() is read as the loop it is; per element one push, and the accumulator comes back).
    A `return results` / `continue` for messages without a location drops checks that JSON still shows."""
    from engine import ai
    from engine.statusmon import Mon
    rule = "R-C07-bucket-tables"
    key = next((k for k in cr.fns if k.startswith("<commands::reporters::validate::sarif::SarifResults as std::convert::From<(") and k.endswith(">::from")), None)
    if not key:
        ctx.lost(rule, rule + ":sarif-one-result-per-message", "impl From<(&ClauseReport, &str)> for SarifResults")
        return
    f = cr.fns[key]
    outs = []

    class H(ai.Hooks):
        lazy_pipes = True

        def inline(self, a, st, k, fn):
            return fn.get("kind") == "closure" and k.startswith(key)

        def call(self, a, st, term, callee, args):
            p = M.norm_path(callee.get("path", ""))
            decl = M.norm_path(callee.get("decl", ""))
            mon = st.mon or Mon()
            if decl == "std::iter::Iterator::next" and term.get("to") is not None:
                it = a.resolve(st, args[0])
                if it[0] == "ref":
                    it = a.resolve(st, a.read_at(st, it[1], it[2]))
                if ai.is_pipe(it):
                    return None
                if mon.get("n"):
                    return [(("enum", ai.OPTION, 0, ()), mon)]
                return [(("enum", ai.OPTION, 1, (("sym", "MSG"),)), mon.set(n=1)), (("enum", ai.OPTION, 0, ()), mon)]
            if p in ("std::vec::Vec::push",) and args:
                return [(("tuple", ()), mon.set(pushes=(mon.get("pushes") or 0) + 1))]
            return None

        def ret(self, a, st, v):
            outs.append(st.mon or Mon())
    a = ai.AI(cr, H())
    try:
        a.run(key, mon=Mon())
    except ai.Undecided as e:
        ctx.ob(rule, rule + ":sarif-one-result-per-message", False, "undecided %s" % e, fn=f)
        return
    ctx.states += a.n_states
    counts = sorted(set((m.get("pushes") or 0) for m in outs if m.get("n")))
    ctx.ob(rule, rule + ":sarif-one-result-per-message", counts == [1], "per message of a failing clause SARIF gets %s result(s) on the different paths%s" % (
        counts, "" if counts == [1] else ": a failing check can be missing from (or doubled in) the SARIF results while JSON/YAML report it once"), fn=f,
           sample={"fn": key, "results_per_message": counts})


def escaping(ctx):
    rule = "R-C07-escaping"
    n_new = 0
    bad = []
    for cr in (ctx.lib,):
        for k, f in cr.fns.items():
            for bi, t in M.iter_calls(f):
                p = M.norm_path(t["fn"].get("path", ""))
                if p.endswith("BytesText::from_escaped") or p.endswith("BytesText::from_escaped_str") or p.endswith("BytesCData::new"):
                    if not all("k" in a for a in t["args"]):
                        bad.append("%s line %s" % (k, t.get("ln")))
                if p.endswith("BytesText::new"):
                    n_new += 1
    ctx.ob(rule, rule + ":text-events-escaped", not bad and n_new >= 2,
           "XML text is written without escaping at %s" % bad if bad else "%d text events, all through the escaping constructor BytesText::new" % n_new,
           sample={"text_event_sites": n_new})


def run(ctx):
    single_core(ctx)
    flag_noninterference(ctx)
    bucket_tables(ctx, ctx.lib)
    sarif_one_result_per_message(ctx, ctx.lib)
    escaping(ctx)
    ctx.assumptions += [
        "serde_json / serde_yaml / quick-xml emit well-formed documents for the values they are given (dependencies)",
        "the library path builds its document through serde and the CLI through libyaml: their agreement is C11's (partly declined) subject",
    ]

"""C14 — alternative spellings, layout and comments do not change a rule file's meaning (structural clauses; DESIGN §5 C14).

Acceptance of whitespace/comments "in every context" and verdict equality are behavioural and NOT claimed.  Decided:
  R-C14-keyword-synonyms  every keyword parser accepts all documented spellings and all spellings of one keyword produce the
                          same value (literal sets extracted from the nom combinator calls of the resolved program)
  R-C14-quote-symmetry    parse_string is the same parser instantiated with ' and "
  R-C14-index-forms       `.n` and `[n]` both build QueryPart::Index from the integer parser
  R-C14-type-block        a type block desugars to Resources.*[ Type == '<name>' ] (all-values, filter, match_all, ==, not negated)
  R-C14-default-rule      clauses outside any rule become one rule named `default` with no condition, placed first; a file-level when
                          block parses its body with the same clause parsers as a when block inside a rule
  R-C14-this-is-current   the traversal step for an explicit `this` continues with the next query part on the same current value,
                          resolver and converter (so `this.X` and `X` select the same values, inside filters too)
"""
from engine import flow, mirlib as M
from rules.c08 import def_of_local

LEVEL = "other"
P = "rules::parser::"
# function -> list of synonym groups that must each be accepted (and map to one value where the parser has values)
SYNONYMS = {
    "when": [{"when", "WHEN"}], "in_keyword": [{"in", "IN"}], "exists": [{"exists", "EXISTS"}], "empty": [{"empty", "EMPTY"}],
    "keys": [{"keys", "KEYS"}], "some_keyword": [{"some", "SOME"}], "this_keyword": [{"this", "THIS"}],
    "is_string": [{"is_string", "IS_STRING"}], "is_list": [{"is_list", "IS_LIST"}], "is_struct": [{"is_struct", "IS_STRUCT"}],
    "is_int": [{"is_int", "IS_INT"}], "is_float": [{"is_float", "IS_FLOAT"}], "is_bool": [{"is_bool", "IS_BOOL"}], "is_null": [{"is_null", "IS_NULL"}],
    "parse_bool": [{"true", "True"}, {"false", "False"}], "parse_null": [{"null", "NULL"}],
    "or_term": [{"or", "OR", "|OR|"}], "not": [{"not", "NOT", "!"}], "let_assignment_expr": [{"=", ":="}],
}
LITERAL_FNS = ("nom::bytes::complete::tag", "nom::character::complete::char", "nom::bytes::complete::tag_no_case")


def fn_and_closures(cr, key):
    return [f for k, f in cr.fns.items() if k == key or k.startswith(key + "::{closure")]


def const_of(f, o, depth=0):
    """constant literal (str/char/int/bool/enum-variant description) an operand evaluates to, following single definitions"""
    if not isinstance(o, dict):
        return None
    k = o.get("k")
    if k is not None:
        if "str" in k:
            return ("str", k["str"])
        if "v" in k:
            return ("val", k["v"])
        if "zst" in k or "promoted" in k:
            return ("const", str(k.get("ty")))
        return None
    pl = M.op_place(o)
    if isinstance(pl, int) and depth < 5:
        d = def_of_local(f, pl)
        if d and d[0] == "stmt":
            rv = d[2]["rv"]
            if rv["r"] == "use":
                return const_of(f, rv["o"], depth + 1)
            if rv["r"] == "ref":
                return const_of(f, {"c": M.place_local(rv["p"])}, depth + 1)
            if rv["r"] == "agg" and rv.get("ak") == "adt":
                inner = [const_of(f, x, depth + 1) for x in rv["ops"]]
                return ("adt", rv["adt"].split("::")[-1] + "::" + rv["vn"], tuple(inner))
            if rv["r"] == "agg" and rv.get("ak") == "tuple":
                return ("tuple", tuple(const_of(f, x, depth + 1) for x in rv["ops"]))
    return None


def literal_flow(cr, f):
    """-> (all literals, list of (value constant, literal set) for value(V, parser) calls)"""
    lits = {}        # local -> set of literals its parser accepts
    values = []
    allset = set()
    order = []
    for bi, b in enumerate(f["blocks"]):
        order.append(("b", bi, b))
    changed = True
    rounds = 0
    while changed and rounds < 6:
        changed = False
        rounds += 1
        for _, bi, b in order:
            for s in b["s"]:
                rv = s.get("rv")
                if not rv or not isinstance(s["p"], int):
                    continue
                acc = set()
                if rv["r"] in ("use", "cast"):
                    pl = M.op_place(rv["o"])
                    if isinstance(pl, int):
                        acc |= lits.get(pl, set())
                elif rv["r"] == "agg":
                    for o in rv["ops"]:
                        pl = M.op_place(o)
                        if isinstance(pl, int):
                            acc |= lits.get(pl, set())
                if acc - lits.get(s["p"], set()):
                    lits.setdefault(s["p"], set()).update(acc)
                    changed = True
            t = b["term"]
            if t["t"] != "call" or not isinstance(t.get("dest"), int):
                continue
            p = M.norm_path(t["fn"].get("path", ""))
            acc = set()
            if p in LITERAL_FNS:
                c = const_of(f, t["args"][0]) if t["args"] else None
                if c and c[0] == "str":
                    acc.add(c[1])
                elif c and c[0] == "val":
                    acc.add(str(c[1]))
                allset |= acc
            elif p.startswith("nom::") or t["fn"].get("via") in ("trait", "indirect", "closure"):
                for o in t["args"]:
                    pl = M.op_place(o)
                    if isinstance(pl, int):
                        acc |= lits.get(pl, set())
            if acc - lits.get(t["dest"], set()):
                lits.setdefault(t["dest"], set()).update(acc)
                changed = True
    for _, bi, b in order:
        t = b["term"]
        if t["t"] == "call" and M.norm_path(t["fn"].get("path", "")) == "nom::combinator::value" and len(t["args"]) == 2:
            v = const_of(f, t["args"][0])
            pl = M.op_place(t["args"][1])
            values.append((v, set(lits.get(pl, set())) if isinstance(pl, int) else set()))
    return allset, values


def keyword_synonyms(ctx, cr):
    rule = "R-C14-keyword-synonyms"
    n = 0
    def owners_of(group):
        words = set(x for x in group if any(ch.isalpha() for ch in x)) or set(group)
        out = []
        for k, f in sorted(cr.fns.items()):
            if not k.startswith(P) or f.get("file", "").endswith("_tests.rs") or "{closure" in k:
                continue
            lits = set()
            for fx in fn_and_closures(cr, k):
                for bi, t in M.iter_calls(fx):
                    if M.norm_path(t["fn"].get("path", "")) in LITERAL_FNS and t["args"]:
                        c = const_of(fx, t["args"][0])
                        if c and c[0] in ("str", "val"):
                            lits.add(str(c[1]))
            if lits & words:
                out.append(k)
        return out
    for name, groups in sorted(SYNONYMS.items()):
        key = P + name
        fs = fn_and_closures(cr, key)
        if not fs:
            # the one-line keyword parser was inlined into its user: the keyword is recognised wherever its spellings are spelled out
            alt_ = sorted(set(o for g in groups for o in owners_of(g)))
            fs = [fx for o in alt_ for fx in fn_and_closures(cr, o)]
        if not fs:
            ctx.lost(rule, "%s:%s" % (rule, name), key)
            continue
        allset = set()
        values = []
        for f in fs:
            a, v = literal_flow(cr, f)
            allset |= a
            values += v
        for g in groups:
            n += 1
            gname = sorted(g)[0]
            missing = g - allset
            ok = not missing
            detail = "spelling(s) %s no longer accepted by %s (accepts %s)" % (sorted(missing), name, sorted(allset)) if missing else "accepts %s" % sorted(g & allset)
            if ok and values:
                owners = [v for v, ls in values if ls & g]
                whole = [v for v, ls in values if g <= ls]
                distinct = set(map(repr, owners))
                if owners and (len(distinct) != 1):
                    ok = False
                    detail = "spellings %s of one keyword produce different values: %s" % (sorted(g), sorted(distinct))
            ctx.ob(rule, "%s:%s:%s" % (rule, name, gname), ok, detail, fn=fs[0], sample={"parser": name, "accepts": sorted(g & allset)} if name in ("when", "or_term") else None)
    # one recogniser per keyword: a second place that spells a keyword out (a look-ahead, a shortcut) must accept the same spellings,
    # or one spelling parses in one position and not in another.  For every synonym group, every parser function that accepts any
    # spelling of the group accepts the whole group.
    all_groups = [g for gs in SYNONYMS.values() for g in gs]
    partial = []
    scanned = 0
    by_owner = {}
    for k, f in sorted(cr.fns.items()):
        if not k.startswith(P) or f.get("file", "").endswith("_tests.rs"):
            continue
        owner = k.split("::{closure")[0]
        lits = set()
        for bi, t in M.iter_calls(f):
            if M.norm_path(t["fn"].get("path", "")) in LITERAL_FNS and t["args"]:
                c = const_of(f, t["args"][0])
                if c and c[0] == "str":
                    lits.add(c[1])
                elif c and c[0] == "val":
                    lits.add(str(c[1]))
        by_owner.setdefault(owner, set()).update(lits)
    for owner, lits in sorted(by_owner.items()):
        scanned += 1
        for g in all_groups:
            words = set(x for x in g if any(ch.isalpha() for ch in x))      # `!`, `=` alone are also operators' characters elsewhere
            if lits & words and not g <= lits:
                partial.append("%s spells out %s but not %s" % (owner.split("::")[-1], sorted(lits & g), sorted(g - lits)))
    ctx.ob(rule, rule + ":single-recogniser", not partial and scanned >= 40, "; ".join(partial[:3]) + ": that spelling is rejected in this position while its synonyms are accepted" if partial else
           "%d parser functions scanned: whoever accepts one spelling of a keyword accepts all of them" % scanned)
    ctx.note_analysed("keyword_parsers", sorted(SYNONYMS))
    if n < 20:
        ctx.lost(rule, rule + ":floor", "only %d synonym groups examined (floor 20)" % n)


def quote_symmetry(ctx, cr):
    rule = "R-C14-quote-symmetry"
    f = cr.fns.get(P + "parse_string")
    if not f:
        ctx.lost(rule, rule + ":parse_string", P + "parse_string")
        return
    quotes = []
    for bi, t in M.iter_calls(f):
        if t["fn"].get("key") == P + "parse_string_inner":
            c = const_of(f, t["args"][0])
            quotes.append(c[1] if c else None)
    ctx.ob(rule, rule + ":same-parser-both-quotes", sorted(map(str, quotes)) == ['"', "'"], "parse_string instantiates parse_string_inner with %s (expected ' and \")" % quotes, fn=f,
           sample={"quotes": quotes})

    # inside the shared parser every delimiter-valued character is the parameter `ch`: the opening and the closing char(..), the
    # take_while stop test and — for an escaped delimiter — the character put into the parsed string
    body = cr.fns.get(P + "parse_string_inner::{closure#0}")
    if not body:
        ctx.lost(rule, rule + ":delimiter-uses", P + "parse_string_inner::{closure#0}")
        return
    from rules.c08 import def_of_local

    def is_ch(operand, depth=0):
        """operand is a copy of the captured `ch` (read through the closure environment, local 1)"""
        if "k" in operand:
            return False
        pl = M.op_place(operand)
        if pl is None or depth > 5:
            return False
        if not isinstance(pl, int):
            return M.place_local(pl) == 1
        d = def_of_local(body, pl)
        if d and d[0] == "stmt" and d[2]["rv"]["r"] == "use":
            return is_ch(d[2]["rv"]["o"], depth + 1)
        return False
    uses = []
    for bi, t in M.iter_calls(body):
        p = M.norm_path(t["fn"].get("path", ""))
        if p == "nom::character::complete::char":
            uses.append(("char(..) l.%s" % t.get("ln"), is_ch(t["args"][0])))
        elif p == "std::string::String::push":
            uses.append(("push(..) l.%s" % t.get("ln"), is_ch(t["args"][1])))
    bad = [u for u, ok in uses if not ok]
    ctx.ob(rule, rule + ":delimiter-uses", not bad and len(uses) >= 3, ("%s does not use the delimiter the parser was instantiated with: a literal written with the other quote style means something else" % bad) if bad
           else "%d delimiter uses, all the captured ch" % len(uses), fn=body, sample={"uses": [u for u, _ in uses]})


def index_forms(ctx, cr):
    rule = "R-C14-index-forms"
    for name in ("dotted_property", "array_index"):
        fs = fn_and_closures(cr, P + name)
        if not fs:
            ctx.lost(rule, "%s:%s" % (rule, name), P + name)
            continue
        builds_index = False
        uses_int = False
        for f in fs:
            for bi, si, s in M.iter_stmts(f):
                rv = s.get("rv")
                if rv and rv.get("r") == "agg" and rv.get("adt") == "rules::exprs::QueryPart" and rv.get("vn") == "Index":
                    builds_index = True
            for bi, b in enumerate(f["blocks"]):
                t = b["term"]
                if t["t"] == "call":
                    for o in [t["fn"].get("op")] + list(t["args"]):
                        if isinstance(o, dict) and "k" in o:
                            ty = cr.types[o["k"]["ty"]]
                            if ty["k"] == "fndef" and ty.get("key") == P + "parse_int_value":
                                uses_int = True
                    if t["fn"].get("key") == P + "parse_int_value":
                        uses_int = True
        ctx.ob(rule, "%s:%s" % (rule, name), builds_index and uses_int, "%s must build QueryPart::Index from parse_int_value (index=%s int=%s)" % (name, builds_index, uses_int), fn=fs[0])


def type_block(ctx, cr):
    rule = "R-C14-type-block"
    f = cr.fns.get(P + "type_block")
    if not f:
        ctx.lost(rule, rule + ":type_block", P + "type_block")
        return
    aggs = []
    for bi, si, s in M.iter_stmts(f):
        rv = s.get("rv")
        if rv and rv.get("r") == "agg" and rv.get("ak") == "adt":
            aggs.append((rv["adt"].split("::")[-1], rv["vn"], [const_of(f, o) for o in rv["ops"]], rv))
    to_string_consts = set()
    for bi, t in M.iter_calls(f):
        p = M.norm_path(t["fn"].get("decl", ""))
        if p.endswith("ToString::to_string") and t["args"]:
            c = const_of(f, t["args"][0])
            if c and c[0] == "str":
                to_string_consts.add(c[1])
    qp = [(a[1], a[2]) for a in aggs if a[0] == "QueryPart"]
    kinds = [k for k, _ in qp]
    ctx.ob(rule, rule + ":query-shape", sorted(kinds) == sorted(["Key", "AllValues", "Filter", "Key"]),
           "type block query parts are %s, expected Key(Resources), AllValues, Filter[ Key(Type) == name ]" % kinds, fn=f, sample={"query_parts": kinds})
    ctx.ob(rule, rule + ":keys", {"Resources", "Type"} <= to_string_consts, "the desugared query must use the keys Resources and Type (found %s)" % sorted(to_string_consts), fn=f)
    aq = [a for a in aggs if a[0] == "AccessQuery"]
    ok = bool(aq) and all(any(c == ("val", True) for c in a[2] if c) for a in aq)
    ctx.ob(rule, rule + ":match_all", ok, "the synthesized filter clause must have match_all = true", fn=f)
    cmp_ok = False
    for a in aggs:
        if a[0] == "AccessClause":
            for c in a[2]:
                if c and c[0] == "tuple" and len(c[1]) == 2 and c[1][0] and c[1][0][0] == "adt" and c[1][0][1] == "CmpOperator::Eq" and c[1][1] == ("val", False):
                    cmp_ok = True
    ctx.ob(rule, rule + ":comparator", cmp_ok, "the synthesized filter clause must compare with (CmpOperator::Eq, false), i.e. `==`", fn=f)
    gac = [a for a in aggs if a[0] == "GuardAccessClause"]
    ok = bool(gac) and all(any(c == ("val", False) for c in a[2] if c) for a in gac)
    ctx.ob(rule, rule + ":not-negated", ok, "the synthesized filter clause must have negation = false", fn=f)


def rules_file_unit(cr):
    """rules_file, its closures, and the private helpers it is split into (parser functions called from nowhere else)"""
    from engine import ai as AIM, flow
    root = P + "rules_file"
    unit = {root}
    for uk in flow.unit_functions(cr, root, ("rules::parser",), depth=2):
        base = uk.split("::{closure")[0]
        bf = cr.fns.get(base)
        if base == root or bf is None or not AIM.is_private_fn(bf):
            continue
        callers = set(k.split("::{closure")[0] for k, f2 in cr.fns.items() if not f2.get("file", "").endswith("_tests.rs") and any(t["fn"].get("key") == base for bi, t in M.iter_calls(f2)))
        refs = any(("{%s}" % base) in cr.ty_str(t) for t in range(0)) if False else False
        if callers and callers <= unit | {base}:
            unit.add(base)
    return sorted(k for k in cr.fns if k.split("::{closure")[0] in unit)


def default_rule(ctx, cr):
    rule = "R-C14-default-rule"
    f = cr.fns.get(P + "rules_file")
    if not f:
        ctx.lost(rule, rule + ":rules_file", P + "rules_file")
        return
    bodies = [cr.fns[k] for k in rules_file_unit(cr)]
    RULE = "rules::exprs::Rule"
    fl = [x["name"] for x in cr.adts[RULE]["variants"][0]["fields"]]
    rule_aggs = []
    for fx in bodies:
        for bi, si, s in M.iter_stmts(fx):
            rv = s.get("rv")
            if rv and rv.get("r") == "agg" and rv.get("adt") == RULE:
                cond = rv["ops"][fl.index("conditions")]
                rule_aggs.append((const_of(fx, cond), s["p"], fx, rv))
    ok = len(rule_aggs) == 1 and rule_aggs[0][0] is not None and rule_aggs[0][0][0] == "adt" and rule_aggs[0][0][1] == "Option::None"
    ctx.ob(rule, rule + ":no-condition", ok, "the implicit rule must be built with conditions: None (found %s)" % [r[0] for r in rule_aggs], fn=f)
    names = set()

    def scan(o):
        if isinstance(o, dict):
            k = o.get("k")
            if isinstance(k, dict) and "DEFAULT_RULE_NAME" in str(k.get("named", "")):
                names.add("DEFAULT_RULE_NAME")
            if isinstance(k, dict) and k.get("str") == "default":
                names.add("default")
            for v in o.values():
                scan(v)
        elif isinstance(o, list):
            for v in o:
                scan(v)
    for fx in bodies:
        scan(fx["blocks"])
        scan(fx.get("promoted", []))
    # the constant's value
    dv = None
    for k, fx in cr.fns.items():
        if k.endswith("DEFAULT_RULE_NAME") and fx["kind"] == "const":
            for bi, si, s in M.iter_stmts(fx):
                c = const_of(fx, s["rv"].get("o")) if "rv" in s and s["rv"]["r"] == "use" else None
                if c and c[0] == "str":
                    dv = c[1]
    ctx.ob(rule, rule + ":named-default", bool(names) and (dv in (None, "default") or "default" in names), "the implicit rule must be named `default` (constant value %r)" % dv, fn=f, sample={"name": dv or "default"})
    # one file-level expression = ONE line (conjunct) of the default rule: a file-level `A or B` must stay one disjunction.  The list in
    # question is the one that becomes the default rule's block.conjunctions (found by following the Rule aggregate, not by its name).
    from rules.c19 import refers_to
    meths = {}
    if len(rule_aggs) == 1:
        _, _, fx, rv = rule_aggs[0]
        conj = None
        bop = rv["ops"][fl.index("block")]
        bl = M.op_place(bop)
        for _ in range(6):
            if bl is None:
                break
            d = def_of_local(fx, M.place_local(bl))
            if not d or d[0] != "stmt":
                break
            brv = d[2]["rv"]
            if brv.get("r") == "agg" and str(brv.get("adt", "")).endswith("exprs::Block"):
                bfl = [x["name"] for x in cr.adts[brv["adt"]]["variants"][0]["fields"]]
                cl = M.op_place(brv["ops"][bfl.index("conjunctions")])
                for _2 in range(6):
                    if cl is None:
                        break
                    if isinstance(cl, int):
                        d2 = def_of_local(fx, cl)
                        if d2 and d2[0] == "stmt" and d2[2]["rv"]["r"] == "use" and M.op_place(d2[2]["rv"]["o"]) is not None:
                            cl = M.op_place(d2[2]["rv"]["o"])
                            continue
                        conj = cl
                        break
                    cl = M.place_local(cl)
                break
            bl = M.op_place(brv["o"]) if brv.get("r") == "use" else None
        if conj is not None:
            for bi, t in M.iter_calls(fx):
                pth = M.norm_path(t["fn"].get("path", ""))
                if t["args"] and M.op_place(t["args"][0]) is not None and refers_to(fx, M.op_place(t["args"][0]), conj) and pth.startswith("std::vec::Vec::"):
                    meths.setdefault(pth.split("::")[-1], []).append(t.get("ln"))
    spread = {m: l for m, l in meths.items() if m in ("extend", "append", "extend_from_slice", "extend_one", "splice")}
    ctx.ob(rule, rule + ":one-line-per-expression", not spread and len(meths.get("push", [])) >= 3,
           ("the default rule's list of lines is filled through %s: the alternatives of one file-level `or` line become separate conjunct lines of the default rule" % spread) if spread
           else "each file-level clause / type block / when block is pushed as one line (%d pushes)" % len(meths.get("push", [])), fn=f)
    # a file-level `when c { .. }` is the default rule's `when c { .. }`: its body is parsed by the same clause parsers as a `when` body
    # inside `rule default { .. }` (rule_block_clause), so a named-rule reference is accepted in both or in neither
    import re as _re

    def body_parsers(owner_key, callee_suffix, arg_index):
        out = []
        for k, fx in cr.fns.items():
            if k != owner_key and not k.startswith(owner_key + "::{closure"):
                continue
            for bi, t in M.iter_calls(fx):
                if M.norm_path(t["fn"].get("path", "")).endswith(callee_suffix) and len(t["args"]) > arg_index:
                    o = t["args"][arg_index]
                    pl = M.op_place(o)
                    if pl is not None:
                        ty, _ = M.place_ty(cr, None, pl, fx)
                        tys = cr.ty_str(ty.idx) if ty is not None and hasattr(ty, "idx") else ""
                    else:
                        tys = cr.ty_str(o["k"]["ty"]) if "k" in o and "ty" in o["k"] else ""
                    out.append(frozenset(_re.findall(r"\{(rules::parser::\w+)\}", tys)))
        return out
    top = [x for uk in sorted(set(k.split("::{closure")[0] for k in rules_file_unit(cr))) for x in body_parsers(uk, "parser::when_block", 1)]
    inner = body_parsers(P + "rule_block_clause", "parser::block", 0) + body_parsers(P + "rule_block_clause", "parser::when_block", 1)
    if len(top) != 1 or not inner:
        ctx.lost(rule, rule + ":when-body", "file-level when_block calls: %d, block(..) calls in rule_block_clause: %d" % (len(top), len(inner)))
    else:
        ok = bool(top[0]) and all(top[0] == x for x in inner)
        ctx.ob(rule, rule + ":when-body", ok, "a file-level when block parses its body with %s, a when block inside a rule with %s%s" % (
            sorted(x.split("::")[-1] for x in top[0]), [sorted(y.split("::")[-1] for y in x) for x in inner],
            "" if ok else ": the same text is accepted in `rule default { .. }` and rejected at file level (or the reverse)"), fn=f)
    ins0 = False
    for fx in bodies:
        for bi, t in M.iter_calls(fx):
            if M.norm_path(t["fn"].get("path", "")) == "std::vec::Vec::insert" and len(t["args"]) == 3:
                c = const_of(fx, t["args"][1])
                if c == ("val", 0):
                    ins0 = True
    ctx.ob(rule, rule + ":placed-first", ins0, "the implicit rule must be inserted at index 0 of the rule list", fn=f)


BARE_WS = ("multispace0", "multispace1", "space0", "space1")
# functions that may skip blanks WITHOUT accepting comments, each because the position is inside one clause / token sequence,
# not "between or after clauses" (the property's comment positions)
BARE_WS_REVIEWED = {
    "rules::parser::white_space_or_comment": "the comment-aware skipper itself (multispace1 is one of its alternatives)",
    "rules::parser::comment2": "blanks before the '#' of a comment",
    "rules::parser::call_expr": "between the arguments of a function call, inside one expression",
    "rules::parser::parameter_names": "between the formal parameter names of a parameterised rule head",
    "rules::parser::not": "the blank that must follow the keyword `not` (same line)",
    "rules::parser::range_value": "inside a range literal r(a, b)",
    "rules::parser::rule_clause": "between the name of a referenced rule and its custom message / end of line (the newline ends the clause)",
    "rules::parser::variable_capture_in_map_or_index": "around the `|` of a key capture inside [ k | filter ]",
}


def comments_are_whitespace(ctx, cr):
    """every place of the grammar that skips layout between or after clauses must go through the comment-aware skippers
    (zero_or_more_ws_or_comment / one_or_more_ws_or_comment); nom's bare blank skippers appear only in the reviewed intra-clause
    positions.  A bare skipper anywhere else makes a `#` comment at that position a parse error."""
    rule = "R-C14-comments-are-whitespace"

    def consts(o, acc):
        if isinstance(o, dict):
            if "k" in o and isinstance(o["k"], dict) and "ty" in o["k"]:
                acc.append(o["k"])
            for v in o.values():
                consts(v, acc)
        elif isinstance(o, list):
            for v in o:
                consts(v, acc)
    users = {}
    aware = 0
    for k, f in sorted(cr.fns.items()):
        if not k.startswith(P) or f.get("file", "").endswith("_tests.rs"):
            continue
        owner = k.split("::{closure")[0]
        acc = []
        consts(f["blocks"], acc)
        for c in acc:
            t = cr.types[c["ty"]]
            if t["k"] != "fndef":
                continue
            path = M.norm_path(t.get("p", ""))
            if path.startswith("nom::character::complete::") and path.split("::")[-1] in BARE_WS:
                users.setdefault(owner, set()).add(path.split("::")[-1])
            if path in (P + "zero_or_more_ws_or_comment", P + "one_or_more_ws_or_comment"):
                aware += 1
        for bi, t in M.iter_calls(f):
            path = M.norm_path(t["fn"].get("path", ""))
            if path.startswith("nom::character::complete::") and path.split("::")[-1] in BARE_WS:
                users.setdefault(owner, set()).add(path.split("::")[-1])
            if path in (P + "zero_or_more_ws_or_comment", P + "one_or_more_ws_or_comment"):
                aware += 1
    if aware < 40:
        ctx.lost(rule, rule + ":floor", "only %d uses of the comment-aware skippers found in the parser (floor 40)" % aware)
    from engine import ai as AIM

    def reviewed_ws(owner, depth=0):
        if owner in BARE_WS_REVIEWED:
            return BARE_WS_REVIEWED[owner]
        fn = cr.fns.get(owner)
        if fn is None or depth > 1 or not AIM.is_private_fn(fn):
            return None
        # a few lines split off from a reviewed function: a private helper all of whose users (callers, or functions that hand it to a
        # combinator as a parser) are reviewed positions
        users_ = set()
        for k2, f2 in cr.fns.items():
            if f2.get("file", "").endswith("_tests.rs") or k2.split("::{closure")[0] == owner:
                continue
            if any(t["fn"].get("key") == owner for bi, t in M.iter_calls(f2)):
                users_.add(k2.split("::{closure")[0])
                continue
            acc2 = []
            consts(f2["blocks"], acc2)
            if any(cr.types[c["ty"]]["k"] == "fndef" and M.norm_path(cr.types[c["ty"]].get("p", "")) == owner for c in acc2):
                users_.add(k2.split("::{closure")[0])
        whys = [reviewed_ws(u, depth + 1) for u in users_]
        return ("private helper of a reviewed position: " + whys[0]) if users_ and all(whys) else None
    for owner in sorted(users):
        why = reviewed_ws(owner)
        f = cr.fns.get(owner) or next(v for kk, v in cr.fns.items() if kk.startswith(owner))
        ctx.ob(rule, "%s:%s" % (rule, owner), why is not None, ("reviewed: " + why) if why else
               "%s skips blanks with nom's %s, which does not accept `#` comments; every other layout position between/after clauses uses zero_or_more_ws_or_comment" % (owner, sorted(users[owner])), fn=f,
               sample={"fn": owner, "skippers": sorted(users[owner])} if owner.endswith("rule_clause") else None)


def keyword_boundaries(ctx, cr):
    """an alphabetic keyword that is followed by another token must be followed by a separator, otherwise an identifier that merely
    starts with the keyword is split (`order_ok` on a new line read as `or der_ok`, which silently joins two lines into one
    disjunction): or_join demands one_or_more_ws_or_comment after the or-term, the `not` keyword demands a blank (space1)"""
    rule = "R-C14-keyword-boundaries"

    def fnitems(key):
        out = set()
        for k, f in cr.fns.items():
            if k == key or k.startswith(key + "::{closure"):
                def scan(o):
                    if isinstance(o, dict):
                        kk = o.get("k")
                        if isinstance(kk, dict) and "ty" in kk:
                            t = cr.types[kk["ty"]]
                            if t["k"] == "fndef":
                                out.add(M.norm_path(t.get("p", "")))
                        for v in o.values():
                            scan(v)
                    elif isinstance(o, list):
                        for v in o:
                            scan(v)
                scan(f["blocks"])
                for bi, t in M.iter_calls(f):
                    out.add(M.norm_path(t["fn"].get("path", "")))
        return out
    # line breaks / blanks inside list and map literals: the element separator is the layout-tolerant separated_by(','), the brackets
    # are preceded_by / followed_by (a bare char(',') rejects `['a' , 'b']` and a comma at the start of a line)
    for key in (P + "parse_list", P + "parse_map"):
        if key not in cr.fns:
            ctx.lost("R-C14-list-layout", "R-C14-list-layout:%s" % key.split("::")[-1], key)
            continue
        items = fnitems(key)
        ok = P + "separated_by" in items
        ctx.ob("R-C14-list-layout", "R-C14-list-layout:%s" % key.split("::")[-1], ok, "%s separates its elements with %s" % (key.split("::")[-1], "separated_by(',') (blanks, line breaks and comments allowed around the comma)" if ok else
               "a bare separator %s: layout around the comma is no longer free" % sorted(x.split("::")[-1] for x in items if "nom::character" in x)), fn=cr.fns[key])
    for key, term, seps in ((P + "or_join", P + "or_term", (P + "one_or_more_ws_or_comment",)),
                            (P + "not", None, ("nom::character::complete::space1", "nom::character::complete::multispace1", P + "one_or_more_ws_or_comment"))):
        if key not in cr.fns:
            ctx.lost(rule, "%s:%s" % (rule, key.split("::")[-1]), key)
            continue
        items = fnitems(key)
        own_lits = set()
        for fx in fn_and_closures(cr, key):
            for bi, t in M.iter_calls(fx):
                if M.norm_path(t["fn"].get("path", "")) in LITERAL_FNS and t["args"]:
                    c = const_of(fx, t["args"][0])
                    if c and c[0] in ("str", "val"):
                        own_lits.add(str(c[1]))
        has_term = term is None or term in items or {"or", "OR", "|OR|"} <= own_lits
        has_sep = any(x in items for x in seps)
        ctx.ob(rule, "%s:%s" % (rule, key.split("::")[-1]), has_term and has_sep,
               "%s does not require a separator after the keyword (uses %s): an identifier beginning with the keyword is split" % (key.split("::")[-1], sorted(x.split("::")[-1] for x in items if "parser::" in x or "nom::character" in x))
               if not (has_term and has_sep) else "%s requires %s after the keyword" % (key.split("::")[-1], [x.split("::")[-1] for x in seps if x in items]), fn=cr.fns[key])


LITERAL_TEXT_OPS = {
    # operations the text of a string / regex literal may pass through between the input and the parsed value
    "nom_locate::LocatedSpan::fragment": "the matched text",
    "<nom_locate::LocatedSpan<T, X> as nom::Slice<R>>::slice": "advance past the escape",
    "<nom_locate::LocatedSpan<T, X> as nom::InputTake>::take_split": "advance past the escape",
    "<&'a str as nom::Slice<std::ops::Range<usize>>>::slice": "drop the ONE escaping backslash (0..len-1)",
    "core::str::traits::<impl std::ops::Index<I> for str>::index": "drop the ONE escaping backslash (0..len-1)",
    "core::str::<impl str>::len": "operand of len-1",
    "core::str::<impl str>::strip_suffix": "drop the ONE escaping backslash (strip_suffix removes a single occurrence)",
    "core::str::<impl str>::ends_with": "the escape test",
    "core::str::<impl str>::is_empty": "the escape test",
    "<std::result::Result<T, E> as std::ops::Try>::branch": "error propagation of the nom parser",
    "nom::bytes::complete::take_while": "up to the delimiter", "nom::bytes::complete::take_while::{closure#0}": "up to the delimiter",
    "nom::bytes::complete::is_not": "up to the delimiter", "nom::bytes::complete::is_not::{closure#0}": "up to the delimiter",
    "nom::character::complete::char": "the delimiter", "nom::character::complete::char::{closure#0}": "the delimiter",
}


def literal_text_preserved(ctx, cr):
    """the text between the delimiters of a string or regex literal becomes the value unchanged, except that the single backslash in
    front of an escaped delimiter is dropped: on the backward slice of everything push_str-ed into the literal only the operations of
    the table occur (a trim / replace / case change there alters what the literal means)"""
    rule = "R-C14-literal-text"
    for key in (P + "parse_string_inner::{closure#0}", P + "parse_regex_inner"):
        f = cr.fns.get(key)
        if not f:
            ctx.lost(rule, "%s:%s" % (rule, key.split("::")[2]), key)
            continue
        bad = []
        n = 0
        for bi, t in M.iter_calls(f):
            p = M.norm_path(t["fn"].get("path", ""))
            if not p.endswith("String::push_str"):
                continue
            n += 1
            pl = M.op_place(t["args"][1])
            if pl is None:
                continue
            calls, consts, locs = flow.backward_slice(f, M.place_local(pl))
            for c in calls:
                cp = M.norm_path(c["fn"].get("path", ""))
                if cp not in LITERAL_TEXT_OPS:
                    bad.append("%s (l.%s)" % (cp, c.get("ln")))
        ctx.ob(rule, "%s:%s" % (rule, key.split("::")[2]), n >= 2 and not bad, ("the literal's text passes through %s before it becomes the value" % sorted(set(bad))[:3]) if bad else "%d push_str sites, text only sliced at the escape" % n, fn=f)


def this_is_current(ctx, cr):
    """an explicit `this` is the value the query is standing on: in the traversal, the step for QueryPart::This continues with the next
    query part on the SAME current value, resolver and converter.  (Inside a filter the resolver is the enclosing scope, so continuing on
    `resolver.root()` or on the document root makes `Tags[ this.Key == 'x' ]` differ from `Tags[ Key == 'x' ]`.)"""
    from engine import ai
    from engine.statusmon import Mon
    rule = "R-C14-this-is-current"
    K = "rules::eval_context::query_retrieval_with_converter"
    QP = "rules::exprs::QueryPart"
    f = cr.fns.get(K)
    if not f or QP not in cr.adts:
        ctx.lost(rule, rule + ":traversal", K)
        return
    vn = [v["name"] for v in cr.adts[QP]["variants"]]
    if "This" not in vn:
        ctx.lost(rule, rule + ":variant", "QueryPart::This")
        return
    this_vi = vn.index("This")
    steps, plain_returns = [], []

    class H(ai.Hooks):
        def call(self, a, st, term, callee, args):
            mon = st.mon or Mon()
            if callee.get("key") == K and st.top is st.frames[0]:
                if mon.get("qp") == this_vi:
                    steps.append([a.resolve(st, x) for x in args])
                return [(("enum", ai.RESULT, 0, (("sym", "REC"),)), mon.set(stepped=True))]
            if M.norm_path(callee.get("path", "")).endswith("QueryPart::is_variable"):
                return [(("bool", False), mon)]
            return None

        def constrained(self, a, st, sid, val):
            mon = st.mon or Mon()
            if val[0] == "enum" and val[1] == QP and mon.get("qp") is None:
                st.mon = mon.set(qp=val[2])

        def ret(self, a, st, v):
            mon = st.mon or Mon()
            if mon.get("qp") == this_vi and not mon.get("stepped") and v[0] == "enum" and v[1] == ai.RESULT and v[2] == 0:
                plain_returns.append(ai.fmt_val(v, cr)[:60])
    a = ai.AI(cr, H(), max_states=300000)
    try:
        a.run(K, args=[("int", 0), ("ref", ("X", "Q"), ()), ("sym", "CUR"), ("sym", "RESOLVER"), ("sym", "CONV")], mon=Mon(),
              ext={"Q": ("sym", "QUERY")})
    except ai.Undecided as e:
        ctx.ob(rule, rule + ":traversal", False, "undecided %s" % e, fn=f)
        return
    ctx.states += a.n_states
    bad = []
    for args in steps:
        shown = [ai.fmt_val(x, cr)[:50] for x in args]
        if len(args) != 5:
            bad.append("unexpected arity %s" % shown)
            continue
        if args[0] != ("int", 1):
            bad.append("continues at query index %s instead of the next part" % shown[0])
        if not (args[1][0] == "ref" and args[1][1] == ("X", "Q")):
            bad.append("continues on another query (%s)" % shown[1])
        if args[2] != ("sym", "CUR"):
            bad.append("continues on %s instead of the current value" % shown[2])
        if not (args[3] == ("sym", "RESOLVER") or (args[3][0] == "ref" and "RESOLVER" in str(args[3][1]))):
            bad.append("continues with another resolver (%s)" % shown[3])
        if args[4] != ("sym", "CONV"):
            bad.append("continues with another key converter (%s)" % shown[4])
    if plain_returns:
        bad.append("the step for `this` returns %s without continuing the query" % plain_returns[0])
    ctx.ob(rule, rule + ":traversal", not bad and len(steps) >= 1, "; ".join(sorted(set(bad))[:3]) or "the `this` step continues with (index+1, same query, same current value, same resolver, same converter) on %d paths" % len(steps), fn=f,
           sample={"fn": K, "paths": len(steps)})


def run(ctx):
    cr = ctx.lib
    this_is_current(ctx, cr)
    keyword_synonyms(ctx, cr)
    quote_symmetry(ctx, cr)
    index_forms(ctx, cr)
    type_block(ctx, cr)
    default_rule(ctx, cr)
    comments_are_whitespace(ctx, cr)
    keyword_boundaries(ctx, cr)
    literal_text_preserved(ctx, cr)
    ctx.assumptions += [
        "nom's tag/char/alt/value combinators behave as documented (dependency)",
        "ambiguity of ordered alternatives and whitespace/comment acceptance inside a clause are not decided",
    ]

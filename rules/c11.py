"""C11 — a document means the same however it is written or loaded (structural clauses; DESIGN §5 C11).

Equality of the two loaders over all scalar spellings is NOT claimed (one loader is serde_yaml, a dependency; spellings are
run-time data).  Decided statically:
  R-C11-tag-tables        the CloudFormation short-form tables: every tag accepted by a loader has a long form
                          (SINGLE u SEQUENCE within dom(MAPPING)), k -> "Fn::"+k except Ref/Condition, the documented tags are
                          all present, and both loaders consult the same tables through short_form_to_long
  R-C11-scalar-cascade    libyaml loader: quoted scalars are strings without any parse attempt; plain scalars try i64, f64,
                          bool, null spellings in that order and produce the matching variant; explicit core tags table
  R-C11-rejections        aliases and non-string map keys are rejected with an error in both loaders
  R-C11-serde-conversion  serde_yaml / serde_json -> Value: variant table, and every map entry / list element of the source is
                          inserted exactly once (none dropped, none duplicated)
  R-C11-format-fallback   an entry point that reads one text as JSON and as YAML (run_checks, the test-spec readers) tries the second
                          format on every path on which the first parse failed (no text-dependent shortcut)
"""
import re
from engine import ai, mirlib as M
from engine import statusmon as S
from engine.statusmon import Mon

LEVEL = "other"
DOCUMENTED = ["Ref", "GetAtt", "Base64", "Sub", "GetAZs", "ImportValue", "Condition", "RefAll", "Select", "Split", "Join", "FindInMap",
              "And", "Equals", "Contains", "EachMemberIn", "EachMemberEquals", "ValueOf", "If", "Not", "Or"]
# payload forms in which the CloudFormation documentation (and Guard's own docs for the rule-set functions) write each short form:
#   scalar:   !Ref x, !GetAtt a.b, !Sub "..", !Base64 x, !GetAZs r, !ImportValue n, !Condition c, !RefAll t
#   sequence: !GetAtt [a, b], !Sub [s, {..}], !Select [i, l], !Split [d, s], !Join [d, l], !FindInMap [m, k, k2], !If/!And/!Or/!Not/!Equals [..],
#             !Contains / !EachMemberIn / !EachMemberEquals / !ValueOf [..]
SCALAR_FORM = ["Ref", "GetAtt", "Base64", "Sub", "GetAZs", "ImportValue", "Condition", "RefAll"]
SEQUENCE_FORM = ["GetAtt", "Sub", "Select", "Split", "Join", "FindInMap", "And", "Equals", "Contains", "EachMemberIn", "EachMemberEquals", "ValueOf", "If", "Not", "Or"]
MV = "rules::values::MarkedValue"
VAL = "rules::values::Value"


def static_inserts(cr, static_name):
    """const-string arguments of the insert() calls in a lazy_static initialiser"""
    key = "<rules::%s as std::ops::Deref>::deref::__static_ref_initialize" % static_name
    f = cr.fns.get(key)
    if not f:
        return None, None
    from rules.c08 import def_of_local
    rows = []

    def const_str(a, depth=0):
        if isinstance(a, dict) and "k" in a and "str" in a["k"]:
            return a["k"]["str"]
        pl = M.op_place(a) if isinstance(a, dict) else None
        if isinstance(pl, int) and depth < 4:
            d = def_of_local(f, pl)
            if d and d[0] == "stmt" and d[2]["rv"]["r"] == "use":
                return const_str(d[2]["rv"]["o"], depth + 1)
            if d and d[0] == "stmt" and d[2]["rv"]["r"] == "ref":
                return const_str({"c": M.place_local(d[2]["rv"]["p"])}, depth + 1)
        return None
    for bi, t in M.iter_calls(f):
        p = M.norm_path(t["fn"].get("path", ""))
        if p.endswith("::insert"):
            strs = [const_str(a) for a in t["args"][1:]]
            rows.append(tuple(x for x in strs if x is not None) if all(x is not None for x in strs) else ("?",) * 3)
    return f, rows


def tag_tables(ctx, cr):
    rule = "R-C11-tag-tables"
    fm, mapping = static_inserts(cr, "SHORT_FORM_TO_LONG_MAPPING")
    fs, single = static_inserts(cr, "SINGLE_VALUE_FUNC_REF")
    fq, seq = static_inserts(cr, "SEQUENCE_VALUE_FUNC_REF")
    if mapping is None or single is None or seq is None:
        ctx.lost(rule, rule + ":tables", "lazy_static tag tables in rules/mod.rs")
        return
    bad_rows = [r for r in mapping if len(r) != 2] + [r for r in single + seq if len(r) != 1]
    ctx.ob(rule, rule + ":literal-tables", not bad_rows, "table entries that are not string literals: %s" % bad_rows[:3], fn=fm)
    mp = {r[0]: r[1] for r in mapping if len(r) == 2}
    sg = set(r[0] for r in single if len(r) == 1)
    sq = set(r[0] for r in seq if len(r) == 1)
    ctx.note_analysed("tag_tables", ["mapping=%d single=%d sequence=%d" % (len(mp), len(sg), len(sq))])
    for t in sorted(sg | sq):
        ctx.ob(rule, "%s:has-long-form:%s" % (rule, t), t in mp,
               "short form !%s is accepted by a loader table but has no long form: short_form_to_long would hit unreachable!()" % t, fn=fm,
               sample={"tag": t, "long": mp.get(t)} if t == "GetAtt" else None)
    for k, v in sorted(mp.items()):
        exp = k if k in ("Ref", "Condition") else "Fn::" + k
        ctx.ob(rule, "%s:long-form:%s" % (rule, k), v == exp, "!%s maps to %r, expected %r" % (k, v, exp), fn=fm)
    for t in DOCUMENTED:
        ctx.ob(rule, "%s:documented:%s" % (rule, t), t in mp and (t in sg or t in sq), "documented short form !%s is missing from the tables" % t, fn=fm)
    # both loaders take the SAME decision "is this tag an intrinsic short form": each decision point consults the same set of tables
    # (directly or through a local helper) and translates with short_form_to_long.  A loader that looks at one table only loads
    # `!Join x` / `!Ref [p, q]` as the bare payload where the other loader expands it.
    # decision points = the non-test functions that translate a tag with short_form_to_long (found, not named: helpers may be merged or split)
    users = sorted(k for k, fx in cr.fns.items() if k.startswith("rules::") and not fx.get("file", "").endswith("_tests.rs") and k != "rules::short_form_to_long"
                   and any(t["fn"].get("key") == "rules::short_form_to_long" for bi, t in M.iter_calls(fx)))
    if not any("libyaml" in k for k in users) or not any(k.startswith("rules::values::") for k in users):
        ctx.lost(rule, rule + ":user:floor", "decision points found: %s (expected at least one in the libyaml loader and one in rules::values)" % users)
    consulted = {}
    for k in users:
        f = cr.fns.get(k)
        if not f:
            ctx.lost(rule, "%s:user:%s" % (rule, k), "function missing")
            continue
        tabs, translates = set(), False
        work, seenf = [k], set()
        while work:
            kk = work.pop()
            if kk in seenf or kk not in cr.fns:
                continue
            seenf.add(kk)
            for bi, t in M.iter_calls(cr.fns[kk]):
                c = t["fn"].get("key", "")
                m_ = re.match(r"<rules::(\w+_FUNC_REF) as std::ops::Deref>::deref$", c)
                if m_:
                    tabs.add(m_.group(1))
                if c == "rules::short_form_to_long":
                    translates = True
                if t["fn"].get("local") and c.startswith("rules::") and len(seenf) < 6 and ("func_ref" in c or "closure" in c):
                    work.append(c)
        if not tabs:
            # translates a tag that an earlier decision point already accepted (the loader closing a tagged sequence): not a decision
            ctx.note_analysed("tag_translation_without_decision", k)
            continue
        consulted[k] = tabs
        ctx.ob(rule, "%s:user:%s:translates" % (rule, k.split("::")[-1]), translates, "must translate the tag with short_form_to_long", fn=f)
    # ... and path by path: the tag is expanded iff it is in SINGLE_VALUE_FUNC_REF or in SEQUENCE_VALUE_FUNC_REF, whatever the payload
    for k in users:
        f = cr.fns.get(k)
        if not f or k not in consulted:
            continue
        rets = []

        class DH(ai.Hooks):
            def inline(self, a, st, key, fn):
                return "func_ref" in key and key.startswith("rules::")

            def ret(self, a, st, v):
                rets.append(st.mon or Mon())

            def call(self, a, st, term, callee, args):
                c = callee.get("key", "")
                mon = st.mon or Mon()
                m_ = re.match(r"<rules::(\w+)_VALUE_FUNC_REF as std::ops::Deref>::deref$", c)
                if m_:
                    return [(("ref", ("X", "TABLE:" + m_.group(1)), ()), mon)]
                if c.endswith("HashSet<T,S,A>::contains"):
                    v = a.resolve(st, args[0])
                    tab = v[1][1].split(":")[1] if v[0] == "ref" and str(v[1][1]).startswith("TABLE:") else None
                    if tab:
                        return [(("bool", True), mon.set(**{tab: True})), (("bool", False), mon.set(**{tab: False}))]
                if c == "rules::short_form_to_long":
                    return [(("sym", "LONG"), mon.set(expand=True))]
                return None
        a = ai.AI(cr, DH(), max_states=200000)
        try:
            a.run(k, mon=Mon())
        except ai.Undecided as e:
            ctx.ob(rule, "%s:user:%s:decision" % (rule, k.split("::")[-1]), False, "undecided %s" % e, fn=f)
            continue
        ctx.states += a.n_states
        bad = set()
        for mon in rets:
            sg_, sq_, ex = mon.get("SINGLE"), mon.get("SEQUENCE"), bool(mon.get("expand"))
            if ex and not (sg_ is True or sq_ is True):
                bad.add("expands a tag that is in neither table (single=%s sequence=%s)" % (sg_, sq_))
            if not ex and sg_ is None and sq_ is None:
                continue            # no tag on this path: nothing was decided
            if not ex and not (sg_ is False and sq_ is False):
                bad.add("leaves the tag unexpanded without having found it absent from BOTH tables (single=%s sequence=%s): the decision depends on the kind of the payload" % (sg_, sq_))
        ctx.ob(rule, "%s:user:%s:decision" % (rule, k.split("::")[-1]), bool(rets) and not bad, "; ".join(sorted(bad)) or "%d paths: expanded iff in SINGLE or SEQUENCE table" % len(rets), fn=f)
    sets = set(frozenset(v) for v in consulted.values())
    for k, tabs in sorted(consulted.items()):
        union = set().union(*consulted.values())
        ctx.ob(rule, "%s:user:%s:tables" % (rule, k.split("::")[-1]), tabs == union and len(union) >= 2,
               "%s decides on %s while the loaders together use %s: a tag listed only in the other table is expanded by one loader and left as its bare payload by this one" % (k.split("::")[-1], sorted(tabs), sorted(union))
               if tabs != union else "consults %s like the other decision points" % sorted(tabs), fn=cr.fns.get(k),
               sample={"function": k, "tables": sorted(tabs)} if k.endswith("handle_tagged_value") else None)
    sf = cr.fns.get("rules::short_form_to_long")
    if sf:
        called = [t["fn"].get("key", "") for bi, t in M.iter_calls(sf)]
        ctx.ob(rule, rule + ":short_form_to_long-uses-mapping", "<rules::SHORT_FORM_TO_LONG_MAPPING as std::ops::Deref>::deref" in called, "short_form_to_long must look the tag up in SHORT_FORM_TO_LONG_MAPPING", fn=sf)
    else:
        ctx.lost(rule, rule + ":short_form_to_long", "function missing")


def mv_names(cr):
    return [v["name"] for v in cr.adts[MV]["variants"]]


class LoaderHooks(ai.Hooks):
    """str::parse::<T> and string comparisons are sources; pushes of MarkedValue are observed"""

    def __init__(self, cr):
        self.cr = cr
        self.pushed = []      # (variant name, mon)
        self.rets = []

    def call(self, a, st, term, callee, args):
        p = M.norm_path(callee.get("path", ""))
        decl = M.norm_path(callee.get("decl", ""))
        mon = st.mon or Mon()
        if p in ("core::str::<impl str>::parse", "core::str::parse") and term.get("to") is not None:
            ga = callee.get("ga", [])
            tn = self.cr.ty_str(ga[0]) if ga else "?"
            seq = mon.get("parses", ())
            if len(seq) > 5:
                return None
            return [(("enum", ai.RESULT, 0, (("sym", "PARSED:" + tn),)), mon.set(parses=seq + ((tn, True),))),
                    (("enum", ai.RESULT, 1, (("sym", "PERR"),)), mon.set(parses=seq + ((tn, False),)))]
        if p == "core::str::<impl str>::strip_prefix" and len(args) == 2 and term.get("to") is not None:
            # `tag.strip_prefix("tag:yaml.org,2002:")` followed by a comparison of the rest: the comparison is with prefix + literal
            pre = a.deref_val(st, args[1])
            subj = a.deref_val(st, args[0])
            if pre is not None and pre[0] == "str" and not (subj is not None and subj[0] == "str"):
                return [(("enum", ai.OPTION, 1, (("sym", "SUFFIX\x02" + pre[1]),)), mon), (("enum", ai.OPTION, 0, ()), mon.add("strne", pre[1] + "*"))]
        if decl in ("std::cmp::PartialEq::eq", "std::cmp::PartialEq::ne") and len(args) == 2 and not callee.get("local"):
            consts = [a.deref_val(st, x) for x in args]
            lit = [c[1] for c in consts if c is not None and c[0] == "str"]
            if len(lit) == 1:
                pre = ""
                for c in consts:
                    if c is not None and c[0] == "sym" and c[1].startswith("SUFFIX\x02"):
                        pre = c[1].split("\x02", 1)[1].rstrip("*")
                eq = decl.endswith("eq")
                return [(("bool", eq), mon.add("streq", pre + lit[0])), (("bool", not eq), mon.add("strne", pre + lit[0]))]
        if p == "std::vec::Vec::push" and len(args) == 2:
            v = a.resolve(st, args[1])
            if v[0] == "enum" and v[1] == MV:
                self.pushed.append((mv_names(self.cr)[v[2]], mon, a.deep(st, v)))
                return [(("tuple", ()), mon)]
        return None

    def inline(self, a, st, key, fn):
        it = fn.get("impl_trait", "")
        if it == "std::cmp::PartialEq" and fn.get("impl_self") is not None:
            p = self.cr.ty_adt(fn["impl_self"])
            return p is not None and p.endswith("ScalarStyle")
        return key in ("rules::libyaml::loader::handle_type_ref",)

    def ret(self, a, st, v):
        self.rets.append((v, st.mon or Mon()))


def scalar_cascade(ctx, cr):
    rule = "R-C11-scalar-cascade"
    key = "rules::libyaml::loader::Loader::handle_scalar_event"
    SC = "rules::libyaml::event::Scalar"
    SS = "rules::libyaml::event::ScalarStyle"
    f = cr.fns.get(key)
    if not f or SC not in cr.adts or SS not in cr.adts:
        ctx.lost(rule, rule + ":handle_scalar_event", key)
        return
    fields = [x["name"] for x in cr.adts[SC]["variants"][0]["fields"]]
    styles = [v["name"] for v in cr.adts[SS]["variants"]]
    if "tag" not in fields or "style" not in fields or "Plain" not in styles:
        ctx.lost(rule, rule + ":Scalar-fields", "Scalar{tag, style} / ScalarStyle::Plain")
        return
    # untagged scalars, every style
    for sti, sname in enumerate(styles):
        fv = [("sym", "F%d" % i) for i in range(len(fields))]
        fv[fields.index("tag")] = ("enum", ai.OPTION, 0, ())
        fv[fields.index("style")] = ("enum", SS, sti, ())
        h = LoaderHooks(cr)
        a = ai.AI(cr, h)
        try:
            a.run(key, args=[None, ("enum", SC, 0, tuple(fv)), None], mon=Mon())
        except ai.Undecided as e:
            ctx.ob(rule, "%s:untagged:%s" % (rule, sname), False, "undecided %s" % e, fn=f)
            continue
        ctx.states += a.n_states
        bad = []
        if sname != "Plain":
            for var, mon, v in h.pushed:
                if var != "String" or mon.get("parses"):
                    bad.append("%s scalar becomes %s after parse attempts %s" % (sname, var, mon.get("parses")))
            ctx.ob(rule, "%s:untagged:%s" % (rule, sname), not bad and len(h.pushed) >= 1, "; ".join(sorted(set(bad))[:2]) or "quoted / block scalar is a String with no parse attempt", fn=f,
                   sample={"style": sname, "result": sorted(set(p[0] for p in h.pushed))})
            continue
        ORDER = ("i64", "f64", "bool")
        seen_rows = set()
        for var, mon, v in h.pushed:
            ps = mon.get("parses", ())
            tys = tuple(t for t, ok in ps)
            if tys != ORDER[:len(tys)]:
                bad.append("parse attempts in order %s (expected i64, f64, bool)" % (tys,))
                continue
            oks = [ok for t, ok in ps]
            if any(oks[:-1]):
                bad.append("a later parse was attempted after %s succeeded" % (ps,))
                continue
            if oks and oks[-1]:
                exp = {"i64": "Int", "f64": "Float", "bool": "Bool"}[tys[-1]]
                if var != exp:
                    bad.append("plain scalar that parses as %s becomes %s" % (tys[-1], var))
                seen_rows.add(exp)
            else:
                if len(tys) != 3:
                    bad.append("gave up after %s" % (tys,))
                elif var not in ("Null", "String"):
                    bad.append("unparsable plain scalar becomes %s" % var)
                else:
                    if var == "Null" and not ({"~", "null"} & set(mon.get("streq", frozenset()))):
                        bad.append("Null produced without matching a null spelling")
                    seen_rows.add(var)
        ctx.ob(rule, "%s:untagged:Plain" % rule, not bad and seen_rows == {"Int", "Float", "Bool", "Null", "String"},
               "; ".join(sorted(set(bad))[:3]) or "plain scalars: i64, then f64, then bool, then null spellings, else String", fn=f,
               sample={"style": "Plain", "variants": sorted(seen_rows)})
    # explicit core tags
    tk = "rules::libyaml::loader::handle_type_ref"
    tf = cr.fns.get(tk)
    if not tf:
        ctx.lost(rule, rule + ":handle_type_ref", tk)
        return
    h = LoaderHooks(cr)
    a = ai.AI(cr, h)
    a.run(tk, mon=Mon())
    ctx.states += a.n_states
    names = mv_names(cr)
    rows = {}
    for v, mon in h.rets:
        tag = sorted(mon.get("streq", frozenset()))
        ps = mon.get("parses", ())
        var = names[v[2]] if v[0] == "enum" and v[1] == MV else "?"
        rows.setdefault((tuple(tag), ps), set()).add(var)
    spec = {
        (("tag:yaml.org,2002:bool",), (("bool", True),)): {"Bool"}, (("tag:yaml.org,2002:bool",), (("bool", False),)): {"String"},
        (("tag:yaml.org,2002:int",), (("i64", True),)): {"Int"}, (("tag:yaml.org,2002:int",), (("i64", False),)): {"BadValue"},
        (("tag:yaml.org,2002:float",), (("f64", True),)): {"Float"}, (("tag:yaml.org,2002:float",), (("f64", False),)): {"BadValue"},
        (("tag:yaml.org,2002:null",), ()): {"Null"}, ((), ()): {"String"},
    }
    for k2, exp in spec.items():
        got = rows.get(k2, set())
        ctx.ob(rule, "%s:core-tag:%s:%s" % (rule, k2[0][0].split(":")[-1] if k2[0] else "other", "ok" if (k2[1] and k2[1][0][1]) else ("err" if k2[1] else "-")),
               got == exp, "explicit tag %s with parse %s gives %s, expected %s" % (k2[0], k2[1], sorted(got), sorted(exp)), fn=tf)
    extra = set(rows) - set(spec)
    ctx.ob(rule, rule + ":core-tag:no-other-rows", not extra, "unexpected rows %s" % sorted(map(str, extra))[:3], fn=tf)


def rejections(ctx, cr):
    rule = "R-C11-rejections"
    # libyaml loader: alias => Err
    key = "rules::libyaml::loader::Loader::load"
    EV = "rules::libyaml::event::Event"
    f = cr.fns.get(key)
    if not f or EV not in cr.adts:
        ctx.lost(rule, rule + ":Loader::load", key)
    else:
        evn = [v["name"] for v in cr.adts[EV]["variants"]]
        outs = []

        class H(ai.Hooks):
            def call(self, a, st, term, callee, args):
                k = callee.get("key", "")
                mon = st.mon or Mon()
                if k.endswith("libyaml::parser::Parser::next"):
                    if mon.get("n", 0) >= 2:
                        return [(ai.AI.DIVERGE, mon)]
                    alts = []
                    for vi, n in enumerate(evn):
                        nf = len(cr.adts[EV]["variants"][vi]["fields"])
                        ev = ("enum", EV, vi, tuple(("sym", "EVP%d" % i) for i in range(nf)))
                        alts.append((("enum", ai.RESULT, 0, (("tuple", (ev, ("sym", "LOC"))),)), mon.set(ev=n, n=mon.get("n", 0) + 1)))
                    alts.append((("enum", ai.RESULT, 1, (("sym", "PARSE_ERR"),)), mon.set(ev="Err")))
                    return alts
                return None

            def ret(self, a, st, v):
                outs.append((v, st.mon or Mon()))
        a = ai.AI(cr, H())
        try:
            a.run(key, mon=Mon())
            ctx.states += a.n_states
            alias = [v for v, m in outs if m.get("ev") == "Alias"]
            ok = bool(alias) and all(v[0] == "enum" and v[1] == ai.RESULT and v[2] == 1 for v in alias)
            ctx.ob(rule, rule + ":alias", ok, "an alias event must end the load with an error: %s" % [ai.fmt_val(v, cr)[:50] for v in alias][:3], fn=f)
            perr = [v for v, m in outs if m.get("ev") == "Err"]
            ctx.ob(rule, rule + ":parser-error", bool(perr) and all(v[2] == 1 for v in perr), "a libyaml parse error must end the load with an error", fn=f)
        except ai.Undecided as e:
            ctx.ob(rule, rule + ":alias", False, "undecided %s" % e, fn=f)
    # non-string key in the libyaml loader
    key = "rules::libyaml::loader::Loader::handle_mapping_end"
    f = cr.fns.get(key)
    if not f:
        ctx.lost(rule, rule + ":handle_mapping_end", key)
    else:
        names = mv_names(cr)
        outs = []
        inserts = []

        class H2(ai.Hooks):
            def call(self, a, st, term, callee, args):
                p = M.norm_path(callee.get("path", ""))
                mon = st.mon or Mon()
                if p == "std::vec::Vec::remove":
                    which = "key" if mon.get("removed", 0) % 2 == 0 else "value"
                    return [(a.sym(st, "KV:" + which), mon.set(removed=mon.get("removed", 0) + 1))]
                if p == "std::vec::Vec::is_empty":
                    if mon.get("removed", 0) >= 2:
                        return [(("bool", True), mon)]
                    return [(("bool", False), mon)]
                if p.endswith("IndexMap::insert"):
                    inserts.append(mon.get("keyvar"))
                return None

            def constrained(self, a, st, sid, val):
                if sid == "KV:key" and val[0] == "enum" and val[1] == MV:
                    st.mon = (st.mon or Mon()).set(keyvar=names[val[2]])

            def ret(self, a, st, v):
                outs.append((v, st.mon or Mon()))
        a = ai.AI(cr, H2())
        try:
            a.run(key, mon=Mon())
            ctx.states += a.n_states
            bad = []
            for v, m in outs:
                kv = m.get("keyvar")
                if kv is None:
                    continue
                is_err = v[0] == "enum" and v[1] == ai.RESULT and v[2] == 1
                if kv != "String" and not is_err:
                    bad.append("a %s key is accepted" % kv)
                if kv == "String" and is_err:
                    bad.append("a String key is rejected")
            bad += ["a %s key is inserted" % k for k in inserts if k not in ("String", None)]
            ctx.ob(rule, rule + ":non-string-key:libyaml", not bad and len(outs) >= 3, "; ".join(sorted(set(bad))[:3]) or "only String keys are inserted; every other key kind is an error", fn=f,
                   sample={"loader": "libyaml", "paths": len(outs)})
        except ai.Undecided as e:
            ctx.ob(rule, rule + ":non-string-key:libyaml", False, "undecided %s" % e, fn=f)


def serde_conversion(ctx, cr):
    rule = "R-C11-serde-conversion"
    vn = [v["name"] for v in cr.adts[VAL]["variants"]]
    # variant tables of both conversions
    for src, key in (("serde_yaml::Value", "<rules::values::Value as std::convert::TryFrom<&serde_yaml::Value>>::try_from"),
                     ("serde_json::Value", "<rules::values::Value as std::convert::TryFrom<&serde_json::Value>>::try_from")):
        f = cr.fns.get(key)
        if not f or src not in cr.adts:
            ctx.lost(rule, "%s:table:%s" % (rule, src), key)
            continue
        sn = [v["name"] for v in cr.adts[src]["variants"]]
        rows = {}
        keykinds = set()

        class H4(ai.Hooks):
            def inline(self, a, st, k, fn):
                # per-element closures (try_fold / fold) are interpreted as the loops they stand for (engine model)
                return k.startswith(key + "::{closure")

            def call(self, a, st, term, callee, args):
                p = M.norm_path(callee.get("path", ""))
                mon = st.mon or Mon()
                if p.endswith("Number::is_i64"):
                    return [(("bool", True), mon.set(num="i64")), (("bool", False), mon)]
                if p.endswith("Number::is_u64"):
                    return [(("bool", True), mon.set(num="u64")), (("bool", False), mon.set(num="f64"))]
                # the same three-way classification written with the as_* accessors (`if let Some(i) = num.as_i64()`): as_x() is Some
                # exactly when is_x() holds (serde_json / serde_yaml)
                if p.endswith("Number::as_i64"):
                    if mon.get("num") == "i64":
                        return [(("enum", ai.OPTION, 1, (("sym", "I64"),)), mon)]
                    if mon.get("num") in ("u64", "f64"):
                        return [(("enum", ai.OPTION, 0, ()), mon)]
                    return [(("enum", ai.OPTION, 1, (("sym", "I64"),)), mon.set(num="i64")), (("enum", ai.OPTION, 0, ()), mon)]
                if p.endswith("Number::as_u64"):
                    if mon.get("num") == "u64":
                        return [(("enum", ai.OPTION, 1, (("sym", "U64"),)), mon)]
                    if mon.get("num") in ("i64", "f64"):
                        return [(("enum", ai.OPTION, 0, ()), mon)]
                    return [(("enum", ai.OPTION, 1, (("sym", "U64"),)), mon.set(num="u64")), (("enum", ai.OPTION, 0, ()), mon.set(num="f64"))]
                if p == "std::vec::Vec::push":
                    return [(("tuple", ()), mon.set(pushes=min(2, mon.get("pushes", 0) + 1)))]
                if p.endswith("Map::insert") or p.endswith("IndexMap::insert"):
                    return [(("sym", "OLD"), mon.set(inserts=min(2, mon.get("inserts", 0) + 1)))]
                if M.norm_path(callee.get("decl", "")) == "std::iter::Iterator::next" and term.get("to") is not None:
                    if mon.get("iters", 0) >= 1:
                        return [(("enum", ai.OPTION, 0, ()), mon)]
                    return [(("enum", ai.OPTION, 1, (a.sym(st, "ITEM"),)), mon.set(iters=1)), (("enum", ai.OPTION, 0, ()), mon)]
                return None

            def constrained(self, a, st, sid, val):
                if sid == "arg1*" and val[0] == "enum" and val[1] == src:
                    st.mon = (st.mon or Mon()).set(src=sn[val[2]])
                elif sid.startswith("ITEM") and val[0] == "enum" and val[1] == src and (st.mon or Mon()).get("keykind") is None and (st.mon or Mon()).get("src") in ("Mapping",):
                    st.mon = (st.mon or Mon()).set(keykind=sn[val[2]])

            def ret(self, a, st, v):
                m = st.mon or Mon()
                if v[0] == "enum" and v[1] == ai.RESULT and v[2] == 0 and v[3][0][0] == "enum" and v[3][0][1] == VAL:
                    rows.setdefault((m.get("src"), m.get("num")), set()).add((vn[v[3][0][2]], m.get("iters", 0), m.get("pushes", 0), m.get("inserts", 0)))
                    if m.get("src") == "Mapping" and m.get("iters", 0) >= 1:
                        keykinds.add(m.get("keykind"))
        a = ai.AI(cr, H4(), max_states=300000)
        a.pinned = ("arg1*",)
        try:
            a.run(key, mon=Mon())
        except ai.Undecided as e:
            ctx.ob(rule, "%s:table:%s" % (rule, src), False, "undecided %s" % e, fn=f)
            continue
        ctx.states += a.n_states
        spec = {("String", None): "String", ("Bool", None): "Bool", ("Null", None): "Null", ("Number", "i64"): "Int", ("Number", "u64"): "Int", ("Number", "f64"): "Float"}
        for k2, exp in spec.items():
            got = set(r[0] for r in rows.get(k2, set()))
            ctx.ob(rule, "%s:table:%s:%s%s" % (rule, src.split("::")[0], k2[0], ":" + k2[1] if k2[1] else ""), got == {exp},
                   "%s %s converts to %s, expected %s" % (src, k2, sorted(got), exp), fn=f)
        if src == "serde_yaml::Value":
            seq = rows.get(("Sequence", None), set())
            mp = rows.get(("Mapping", None), set())
            ok = bool(seq) and all(r[0] == "List" and r[2] == r[1] for r in seq)
            ctx.ob(rule, rule + ":yaml-sequence-elements", ok, "sequence paths (variant, iterations, pushes, inserts): %s — one push per element expected" % sorted(seq), fn=f)
            ok = bool(mp) and all(r[0] == "Map" and r[3] == r[1] for r in mp) and keykinds <= {"String", None} and "String" in keykinds
            ctx.ob(rule, rule + ":yaml-mapping-entries", ok, "mapping paths (variant, iterations, pushes, inserts): %s; key kinds accepted on Ok paths: %s — every string-keyed entry inserted once, other keys are errors" % (
                sorted(mp), sorted(map(str, keykinds))), fn=f, sample={"loader": "serde_yaml", "mapping_paths": sorted(map(str, mp))})
        if src == "serde_json::Value":
            # one push per array element, one insert per object entry
            arr = rows.get(("Array", None), set())
            obj = rows.get(("Object", None), set())
            ok = bool(arr) and all(r[0] == "List" and r[2] == r[1] for r in arr)
            ctx.ob(rule, rule + ":json-array-elements", ok, "array paths (variant, iterations, pushes, inserts): %s" % sorted(arr), fn=f)
            ok = bool(obj) and all(r[0] == "Map" and r[3] == r[1] for r in obj)
            ctx.ob(rule, rule + ":json-object-entries", ok, "object paths (variant, iterations, pushes, inserts): %s" % sorted(obj), fn=f,
                   sample={"loader": "serde_json", "object_paths": sorted(map(str, obj))})


PARSERS = {"serde_json::from_str": "JSON", "serde_yaml::from_str": "YAML"}


def format_fallback(ctx, cr):
    """Where an entry point reads text as one format and falls back to the other (run_checks: JSON then YAML; the test-spec readers:
    YAML then JSON), the fallback is unconditional: on every path on which the first parse returned Err the second parse is attempted
    before the function returns.  A fallback that is skipped for some texts (e.g. "it opens like JSON, so it is JSON") makes flow-style
    YAML mean something else through that entry point than through `validate`, whose loader has no such branch."""
    from engine import flow
    rule = "R-C11-format-fallback"
    cands = []
    for k, f in sorted(cr.fns.items()):
        if f.get("file", "").endswith("_tests.rs") or "::tests::" in k or f.get("kind") not in ("fn", "assoc", "closure"):
            continue
        own = set(PARSERS.get(M.norm_path(t["fn"].get("path", ""))) for bi, t in M.iter_calls(f)) - {None}
        if not own:
            continue
        unit = flow.unit_functions(cr, k, [k.rsplit("::", 1)[0].lstrip("<")], depth=2)
        both = set(own)
        for uk in unit:
            uf = cr.fns.get(uk)
            if uf:
                both |= set(PARSERS.get(M.norm_path(t["fn"].get("path", ""))) for bi, t in M.iter_calls(uf)) - {None}
        if both == {"JSON", "YAML"}:
            cands.append(k)
    # keep the outermost function of each unit (a closure / helper that is part of another candidate's unit is analysed there)
    roots = [k for k in cands if not any(o != k and k in flow.unit_functions(cr, o, [o.rsplit("::", 1)[0].lstrip("<")], depth=2) for o in cands)]
    n = 0
    for k in roots:
        f = cr.fns[k]
        skipped = []
        seen_both = []

        class H(ai.Hooks):
            def call(self, a, st, term, callee, args):
                fmt = PARSERS.get(M.norm_path(callee.get("path", "")))
                mon = st.mon or Mon()
                if fmt is None or term.get("to") is None:
                    return None
                tried = mon.get("tried", ())
                ok = ("enum", ai.RESULT, 0, (a.sym(st, a.site(st, ":doc")),))
                err = ("enum", ai.RESULT, 1, (a.sym(st, a.site(st, ":err")),))
                return [(ok, mon.set(tried=tried + (fmt,), failed=None)), (err, mon.set(tried=tried + (fmt,), failed=fmt))]

            def inline(self, a, st, key, fn):
                return fn.get("file") == f.get("file") and (fn.get("kind") == "closure" or ai.is_private_fn(fn))

            def ret(self, a, st, v):
                mon = st.mon or Mon()
                tried = mon.get("tried", ())
                if len(set(tried)) == 2:
                    seen_both.append(tried)
                if mon.get("failed") and len(set(tried)) == 1:
                    skipped.append((tried[0], " > ".join("bb%d(l.%s)" % (t[2], t[3]) for t in st.trace[-4:])))
        a = ai.AI(cr, H(), max_states=300000)
        try:
            a.run(k, mon=Mon())
        except ai.Undecided as e:
            ctx.ob(rule, "%s:%s" % (rule, k), False, "undecided %s" % e, fn=f)
            continue
        ctx.states += a.n_states
        n += 1
        other = {"JSON": "YAML", "YAML": "JSON"}
        ok = not skipped and bool(seen_both)
        ctx.ob(rule, "%s:%s" % (rule, k), ok, "the second format is tried whenever the first parse fails (%d paths reach both)" % len(seen_both) if ok else
               ("after the %s parse failed a path returns without trying %s [%s]: documents that only the other format accepts mean something else through this entry point" % (
                   skipped[0][0], other[skipped[0][0]], skipped[0][1]) if skipped else "no path reaches both parsers"), fn=f,
               sample={"fn": k, "paths_reaching_both": len(seen_both)} if n == 1 else None)
    ctx.note_analysed("format_fallbacks", roots)
    ctx.ob(rule, rule + ":coverage", n >= 3, "%d functions that read one text as JSON and as YAML analysed (floor 3: run_checks' loader and the two test-spec readers)" % n)


def run(ctx):
    cr = ctx.lib
    tag_tables(ctx, cr)
    scalar_cascade(ctx, cr)
    rejections(ctx, cr)
    serde_conversion(ctx, cr)
    format_fallback(ctx, cr)
    ctx.assumptions += [
        "which spellings str::parse::<i64/f64/bool> and serde_yaml accept (inf, True, 0x10, ...) is dependency/std behaviour and not decided",
        "key and list order preservation rests on the IndexMap / Vec container types (checked by C05)",
    ]

"""C02 — every composite status follows from its parts (DESIGN §5 C02).

Decided statically by monitor automata run over the MIR of each combinator site (engine/ai.py +
engine/statusmon.py).  Child evaluations are nondeterministic sources (PASS/FAIL/SKIP/Err); the monitor
remembers which outcomes occurred and the assertion at every Ok return is the formula of the
property text.  Rules:
  R-C02-combinators     the aggregation formulas (file, rule, when, type block, query block, CNF, named rule,
                        rule_status, Status::and)
  R-C02-guard-skips     a `when` that is not PASS gives SKIP and the body is never evaluated
  R-C02-record-status   the record that closes a function's own context carries the status it returns; delegating tracers hand the
                        record on unchanged, and the one rewriting wrapper rebuilds only the called rule's RuleCheck (name compared equal)
  R-C02-record-nesting  start_record / end_record are LIFO-balanced on every Ok path
"""
from engine import ai, mirlib as M
from engine import statusmon as S
from engine.statusmon import Mon

LEVEL = "other"
EVAL = "rules::eval::"


def field_sid(cr, base, adt, names):
    """sym id of a field path inside an unknown struct value, e.g. arg1*.2.1"""
    sid = base
    cur = adt
    for n in names:
        a = cr.adts.get(cur)
        if not a:
            return None
        fs = a["variants"][0]["fields"]
        idx = [i for i, f in enumerate(fs) if f["name"] == n]
        if not idx:
            return None
        sid = "%s.%d" % (sid, idx[0])
        cur = cr.ty_adt(fs[idx[0]]["ty"])
    return sid


def run_fn(ctx, cr, key, hooks, args=None, ext=None, max_states=600000):
    a = ai.AI(cr, hooks, max_states=max_states)
    a.run(key, args=args, mon=Mon(), ext=ext)
    ctx.states += a.n_states
    ctx.transitions += a.n_transitions
    ctx.note_analysed("functions", key)
    return a


def callee_is(callee, name):
    return callee.get("key", "") == EVAL + name


# ----------------------------------------------------------------------------- fold sites

def check_fold(ctx, cr, rule, fname, child, cond=None, fold=S.fold_all):
    key = EVAL + fname
    if key not in cr.fns:
        ctx.lost(rule, "%s:%s" % (rule, fname), "function " + key)
        return None

    class H(S.StatusHooks):
        def role_of(self, a, st, term, callee):
            if callee_is(callee, child):
                return "child"
            if cond and callee_is(callee, cond):
                return "cond"
            return "other"

    h = H(cr)
    try:
        run_fn(ctx, cr, key, h)
    except ai.Undecided as e:
        ctx.ob(rule, "%s:%s" % (rule, fname), False, "undecided: %s" % e, fn=cr.fns[key])
        return None
    return h


def eval_rules_file(ctx, cr):
    rule = "R-C02-combinators"
    h = check_fold(ctx, cr, rule, "eval_rules_file", "eval_rule")
    if not h:
        return
    f = cr.fns[EVAL + "eval_rules_file"]
    bad = []
    n = 0
    combos = set()
    for v, mon, tr in h.results:
        kind, s = S.ret_status(v)
        ch = mon.get("child", frozenset())
        if kind == "ok":
            n += 1
            combos.add((tuple(sorted(ch)), s))
            if "Err" in ch:
                bad.append("returns Ok(%s) although a rule evaluation errored [%s]" % (s, S.trace_str(tr)))
            elif s != S.fold_all(ch):
                bad.append("rules %s give file status %s, expected %s [%s]" % (sorted(ch), s, S.fold_all(ch), S.trace_str(tr)))
            if mon.get("other"):
                bad.append("unexpected status source %s" % sorted(mon.get("other")))
    ctx.ob(rule, rule + ":eval_rules_file:file-status", not bad and n >= 8, "; ".join(bad[:3]) or "%d Ok paths" % n, fn=f,
           sample={"fn": "eval_rules_file", "ok_paths": n, "child_sets": sorted(map(str, combos))})


def guard_site(ctx, cr, fname, fold_children=False):
    """eval_rule / eval_when_condition_block / eval_type_block_clause"""
    rule = "R-C02-combinators"
    grule = "R-C02-guard-skips"
    h = check_fold(ctx, cr, rule, fname, "eval_general_block_clause", cond="eval_conjunction_clauses")
    if not h:
        return
    f = cr.fns[EVAL + fname]
    bad, gbad = [], []
    n = 0
    saw_cond_pass = saw_cond_other = saw_nocond = False
    for v, mon, tr in h.results:
        kind, s = S.ret_status(v)
        ch = mon.get("child", frozenset())
        cd = mon.get("cond", frozenset())
        if mon.get("other"):
            bad.append("unexpected status source %s" % sorted(mon.get("other")))
        if len(cd) > 1:
            bad.append("condition evaluated more than once: %s" % sorted(cd))
        if cd and cd != {"PASS"}:
            saw_cond_other = True
            if ch:
                gbad.append("body evaluated (%s) although the condition was %s [%s]" % (sorted(ch), sorted(cd), S.trace_str(tr)))
            if kind == "ok" and s != "SKIP":
                gbad.append("condition %s gives %s, expected SKIP [%s]" % (sorted(cd), s, S.trace_str(tr)))
            if kind == "ok" and "Err" in cd:
                gbad.append("condition error swallowed")
            continue
        if cd == {"PASS"}:
            saw_cond_pass = True
        else:
            saw_nocond = True
        if kind == "ok":
            n += 1
            if "Err" in ch:
                bad.append("returns Ok(%s) although the body errored" % s)
            elif fold_children:
                if s != S.fold_all(ch):
                    bad.append("values %s give %s, expected %s [%s]" % (sorted(ch), s, S.fold_all(ch), S.trace_str(tr)))
            else:
                if len(ch) != 1 or s not in ch:
                    bad.append("body %s gives %s [%s]" % (sorted(ch), s, S.trace_str(tr)))
    ctx.ob(rule, "%s:%s:body-status" % (rule, fname), not bad and n >= 3, "; ".join(bad[:3]) or "%d Ok paths" % n, fn=f,
           sample={"fn": fname, "ok_paths": n})
    ctx.ob(grule, "%s:%s" % (grule, fname), not gbad and saw_cond_other and saw_cond_pass, "; ".join(gbad[:3]) or "cond!=PASS paths all SKIP without body evaluation", fn=f)


def guard_block(ctx, cr):
    """eval_guard_block_clause: all/some quantifier, unresolved values count as FAIL, empty => SKIP/FAIL"""
    rule = "R-C02-combinators"
    fname = "eval_guard_block_clause"
    key = EVAL + fname
    if key not in cr.fns:
        ctx.lost(rule, rule + ":" + fname, key)
        return
    sid_all = field_sid(cr, "arg1*", "rules::exprs::BlockGuardClause", ["query", "match_all"])
    sid_ne = field_sid(cr, "arg1*", "rules::exprs::BlockGuardClause", ["not_empty"])
    if not sid_all or not sid_ne:
        ctx.lost(rule, rule + ":" + fname + ":fields", "BlockGuardClause.query.match_all / not_empty")
        return
    qr = cr.adts.get("rules::QueryResult")
    qnames = [v["name"] for v in qr["variants"]]

    class H(S.StatusHooks):
        def role_of(self, a, st, term, callee):
            return "child" if callee_is(callee, "eval_general_block_clause") else "other"

        def extra_call(self, a, st, term, callee, args):
            p = M.norm_path(callee.get("path", ""))
            if p == "std::vec::Vec::is_empty":
                mon = st.mon
                return [(("bool", True), mon.set(empty=True)), (("bool", False), mon.set(empty=False))]
            return None

        def watch(self, a, st, sid, val):
            if sid == sid_all and val[0] == "bool":
                return st.mon.set(all=val[1])
            if sid == sid_ne and val[0] == "bool":
                return st.mon.set(not_empty=val[1])
            if val[0] == "enum" and val[1] == "rules::QueryResult" and "@1.0" in sid:
                return st.mon.add("value", qnames[val[2]])
            return None

    h = H(cr)
    try:
        run_fn(ctx, cr, key, h)
    except ai.Undecided as e:
        ctx.ob(rule, rule + ":" + fname, False, "undecided: %s" % e, fn=cr.fns[key])
        return
    bad = []
    n = 0
    for v, mon, tr in h.results:
        kind, s = S.ret_status(v)
        if kind != "ok":
            continue
        n += 1
        ch = set(mon.get("child", frozenset()))
        if "Err" in ch:
            bad.append("Ok(%s) although a block errored" % s)
            continue
        if mon.get("empty") is True:
            exp = "FAIL" if mon.get("not_empty") else "SKIP"
            if mon.get("not_empty") is None:
                bad.append("empty selection decided without reading not_empty")
            elif s != exp:
                bad.append("empty selection with not_empty=%s gives %s, expected %s" % (mon.get("not_empty"), s, exp))
            continue
        contrib = set(ch)
        if "UnResolved" in mon.get("value", frozenset()):
            contrib.add("FAIL")
        if mon.get("all") is None:
            bad.append("status decided without reading match_all [%s]" % S.trace_str(tr))
            continue
        exp = S.fold_all(contrib) if mon.get("all") else S.fold_some(contrib)
        if s != exp:
            bad.append("all=%s contributions %s give %s, expected %s [%s]" % (mon.get("all"), sorted(contrib), s, exp, S.trace_str(tr)))
    ctx.ob(rule, "%s:%s:quantified-fold" % (rule, fname), not bad and n >= 10, "; ".join(bad[:3]) or "%d Ok paths" % n, fn=cr.fns[key],
           sample={"fn": fname, "ok_paths": n})


def conjunction(ctx, cr):
    rule = "R-C02-combinators"
    fname = "eval_conjunction_clauses"
    key = EVAL + fname
    if key not in cr.fns:
        ctx.lost(rule, rule + ":" + fname, key)
        return

    class H(S.StatusHooks):
        """line bookkeeping: the monitor finalises a line whenever the outer iterator is advanced"""

        def extra_call(self, a, st, term, callee, args):
            decl = M.norm_path(callee.get("decl", ""))
            mon = st.mon
            if decl == "std::iter::Iterator::next":
                ty, _ = M.place_ty(self.cr, None, term["dest"], st.top.body)
                inner = None
                if ty is not None and ty.args():
                    it = ty.args()[0].strip_refs()
                    inner = it.adt_path()
                outer = inner == "std::vec::Vec"
                site = a.site(st, ":next")
                if outer:
                    m = self.close_line(mon)
                    return [(("enum", ai.OPTION, 1, (a.sym(st, site),)), m.set(inline=True)),
                            (("enum", ai.OPTION, 0, ()), m.set(inline=False, outer_done=True))]
                return None
            if term.get("to") is not None and S.is_status_result(self.cr, st.top.body, term["dest"]) and decl.startswith("std::ops::Fn"):
                if mon.get("line_pass"):
                    self.problems.append(("short-circuit", "an alternative is evaluated after another alternative of the same line PASSed", st.trace))
                if not mon.get("inline"):
                    self.problems.append(("line", "clause evaluated outside a line", st.trace))
                outs = []
                for i, n in enumerate(S.NAMES):
                    m = mon
                    if n == "PASS":
                        m = m.set(line_pass=True)
                    if n == "FAIL":
                        m = m.set(line_fail=True)
                    outs.append((("enum", ai.RESULT, 0, (S.status_val(i),)), m))
                outs.append((("enum", ai.RESULT, 1, (("sym", "CHILD_ERR"),)), mon.set(err=True)))
                return outs
            return None

        def close_line(self, mon):
            m = mon
            if mon.get("inline"):
                if mon.get("line_pass"):
                    m = m.set(any_pass=True)
                elif mon.get("line_fail"):
                    m = m.set(any_fail=True)
            return m.set(line_pass=False, line_fail=False)

        def role_of(self, a, st, term, callee):
            return "other"

    h = H(cr)
    try:
        run_fn(ctx, cr, key, h)
    except ai.Undecided as e:
        ctx.ob(rule, rule + ":" + fname, False, "undecided: %s" % e, fn=cr.fns[key])
        return
    bad = []
    n = 0
    for v, mon, tr in h.results:
        kind, s = S.ret_status(v)
        if kind != "ok":
            continue
        n += 1
        if mon.get("err"):
            bad.append("Ok(%s) although a clause errored" % s)
        if not mon.get("outer_done"):
            bad.append("returns Ok(%s) before every line was evaluated (conjunction must not short-circuit) [%s]" % (s, S.trace_str(tr)))
            continue
        exp = "FAIL" if mon.get("any_fail") else "PASS" if mon.get("any_pass") else "SKIP"
        if s != exp:
            bad.append("lines (some FAIL=%s, some PASS=%s) give %s, expected %s [%s]" % (bool(mon.get("any_fail")), bool(mon.get("any_pass")), s, exp, S.trace_str(tr)))
    for kind, d, tr in h.problems:
        if kind in ("short-circuit", "line"):
            bad.append("%s [%s]" % (d, S.trace_str(tr)))
    ctx.ob(rule, "%s:%s:cnf" % (rule, fname), not bad and n >= 3, "; ".join(bad[:3]) or "%d Ok paths" % n, fn=cr.fns[key],
           sample={"fn": fname, "ok_paths": n, "spec": "line PASS iff an alternative PASSed, FAIL iff none PASSed and one FAILed; result FAIL iff a line FAILed, PASS iff none FAILed and one PASSed"})


def named_clause(ctx, cr):
    rule = "R-C02-combinators"
    fname = "eval_guard_named_clause"
    key = EVAL + fname
    if key not in cr.fns:
        ctx.lost(rule, rule + ":" + fname, key)
        return
    sid_neg = field_sid(cr, "arg1*", "rules::exprs::GuardNamedRuleClause", ["negation"])
    if not sid_neg:
        ctx.lost(rule, rule + ":" + fname + ":negation", "GuardNamedRuleClause.negation")
        return

    class H(S.StatusHooks):
        def role_of(self, a, st, term, callee):
            return "child" if M.norm_path(callee.get("decl", "")).endswith("EvalContext::rule_status") else "other"

        def watch(self, a, st, sid, val):
            if sid == sid_neg and val[0] == "bool":
                return st.mon.set(neg=val[1])
            return None

    # the clause is given with its negation flag CONCRETE (one run per value): whether the code branches on the flag, xors it into the
    # status test or matches on a (status, flag) pair, the outcome per (rule status, flag) is the same table
    GNC = "rules::exprs::GuardNamedRuleClause"
    gf = [x["name"] for x in cr.adts[GNC]["variants"][0]["fields"]]
    rows = {}
    bad = []
    for negv in (False, True):
        h = H(cr)
        fields = tuple(("bool", negv) if n_ == "negation" else ("sym", "GNC.%s" % n_) for n_ in gf)
        try:
            run_fn(ctx, cr, key, h, args=[("ref", ("X", "GNC"), ()), None], ext={"GNC": ("enum", GNC, 0, fields)})
        except ai.Undecided as e:
            ctx.ob(rule, rule + ":" + fname, False, "undecided: %s" % e, fn=cr.fns[key])
            return
        for v, mon, tr in h.results:
            kind, s = S.ret_status(v)
            ch = mon.get("child", frozenset())
            if kind == "ok":
                if len(ch) != 1 or "Err" in ch:
                    bad.append("Ok(%s) with rule statuses %s" % (s, sorted(ch)))
                    continue
                rows.setdefault((next(iter(ch)), negv), set()).add(s)
    for st_ in S.NAMES:
        for neg in (False, True):
            exp = "PASS" if ((st_ == "PASS") != neg) else "FAIL"
            got = rows.get((st_, neg), set())
            ctx.ob(rule, "%s:%s:%s:not=%s" % (rule, fname, st_, neg), got == {exp} and not bad,
                   "rule %s under not=%s gives %s, expected %s; %s" % (st_, neg, sorted(got), exp, "; ".join(bad[:2])), fn=cr.fns[key],
                   sample={"rule_status": st_, "negation": neg, "clause": sorted(got)} if st_ == "SKIP" else None)


def rule_status(ctx, cr):
    rule = "R-C02-combinators"
    key = "<rules::eval_context::RootScope as rules::EvalContext>::rule_status"
    if key not in cr.fns:
        ctx.lost(rule, rule + ":rule_status", key)
        return

    class H(S.StatusHooks):
        def role_of(self, a, st, term, callee):
            return None     # handled in extra_call (ordered)

        def extra_call(self, a, st, term, callee, args):
            p = M.norm_path(callee.get("path", ""))
            mon = st.mon
            if callee_is(callee, "eval_rule"):
                if mon.get("decided"):
                    self.problems.append(("after-decided", "a further definition is evaluated after a non-SKIP one", st.trace))
                outs = []
                for i, n in enumerate(S.NAMES):
                    m = mon.set(evaluated=True)
                    if n != "SKIP":
                        m = m.set(decided=n)
                    outs.append((("enum", ai.RESULT, 0, (S.status_val(i),)), m))
                outs.append((("enum", ai.RESULT, 1, (("sym", "CHILD_ERR"),)), mon.set(err=True)))
                return outs
            if p == "std::collections::HashMap::get":
                which = "memo" if not mon.get("memo_looked") else "rules"
                if which == "memo":
                    return [(("enum", ai.OPTION, 1, (("ref", ("X", "MEMO"), ()),)), mon.set(memo_looked=True, memo_hit=True)),
                            (("enum", ai.OPTION, 0, ()), mon.set(memo_looked=True, memo_hit=False))]
                return [(("enum", ai.OPTION, 1, (("sym", "RULES"),)), mon.set(rules_found=True)),
                        (("enum", ai.OPTION, 0, ()), mon.set(rules_found=False))]
            if p == "std::collections::HashMap::insert" and len(args) == 3:
                v = a.resolve(st, args[2])
                return [(("sym", "INSERTED"), mon.set(inserted=S.NAMES[v[2]] if S.status_of(v) is not None else "?"))]
            return None

    h = H(cr, track_records=False)
    a = None
    try:
        a = run_fn(ctx, cr, key, h, ext={"MEMO": ("sym", "MEMO_STATUS")})
    except ai.Undecided as e:
        ctx.ob(rule, rule + ":rule_status", False, "undecided: %s" % e, fn=cr.fns[key])
        return
    bad = []
    n = 0
    for v, mon, tr in h.results:
        kind, s = S.ret_status(v)
        if mon.get("memo_hit"):
            if not (kind == "okval" and s == ("sym", "MEMO_STATUS")) or mon.get("evaluated"):
                bad.append("memo hit must return the memoised status without evaluating: %s" % ai.fmt_val(v, cr))
            continue
        if kind == "ok":
            n += 1
            exp = mon.get("decided") or "SKIP"
            if mon.get("err"):
                bad.append("Ok although a definition errored")
            if s != exp:
                bad.append("definitions decided=%s give %s" % (mon.get("decided"), s))
            if mon.get("inserted") != s:
                bad.append("memoised %s but returned %s" % (mon.get("inserted"), s))
        elif kind == "okval":
            bad.append("returns a status that is neither memo nor evaluated: %s" % ai.fmt_val(v, cr))
    for kind, d, tr in h.problems:
        bad.append(d)
    ctx.ob(rule, rule + ":rule_status", not bad and n >= 3, "; ".join(bad[:3]) or "%d Ok paths" % n, fn=cr.fns[key],
           sample={"fn": "RootScope::rule_status", "ok_paths": n})


def status_and(ctx, cr):
    rule = "R-C02-combinators"
    key = "rules::Status::and"
    if key not in cr.fns:
        ctx.lost(rule, rule + ":Status::and", key)
        return
    spec = {("FAIL", "PASS"): "FAIL", ("FAIL", "FAIL"): "FAIL", ("FAIL", "SKIP"): "FAIL",
            ("PASS", "FAIL"): "FAIL", ("PASS", "PASS"): "PASS", ("PASS", "SKIP"): "PASS",
            ("SKIP", "PASS"): "PASS", ("SKIP", "FAIL"): "FAIL", ("SKIP", "SKIP"): "SKIP"}
    for i, x in enumerate(S.NAMES):
        for j, y in enumerate(S.NAMES):
            h = S.StatusHooks(cr, track_records=False)
            a = ai.AI(cr, h)
            a.run(key, args=[("ref", ("X", "SELF"), ()), S.status_val(j)], mon=Mon(), ext={"SELF": S.status_val(i)})
            ctx.states += a.n_states
            got = set(S.NAMES[S.status_of(v)] if S.status_of(v) is not None else "?" for v, m, t in h.results)
            ctx.ob(rule, "%s:Status::and:%s:%s" % (rule, x, y), got == {spec[(x, y)]}, "%s.and(%s) = %s, expected %s" % (x, y, sorted(got), spec[(x, y)]), fn=cr.fns[key])
    # Default is the identity of the fold
    dk = "<rules::Status as std::default::Default>::default"
    if dk in cr.fns:
        h = S.StatusHooks(cr, track_records=False)
        a = ai.AI(cr, h)
        a.run(dk, mon=Mon())
        got = set(S.NAMES[S.status_of(v)] if S.status_of(v) is not None else "?" for v, m, t in h.results)
        ctx.ob(rule, rule + ":Status::default", got == {"SKIP"}, "Status::default() = %s, expected SKIP (identity of the fold)" % sorted(got), fn=cr.fns[dk])
    else:
        ctx.lost(rule, rule + ":Status::default", dk)


# ----------------------------------------------------------------------------- record typestate

RECORD_FNS_MIN = 14
OWN_STATUS_FNS = ["eval_rules_file", "eval_rule", "eval_type_block_clause", "eval_guard_block_clause",
                  "eval_when_condition_block", "eval_guard_access_clause", "eval_guard_named_clause"]


def record_typestate(ctx, cr):
    nrule = "R-C02-record-nesting"
    srule = "R-C02-record-status"
    fns = []
    n_start = n_end = 0
    for k, f in cr.fns.items():
        if f.get("impl_trait", "").endswith("RecordTracer"):
            continue    # the tracer implementations themselves
        s = e = 0
        for bi, t in M.iter_calls(f):
            d = M.norm_path(t["fn"].get("decl", ""))
            if d.endswith("RecordTracer::start_record"):
                s += 1
            if d.endswith("RecordTracer::end_record"):
                e += 1
        if s or e:
            fns.append((k, s, e))
            n_start += s
            n_end += e
    ctx.note_analysed("record_sites", "start_record=%d end_record=%d in %d functions" % (n_start, n_end, len(fns)))
    if len(fns) < RECORD_FNS_MIN:
        ctx.lost(nrule, nrule + ":floor", "only %d functions with record events (floor %d)" % (len(fns), RECORD_FNS_MIN))
    # a private helper that only closes (or only opens) records works on its caller's record stack: it is interpreted in place at its call
    # sites instead of being judged on its own (`fn bail(..) { end_record(..)?; Err(e) }` split off from an error arm)
    callers_of = {}
    for k2, f2 in cr.fns.items():
        for bi, t in M.iter_calls(f2):
            callers_of.setdefault(t["fn"].get("key"), set()).add(k2.split("::{closure")[0])
    analysed = set(k for k, s_, e_ in fns)
    unbalanced = set(k for k, s_, e_ in fns if s_ != e_ and ai.is_private_fn(cr.fns[k]) and callers_of.get(k) and callers_of[k] <= analysed - {k})
    for k, s, e in sorted(fns):
        f = cr.fns[k]
        own = k.startswith(EVAL) and k[len(EVAL):] in OWN_STATUS_FNS
        if k in unbalanced:
            ctx.ob(nrule, "%s:%s" % (nrule, k), True, "private helper working on its callers' record stack (start=%d, end=%d): interpreted in place in %s" % (s, e, sorted(x.split("::")[-1] for x in callers_of[k])), fn=f)
            continue

        class H(S.StatusHooks):
            def role_of(self, a, st, term, callee):
                return "child"

            def inline(self, a, st, key_, fn_):
                return key_ in unbalanced or S.StatusHooks.inline(self, a, st, key_, fn_)

            def extra_call(self, a, st, term, callee, args):
                # sources that are not Result<Status>: keep the exploration finite and generic
                return None

        h = H(cr)
        big = len(f["blocks"]) > 300
        try:
            run_fn(ctx, cr, k, h, max_states=1500000 if big else 600000)
        except ai.Undecided as ex:
            ctx.ob(nrule, "%s:%s" % (nrule, k), False, "undecided: %s" % ex, fn=f)
            continue
        bad = []
        sbad = []
        n_ok = 0
        for v, mon, tr in h.results:
            kind, sv = S.ret_status(v)
            if kind in ("err",):
                continue
            n_ok += 1
            if mon.get("stack", ()):
                bad.append("returns %s with open records %s [%s]" % (ai.fmt_val(v, cr)[:40], list(mon.get("stack")), S.trace_str(tr)))
            if own and kind == "ok":
                last = mon.get("last")
                if not last or last[3] != 0:
                    sbad.append("no closing record on the function's own context before returning %s" % sv)
                elif last[2] != sv:
                    sbad.append("closing record %s carries %s but the function returns %s [%s]" % (last[1], last[2], sv, S.trace_str(tr)))
        for kind, d, tr in h.problems:
            if kind.startswith("record"):
                bad.append("%s [%s]" % (d, S.trace_str(tr)))
        ctx.ob(nrule, "%s:%s" % (nrule, k), not bad and n_ok >= 1, "; ".join(bad[:3]) or "%d non-error returns, %d start / %d end sites" % (n_ok, s, e), fn=f,
               sample={"fn": k, "start_sites": s, "end_sites": e, "ok_returns": n_ok} if k.endswith("eval_rule") else None)
        if own:
            ctx.ob(srule, "%s:%s" % (srule, k), not sbad and n_ok >= 1, "; ".join(sbad[:3]) or "closing record status == returned status on %d paths" % n_ok, fn=f)
    for name in OWN_STATUS_FNS:
        if EVAL + name not in cr.fns:
            ctx.lost(srule, "%s:%s" % (srule, EVAL + name), "function missing")


def delegates_preserve(ctx, cr):
    """Every RecordTracer::end_record that hands the record on to a parent tracer hands on the SAME record: either the incoming value
    itself, or — the one rewriting wrapper, ResolvedParameterContext, which stamps the call site's message on the called rule's
    RuleCheck — a record of the same variant whose name and status are the incoming record's name and status.  Otherwise the tree
    shows a status that is not the one the evaluator computed and returned."""
    rule = "R-C02-record-status"
    RT = "rules::RecordType"
    vn = [v["name"] for v in cr.adts[RT]["variants"]] if RT in cr.adts else []
    keys = [k for k in cr.fns if k.endswith("as rules::RecordTracer>::end_record")]
    n_del = 0
    for k in sorted(keys):
        f = cr.fns[k]
        seen = []

        guards = []

        def mentions_record(a, st, v, n=0):
            v = a.resolve(st, v)
            if "arg3@" in ai.fmt_val(v):
                return True
            if v[0] == "ref" and n < 4:
                try:
                    return mentions_record(a, st, a.read_at(st, v[1], v[2]), n + 1)
                except Exception:
                    return False
            return False

        class H(ai.Hooks):
            def call(self, a, st, term, callee, args):
                d = M.norm_path(callee.get("decl", ""))
                mon = st.mon or Mon()
                if d.endswith("RecordTracer::end_record") and st.top is st.frames[0] and len(args) >= 3:
                    seen.append(a.resolve(st, args[2]))
                    guards.append((a.resolve(st, args[2]), mon.get("nameeq")))
                    return [(("enum", ai.RESULT, 0, (("tuple", ()),)), st.mon), (("enum", ai.RESULT, 1, (("sym", "TRACER_ERR"),)), st.mon)]
                if d in ("std::cmp::PartialEq::eq", "std::cmp::PartialEq::ne") and st.top is st.frames[0] and len(args) == 2 and any(mentions_record(a, st, x) for x in args):
                    # a comparison of (a field of) the incoming record: remember its outcome on this path
                    eq = d.endswith("::eq")
                    return [(("bool", True), mon.set(nameeq=eq)), (("bool", False), mon.set(nameeq=not eq))]
                return None
        a = ai.AI(cr, H())
        try:
            a.run(k, mon=Mon())
        except ai.Undecided as e:
            ctx.ob(rule, "%s:delegate-preserves:%s" % (rule, k), False, "undecided %s" % e, fn=f)
            continue
        ctx.states += a.n_states
        if not seen:
            continue       # the terminal tracer (RecordTracker) stores the record; decided by record_typestate
        n_del += 1
        bad = []
        for v in seen:
            if v == ("sym", "arg3"):
                continue
            if v[0] == "enum" and v[1] == RT:
                payload = v[3][0] if v[3] else None
                name = vn[v[2]]
                if payload is not None and payload[0] == "sym" and payload[1] == "arg3@%d.0" % v[2]:
                    continue       # same variant, same payload
                if payload is not None and payload[0] == "enum" and str(payload[1]).endswith("NamedStatus"):
                    flds = [x["name"] for x in cr.adts[payload[1]]["variants"][0]["fields"]]
                    vals = dict(zip(flds, payload[3]))
                    nm, stt = ai.fmt_val(vals.get("name")), ai.fmt_val(vals.get("status"))
                    if "arg3@%d.0.%d" % (v[2], flds.index("name")) in nm and "arg3@%d.0.%d" % (v[2], flds.index("status")) in stt:
                        continue
                    bad.append("%s is rebuilt with name %s and status %s instead of the incoming record's" % (name, nm[:30], stt[:30]))
                    continue
            bad.append("hands on %s" % ai.fmt_val(v, cr)[:80])
        # a tracer that rebuilds RuleCheck records does so only for the record of the rule it stands for: the incoming RuleCheck must
        # also be handed on untouched on some path (the name comparison), otherwise every nested rule check gets the call site's message
        rebuilt = [v for v in seen if v[0] == "enum" and v[1] == RT and v[3] and v[3][0][0] == "enum"]
        untouched = [v for v in seen if v[0] == "enum" and v[1] == RT and v[3] and v[3][0][0] == "sym" and vn[v[2]] == "RuleCheck"]
        if rebuilt and not untouched:
            bad.append("every RuleCheck passing through is rebuilt (no path hands the incoming record on unchanged): nested rule checks lose their own message to the call site's")
        # ... and the rebuilt record is the called rule's: it is produced only on the path where the incoming record's name was compared
        # with the rule this tracer stands for and found equal
        for v, nameeq in guards:
            if v[0] == "enum" and v[1] == RT and v[3] and v[3][0][0] == "enum" and nameeq is not True:
                bad.append("a RuleCheck is rebuilt with the call site's message on a path where its name was not found equal to the called rule's (%s): the message lands on other rules' records" % (
                    "no comparison" if nameeq is None else "names differ"))
        ctx.ob(rule, "%s:delegate-preserves:%s" % (rule, k.split(" as ")[0].lstrip("<")), not bad, "; ".join(sorted(set(bad))[:2]) or "%d delegations, record (or its name and status) unchanged" % len(seen), fn=f,
               sample={"tracer": k, "delegations": len(seen)} if "ResolvedParameterContext" in k else None)
    if n_del < 4:
        ctx.lost(rule, rule + ":delegate-preserves:floor", "delegating end_record implementations: %d (floor 4)" % n_del)


def run(ctx):
    cr = ctx.lib
    eval_rules_file(ctx, cr)
    guard_site(ctx, cr, "eval_rule")
    guard_site(ctx, cr, "eval_when_condition_block")
    guard_site(ctx, cr, "eval_type_block_clause", fold_children=True)
    guard_block(ctx, cr)
    conjunction(ctx, cr)
    named_clause(ctx, cr)
    rule_status(ctx, cr)
    status_and(ctx, cr)
    record_typestate(ctx, cr)
    delegates_preserve(ctx, cr)
    ctx.assumptions += [
        "child evaluations may return any of PASS/FAIL/SKIP/Err independently (over-approximation)",
        "the terminal RecordTracer (RecordTracker) stores what it is given; the delegating tracers are decided to hand the record on unchanged",
        "that the printed tree contains the right children for arbitrary programs is behavioural and not claimed",
    ]

"""C13 — comparison operators form a coherent algebra (structural clauses, DESIGN §5 C13).

Decided statically (E2 decision tables extracted by abstract interpretation of the MIR):
  R-C13-order-tables   compare_lt/le/gt/ge : Ordering -> bool tables, kernel called with (first, other)
  R-C13-algebra        table algebra: trichotomy, <= = < or ==, >= = > or ==, gt = not le, lt = not ge
  R-C13-kernel         compare_values: same-type arms only, operand order, cross-type => NotComparable
  R-C13-eq-routes      compare_eq: which mechanism decides each of the 12x12 variant pairs; map equality is order-insensitive; no evaluator
                       function keys a hash collection by document values (Hash disagrees with compare_eq) outside a reviewed table; the
                       element-of-a-literal-list shorthand of the keys filter is guarded by len() == 1
  R-C13-ranges         is_within table over the inclusive bits; parse_range bracket -> bit, bound -> field
"""
import re
from engine import ai, mirlib as M

ORD = "std::cmp::Ordering"
PAV = "rules::path_value::PathAwareValue"
ERR = "rules::errors::Error"
ORDER_SPEC = {
    "compare_lt": {"Less": True, "Equal": False, "Greater": False},
    "compare_le": {"Less": True, "Equal": True, "Greater": False},
    "compare_gt": {"Less": False, "Equal": False, "Greater": True},
    "compare_ge": {"Less": False, "Equal": True, "Greater": True},
}
ORDERED_SAME = {"Null", "Int", "String", "Float", "Char"}


def find1(ctx, cr, rule, name, prefix="rules::path_value::"):
    ks = [k for k in cr.fns if k == prefix + name]
    if len(ks) != 1:
        ctx.lost(rule, "%s:%s" % (rule, name), "function %s%s not found" % (prefix, name))
        return None
    return ks[0]


def variant_names(cr, adt):
    return [v["name"] for v in cr.adts[adt]["variants"]]


def arg_root(v):
    """('ref', ('X','argN'), path) -> 'argN'"""
    if v and v[0] == "ref" and v[1][0] == "X":
        return v[1][1]
    if v and v[0] == "sym":
        return v[1]
    return None


def deep_root(a, st, v, n=0):
    """which parameter (arg1/arg2/...) a pointer chain leads into"""
    v = a.resolve(st, v)
    if v[0] == "ref":
        if v[1][0] == "X":
            nm = v[1][1]
            if nm.startswith("arg"):
                return nm.split("*")[0].split("@")[0].split(".")[0]
            if n < 5 and nm in st.ext:
                return deep_root(a, st, st.ext[nm], n + 1)
            return nm
        if n < 5:
            return deep_root(a, st, a.read_at(st, v[1], v[2]), n + 1)
    if v[0] == "sym":
        return v[1].split("*")[0].split("@")[0].split(".")[0]
    return None


class KernelSource(ai.Hooks):
    """compare_values is a source with 4 outcomes; records the arguments it was called with."""

    def __init__(self, cr):
        self.cr = cr
        self.arg_orders = set()

    def call(self, a, st, term, callee, args):
        if callee.get("key", "").endswith("path_value::compare_values"):
            self.arg_orders.add((arg_root(a.resolve(st, args[0])), arg_root(a.resolve(st, args[1]))))
            outs = []
            for vi, n in enumerate(variant_names(self.cr, ORD)):
                outs.append((("enum", ai.RESULT, 0, (("enum", ORD, vi, ()),)), n))
            outs.append((("enum", ai.RESULT, 1, (("sym", "KERNEL_ERR"),)), "Err"))
            return outs
        return None


def order_tables(ctx, cr):
    rule = "R-C13-order-tables"
    tables = {}
    for name, spec in ORDER_SPEC.items():
        k = find1(ctx, cr, rule, name)
        if not k:
            continue
        h = KernelSource(cr)
        a = ai.AI(cr, h)
        a.run(k)
        ctx.states += a.n_states
        ctx.transitions += a.n_transitions
        ctx.note_analysed("functions", k)
        got = {}
        for v, mon, tr in a.returns:
            got.setdefault(mon, set()).add(v)
        row_tbl = {}
        for o in ("Less", "Equal", "Greater"):
            vals = got.get(o, set())
            exp = ("enum", ai.RESULT, 0, (("bool", spec[o]),))
            ok = vals == {exp}
            row_tbl[o] = next(iter(vals))[3][0][1] if len(vals) == 1 and next(iter(vals))[2] == 0 and next(iter(vals))[3][0][0] == "bool" else None
            ctx.ob(rule, "%s:%s:%s" % (rule, name, o), ok,
                   "kernel says %s => expected Ok(%s), code returns %s" % (o, spec[o], sorted(ai.fmt_val(x, cr) for x in vals)),
                   fn=cr.fns[k], sample={"fn": name, "ordering": o, "returns": [ai.fmt_val(x, cr) for x in vals]})
        vals = got.get("Err", set())
        ok = vals == {("enum", ai.RESULT, 1, (("sym", "KERNEL_ERR"),))}
        ctx.ob(rule, "%s:%s:Err" % (rule, name), ok, "kernel error must propagate unchanged, got %s" % sorted(ai.fmt_val(x, cr) for x in vals), fn=cr.fns[k])
        ok = h.arg_orders == {("arg1", "arg2")}
        ctx.ob(rule, "%s:%s:operands" % (rule, name), ok, "kernel must be called with (first, other); saw %s" % sorted(h.arg_orders), fn=cr.fns[k])
        tables[name] = row_tbl
    # algebra over the extracted tables
    rule = "R-C13-algebra"
    if len(tables) == 4 and all(None not in t.values() for t in tables.values()):
        lt, le, gt, ge = (tables[n] for n in ("compare_lt", "compare_le", "compare_gt", "compare_ge"))
        eq = {"Less": False, "Equal": True, "Greater": False}
        for o in ("Less", "Equal", "Greater"):
            ctx.ob(rule, "%s:trichotomy:%s" % (rule, o), [lt[o], eq[o], gt[o]].count(True) == 1, "exactly one of <,==,> on %s" % o)
            ctx.ob(rule, "%s:le:%s" % (rule, o), le[o] == (lt[o] or eq[o]), "<= iff < or == on %s" % o)
            ctx.ob(rule, "%s:ge:%s" % (rule, o), ge[o] == (gt[o] or eq[o]), ">= iff > or == on %s" % o)
            ctx.ob(rule, "%s:gt-not-le:%s" % (rule, o), gt[o] == (not le[o]), "not(X>v) == X<=v on %s" % o)
            ctx.ob(rule, "%s:lt-not-ge:%s" % (rule, o), lt[o] == (not ge[o]), "not(X<v) == X>=v on %s" % o)
    else:
        ctx.ob(rule, rule + ":tables", False, "order tables are not total boolean tables: %s" % tables)


class KernelHooks(ai.Hooks):
    """inside compare_values: Ord::cmp / partial_cmp are sources"""

    def __init__(self, cr):
        self.cr = cr

    def call(self, a, st, term, callee, args):
        decl = M.norm_path(callee.get("decl", ""))
        if decl in ("std::cmp::Ord::cmp", "std::cmp::PartialOrd::partial_cmp"):
            roots = (arg_root(a.resolve(st, args[0])), arg_root(a.resolve(st, args[1])))
            mon = (st.mon or ()) + ((decl.split("::")[-1], roots),)
            if decl.endswith("::cmp"):
                return [(("sym", "CMP"), mon)]
            return [(("enum", ai.OPTION, 1, (("sym", "CMP"),)), mon + ("some",)), (("enum", ai.OPTION, 0, ()), mon + ("none",))]
        return None


def pair_of(a, st):
    """variant names the path committed to for *arg1 / *arg2"""
    out = []
    for n in ("arg1*", "arg2*"):
        v = st.cons.get(n)
        out.append(v[2] if v and v[0] == "enum" else None)
    return tuple(out)


def kernel(ctx, cr):
    rule = "R-C13-kernel"
    k = find1(ctx, cr, rule, "compare_values")
    if not k:
        return
    names = variant_names(cr, PAV)
    rows = {}

    class H(KernelHooks):
        def ret(self, a, st, v):
            rows.setdefault(pair_of(a, st), set()).add((v, st.mon))

    a = ai.AI(cr, H(cr))
    a.pinned = ("arg1*", "arg2*")
    a.run(k)
    ctx.states += a.n_states
    ctx.transitions += a.n_transitions
    ctx.note_analysed("functions", k)
    nc = [i for i, v in enumerate(cr.adts[ERR]["variants"]) if v["name"] == "NotComparable"]
    nc = nc[0] if nc else -1
    # expand rows with wildcards (None = not inspected on that path => holds for every variant)
    full = {}
    for (x, y), outs in rows.items():
        for i in (range(len(names)) if x is None else [x]):
            for j in (range(len(names)) if y is None else [y]):
                full.setdefault((i, j), set()).update(outs)
    n = 0
    for i, ni in enumerate(names):
        for j, nj in enumerate(names):
            outs = full.get((i, j), set())
            key = "%s:%s:%s" % (rule, ni, nj)
            n += 1
            if ni == nj and ni in ORDERED_SAME:
                if ni == "Null":
                    ok = outs and all(v == ("enum", ai.RESULT, 0, (("enum", ORD, 1, ()),)) for v, m in outs)
                    ctx.ob(rule, key, ok, "Null vs Null must be Ok(Equal): %s" % fmt_outs(outs, cr))
                    continue
                ok = bool(outs)
                for v, m in outs:
                    if not m or m[0][1] != ("arg1", "arg2"):
                        ok = False
                    elif m[0][0] == "cmp":
                        ok = ok and v == ("enum", ai.RESULT, 0, (("sym", "CMP"),))
                    elif m[-1] == "some":
                        ok = ok and v == ("enum", ai.RESULT, 0, (("sym", "CMP"),))
                    elif m[-1] == "none":
                        ok = ok and v[0] == "enum" and v[1] == ai.RESULT and v[2] == 1 and v[3][0][0] == "enum" and v[3][0][2] == nc
                ctx.ob(rule, key, ok, "same ordered type must return the primitive ordering of (first, other): %s" % fmt_outs(outs, cr),
                       sample={"pair": [ni, nj], "outcomes": fmt_outs(outs, cr)} if ni == "Int" else None)
            else:
                ok = bool(outs) and all(
                    v[0] == "enum" and v[1] == ai.RESULT and v[2] == 1 and v[3][0][0] == "enum" and v[3][0][1] == ERR and v[3][0][2] == nc and not m
                    for v, m in outs)
                ctx.ob(rule, key, ok, "different or unordered types must be Err(NotComparable) without comparing: %s" % fmt_outs(outs, cr),
                       sample={"pair": [ni, nj], "outcomes": fmt_outs(outs, cr)} if (ni, nj) == ("Int", "Float") else None)
    ctx.note_analysed("table_rows", "compare_values: %d variant pairs" % n)


def fmt_outs(outs, cr):
    return sorted("%s via %s" % (ai.fmt_val(v, cr)[:80], sorted(m, key=str) if m else "-") for v, m in outs)[:6]


EQ_ROUTE_SPEC = {
    ("String", "Regex"): "regex", ("Regex", "String"): "regex",
    ("String", "String"): "streq", ("Map", "Map"): "mapcmp", ("List", "List"): "listcmp",
    ("Bool", "Bool"): "streq", ("Regex", "Regex"): "streq",
    ("Int", "RangeInt"): "range", ("Float", "RangeFloat"): "range", ("Char", "RangeChar"): "range",
}


def eq_routes(ctx, cr):
    """compare_eq: for every variant pair, which mechanism produces the result.
    The monitor is the SET of events seen (finite), not their sequence."""
    rule = "R-C13-eq-routes"
    k = find1(ctx, cr, rule, "compare_eq")
    if not k:
        return
    names = variant_names(cr, PAV)
    rows = {}

    class H(ai.Hooks):
        def call(self, a, st, term, callee, args):
            key = callee.get("key", "")
            decl = M.norm_path(callee.get("decl", ""))
            path = M.norm_path(callee.get("path", ""))
            mon = st.mon or frozenset()
            if key.endswith("path_value::compare_values"):
                roots = (arg_root(a.resolve(st, args[0])), arg_root(a.resolve(st, args[1])))
                outs = []
                for vi, n in enumerate(variant_names(cr, ORD)):
                    outs.append((("enum", ai.RESULT, 0, (("enum", ORD, vi, ()),)), mon | {("kernel", roots, n)}))
                outs.append((("enum", ai.RESULT, 1, (("sym", "KERNEL_ERR"),)), mon | {("kernel", roots, "Err")}))
                return outs
            if key.endswith("path_value::compare_eq"):
                return [(("enum", ai.RESULT, 0, (("bool", True),)), mon | {("child", True)}),
                        (("enum", ai.RESULT, 0, (("bool", False),)), mon | {("child", False)}),
                        (("enum", ai.RESULT, 1, (("sym", "CHILD_ERR"),)), mon | {("child", "Err")})]
            if path.endswith("Regex::is_match"):
                return [(("enum", ai.RESULT, 0, (("sym", "IS_MATCH"),)), mon | {("is_match",)}),
                        (("enum", ai.RESULT, 1, (("sym", "RE_ERR"),)), mon | {("is_match_err",)})]
            if decl == "rules::values::WithinRange::is_within":
                return [(("sym", "WITHIN"), mon | {("range",)})]
            if decl in ("std::cmp::PartialEq::eq",):
                # equality of two Ordering values (`compare_values(..)? == Ordering::Equal`) is the kernel's result being read, not a
                # comparison of the operands: decided concretely
                vals = [a.deref_val(st, x) for x in args]
                if all(v is not None and v[0] == "enum" and str(v[1]).endswith("cmp::Ordering") for v in vals):
                    return [(("bool", vals[0][2] == vals[1][2]), mon)]
                roots = tuple(sorted(str(deep_root(a, st, x)) for x in args))
                return [(("sym", "STREQ"), mon | {("streq", roots)})]
            if path.endswith("IndexMap::get"):
                return [(("enum", ai.OPTION, 1, (("sym", "GOT"),)), mon | {("get", True)}),
                        (("enum", ai.OPTION, 0, ()), mon | {("get", False)})]
            return None

        def ret(self, a, st, v):
            rows.setdefault(pair_of(a, st), set()).add((v, st.mon or frozenset()))

    a = ai.AI(cr, H())
    a.pinned = ("arg1*", "arg2*")
    a.run(k)
    ctx.states += a.n_states
    ctx.transitions += a.n_transitions
    ctx.note_analysed("functions", k)
    full = {}
    for (x, y), outs in rows.items():
        for i in (range(len(names)) if x is None else [x]):
            for j in (range(len(names)) if y is None else [y]):
                full.setdefault((i, j), set()).update(outs)
    T = ("enum", ai.RESULT, 0, (("bool", True),))
    F = ("enum", ai.RESULT, 0, (("bool", False),))
    for i, ni in enumerate(names):
        for j, nj in enumerate(names):
            outs = full.get((i, j), set())
            key = "%s:%s:%s" % (rule, ni, nj)
            route = EQ_ROUTE_SPEC.get((ni, nj), "kernel")
            ok = bool(outs)
            why = ""
            for v, m in outs:
                tags = sorted(set(e[0] for e in m))
                if route == "kernel":
                    ms = list(m)
                    if len(ms) != 1 or ms[0][0] != "kernel" or ms[0][1] != ("arg1", "arg2"):
                        ok, why = False, "must be decided by the ordering kernel on (first, second) only"
                    else:
                        o = ms[0][2]
                        if o == "Err":
                            ok = ok and v == ("enum", ai.RESULT, 1, (("sym", "KERNEL_ERR"),))
                        else:
                            ok = ok and v == {"Equal": T, "Less": F, "Greater": F}[o]
                elif route == "regex":
                    if "kernel" in tags or "child" in tags or "streq" in tags:
                        ok, why = False, "regex comparison must be decided by Regex::is_match only"
                    elif "is_match" in tags and "is_match_err" not in tags:
                        ok = ok and v == ("enum", ai.RESULT, 0, (("sym", "IS_MATCH"),))
                    else:
                        ok = ok and v[0] == "enum" and len(v) > 2 and v[2] == 1
                elif route == "streq":
                    ok = ok and tags == ["streq"] and v == ("enum", ai.RESULT, 0, (("sym", "STREQ"),))
                    ok = ok and all(e[1] == ("arg1", "arg2") for e in m)
                elif route == "prim_eq":
                    ok = ok and not tags and v[0] == "enum" and len(v) > 3 and v[2] == 0 and v[3][0][0] == "sym" and " Eq " in v[3][0][1]
                elif route == "range":
                    ok = ok and tags == ["range"] and v == ("enum", ai.RESULT, 0, (("sym", "WITHIN"),))
                elif route in ("mapcmp", "listcmp"):
                    ch = set(e[1] for e in m if e[0] == "child")
                    gets = set(e[1] for e in m if e[0] == "get")
                    if set(tags) - {"child", "get"}:
                        ok, why = False, "container equality must recurse element-wise only (saw %s)" % tags
                    elif "Err" in ch:
                        ok = ok and v == ("enum", ai.RESULT, 1, (("sym", "CHILD_ERR"),))
                    elif False in ch or False in gets:
                        ok = ok and v == F
                    else:
                        ok = ok and v in (T, F)     # F only through the length test
                    if route == "mapcmp" and ch and not gets:
                        ok, why = False, "map values must be looked up by key (key order must not matter)"
                    if route == "listcmp" and gets:
                        ok, why = False, "lists compare element-wise in order"
            ctx.ob(rule, key, ok, "%s == %s must be decided by '%s' %s: %s" % (ni, nj, route, why, fmt_outs(outs, cr)),
                   fn=cr.fns[k], sample={"pair": [ni, nj], "route": route} if (ni, nj) in (("String", "Regex"), ("Int", "Int")) else None)
    for cont in ("Map", "List"):
        i = names.index(cont)
        outs = full.get((i, i), set())
        ctx.ob(rule, "%s:%s:reflexive-possible" % (rule, cont), any(v == T for v, m in outs), "no path returns Ok(true)")
        # sizes must be compared before any element: Ok(false) must be reachable without a single element comparison
        # (otherwise a container with fewer entries would equal a larger one: subset instead of equality)
        ctx.ob(rule, "%s:%s:size-compared" % (rule, cont), any(v == F and not m for v, m in outs),
               "%s == %s never returns false without comparing an element: the sizes are not compared" % (cont, cont), fn=cr.fns[k])


def const_named(cr, fkey, name):
    """value of a named constant as it appears in fkey's MIR"""
    f = cr.fns[fkey]
    vals = set()

    def scan(o):
        if isinstance(o, dict):
            k = o.get("k")
            if isinstance(k, dict) and k.get("named", "").endswith(name) and "v" in k:
                vals.add(k["v"])
            for v in o.values():
                scan(v)
        elif isinstance(o, list):
            for v in o:
                scan(v)
    scan(f["blocks"])
    return vals


def ranges(ctx, cr):
    rule = "R-C13-ranges"
    k = find1(ctx, cr, rule, "is_within", "rules::values::")
    pk = find1(ctx, cr, rule, "parse_range", "rules::parser::")
    if not k or not pk:
        return
    lo = const_named(cr, k, "LOWER_INCLUSIVE") | const_named(cr, pk, "LOWER_INCLUSIVE")
    up = const_named(cr, k, "UPPER_INCLUSIVE") | const_named(cr, pk, "UPPER_INCLUSIVE")
    ok = len(lo) == 1 and len(up) == 1
    if ok:
        L, U = next(iter(lo)), next(iter(up))
        ok = L > 0 and U > 0 and (L & U) == 0 and L & (L - 1) == 0 and U & (U - 1) == 0
    ctx.ob(rule, rule + ":bits", ok, "LOWER_INCLUSIVE / UPPER_INCLUSIVE must be distinct single bits used by both is_within and parse_range (saw %s, %s)" % (lo, up))
    if not ok:
        return
    rt = cr.adts.get("rules::values::RangeType")
    if not rt:
        ctx.lost(rule, rule + ":RangeType", "struct RangeType")
        return
    fnames = [f["name"] for f in rt["variants"][0]["fields"]]
    if sorted(fnames) != ["inclusive", "lower", "upper"]:
        ctx.lost(rule, rule + ":RangeType-fields", "fields %s" % fnames)
        return
    fi = {n: i for i, n in enumerate(fnames)}
    ctx.note_analysed("functions", [k, pk])
    for li in (False, True):
        for ui in (False, True):
            incl = (L if li else 0) | (U if ui else 0)
            fields = [None, None, None]
            fields[fi["upper"]] = ("sym", "UPPER")
            fields[fi["lower"]] = ("sym", "LOWER")
            fields[fi["inclusive"]] = ("int", incl)
            rng = ("enum", "rules::values::RangeType", 0, tuple(fields))
            results = []

            class H(ai.Hooks):
                def call(self, a, st, term, callee, args):
                    decl = M.norm_path(callee.get("decl", ""))
                    if decl.startswith("std::cmp::PartialOrd::") and decl.split("::")[-1] in ("lt", "le", "gt", "ge"):
                        r0 = a.resolve(st, args[0])
                        recv = None
                        if r0[0] == "ref" and r0[1] == ("X", "RANGE") and len(r0[2]) == 1:
                            recv = fnames[r0[2][0][1]]
                        other = arg_root(a.resolve(st, args[1]))
                        op = decl.split("::")[-1]
                        mon = st.mon or ()
                        return [(("bool", True), mon + ((recv, op, other, True),)), (("bool", False), mon + ((recv, op, other, False),))]
                    return None

                def ret(self, a, st, v):
                    results.append((v, st.mon or ()))

            a = ai.AI(cr, H())
            a.run(k, args=[("ref", ("X", "RANGE"), ()), None], ext={"RANGE": rng})
            ctx.states += a.n_states
            ctx.transitions += a.n_transitions
            exp_lo = "le" if li else "lt"
            exp_up = "ge" if ui else "gt"
            ok = bool(results)
            for v, m in results:
                calls = {c[0]: c for c in m}
                lo_c, up_c = calls.get("lower"), calls.get("upper")
                if lo_c is None or (lo_c[1], lo_c[2]) != (exp_lo, "arg2"):
                    ok = False
                    continue
                if lo_c[3] and (up_c is None or (up_c[1], up_c[2]) != (exp_up, "arg2")):
                    ok = False
                    continue
                expect = lo_c[3] and (up_c[3] if up_c else False)
                if up_c is None and lo_c[3]:
                    ok = False
                if v != ("bool", expect):
                    ok = False
            ctx.ob(rule, "%s:is_within:lower_incl=%s:upper_incl=%s" % (rule, li, ui), ok,
                   "expected lower.%s(x) && upper.%s(x); paths: %s" % (exp_lo, exp_up, [(ai.fmt_val(v), list(m)) for v, m in results][:4]),
                   fn=cr.fns[k], sample={"inclusive_bits": incl, "expect": "lower.%s(x) && upper.%s(x)" % (exp_lo, exp_up)})
    # parse_range: '[' -> LOWER bit, ']' -> UPPER bit, first number -> lower, second -> upper
    outs = []

    class P(ai.Hooks):
        def constrained(self, a, st, sid, val):
            if sid.endswith(".1.0 Eq [)"):
                st.mon = (st.mon or frozenset()) | {("open", val[1])}
            if sid.endswith(".1.2 Eq ])"):
                st.mon = (st.mon or frozenset()) | {("close", val[1])}

        def ret(self, a, st, v):
            outs.append((v, st.mon or frozenset()))

    a = ai.AI(cr, P())
    a.run(pk)
    ctx.states += a.n_states
    ctx.transitions += a.n_transitions
    n_ok = 0
    good = True
    why = ""
    for v, cons in outs:
        if v[0] != "enum" or v[1] != ai.RESULT or v[2] != 0:
            continue
        tup = v[3][0]
        val = tup[1][1] if tup[0] == "tuple" and len(tup[1]) == 2 else None
        if not val or val[0] != "enum" or not val[3] or val[3][0][0] != "enum" or val[3][0][1] != "rules::values::RangeType":
            good, why = False, "Ok value is not a range: %s" % ai.fmt_val(v, cr)[:120]
            continue
        r = val[3][0][3]
        upper, lower, incl = r[fi["upper"]], r[fi["lower"]], r[fi["inclusive"]]
        open_b = [("bool", b) for kname, b in cons if kname == "open"]
        close_b = [("bool", b) for kname, b in cons if kname == "close"]
        if len(open_b) != 1 or len(close_b) != 1 or incl[0] != "int":
            good, why = False, "cannot relate brackets to bits: %s" % ai.fmt_val(v, cr)[:120]
            continue
        exp = (L if open_b[0][1] else 0) | (U if close_b[0][1] else 0)
        if incl[1] != exp:
            good, why = False, "open=[ %s close=] %s gives inclusive=%s, expected %s" % (open_b[0][1], close_b[0][1], incl[1], exp)
        lo_ok = lower[0] == "sym" and ".1.1.0@" in lower[1]
        up_ok = upper[0] == "sym" and ".1.1.1@" in upper[1]
        if not (lo_ok and up_ok):
            good, why = False, "bounds swapped or not taken from the parsed pair: lower=%s upper=%s" % (ai.fmt_val(lower), ai.fmt_val(upper))
        n_ok += 1
    ctx.ob(rule, rule + ":parse_range", good and n_ok >= 12, "%s (%d Ok paths)" % (why, n_ok), fn=cr.fns[pk],
           sample={"ok_paths": n_ok})


def map_equality(ctx, cr):
    """maps compare by key set and values irrespective of key order: MapValue's PartialEq (the route of query-vs-query ==, `in [..]` and the
    != reverse diff) must compare through IndexMap's order-insensitive equality only; a positional comparison (Vec / slice ==) of the
    key list makes equality depend on the order in which the document listed the keys"""
    rule = "R-C13-eq-routes"
    k = next((x for x in cr.fns if x.startswith("<rules::path_value::MapValue as std::cmp::PartialEq")), None)
    if not k:
        ctx.lost(rule, rule + ":map-eq", "impl PartialEq for MapValue")
        return
    f = cr.fns[k]
    kinds = []
    for bi, t in M.iter_calls(f):
        if M.norm_path(t["fn"].get("decl", "")) not in ("std::cmp::PartialEq::eq", "std::cmp::PartialEq::ne"):
            continue
        ga = t["fn"].get("ga", [])
        ty = M.Ty(cr, ga[0]).strip_refs() if ga else None
        kinds.append((ty.adt_path() if ty is not None and ty.adt_path() else (ty.kind if ty is not None else "?"), t.get("ln")))
    positional = [(a, l) for a, l in kinds if not str(a).endswith("IndexMap")]
    ok = not positional and any(str(a).endswith("IndexMap") for a, l in kinds)
    ctx.ob(rule, rule + ":map-eq-order-insensitive", ok, ("MapValue::eq also compares %s: map equality becomes sensitive to key order" % positional) if positional else "MapValue::eq compares the IndexMap of values only (order-insensitive)", fn=f,
           sample={"compares": [str(a) for a, l in kinds]})


HASH_KEYED_REVIEWED = {
    # function -> why a hash-keyed collection over document values cannot change a verdict there
    "rules::eval::report_at_least_one": "groups the per-rhs comparison results of ONE clause by their lhs value for the record; equal lhs values have equal outcomes against every rhs, so merging them changes no status",
}


def membership_by_equality(ctx, cr):
    """`X in [..]`, `==` on lists and the reverse diffs decide membership with the documented equality (compare_eq / PartialEq: a string
    matches a regex, maps are equal irrespective of key order).  `Hash for PathAwareValue` does not agree with that equality (a regex
    hashes like a string with the same text but equals many strings; map hashing follows key order), so a HashSet / HashMap / IndexSet
    keyed by document values silently changes which elements are "contained".  No function of the evaluator may key a hash collection
    by PathAwareValue, except the reviewed ones above."""
    rule = "R-C13-eq-routes"
    users = {}
    n_fns = 0
    for k, f in sorted(cr.fns.items()):
        if f.get("file", "").endswith("_tests.rs") or "::tests::" in k or not (k.startswith("rules::") or k.startswith("<rules::")):
            continue
        n_fns += 1
        for bi, t in M.iter_calls(f):
            p = M.norm_path(t["fn"].get("path", ""))
            if not any(x in p for x in ("HashSet", "HashMap", "IndexSet", "IndexMap", "hash_map::", "hash_set::", "BTreeSet", "BTreeMap")):
                continue
            ga = t["fn"].get("ga", [])
            keyty = cr.ty_str(ga[0]) if ga and isinstance(ga[0], int) else ""
            # collect::<HashSet<_>>() and friends: the collection type is the first generic argument
            m_ = re.match(r"(?:&(?:mut )?)*(?:std::collections::|indexmap::)?(?:hash_map::|hash_set::)?(HashSet|HashMap|IndexSet|IndexMap)<(.*)", keyty)
            if m_:
                keyty = m_.group(2).split(",")[0]
            if "PathAwareValue" in keyty.split(",")[0] and "String" not in keyty.split(",")[0].split("PathAwareValue")[0]:
                owner = k.split("::{closure")[0]
                users.setdefault(owner, set()).add((p.split("::")[-1], t.get("ln")))
        # collect() into a hash set of values
        for bi, t in M.iter_calls(f):
            if M.norm_path(t["fn"].get("decl", "")) in ("std::iter::Iterator::collect", "std::iter::FromIterator::from_iter"):
                ty, _ = M.place_ty(cr, None, t["dest"], f)
                tys = cr.ty_str(ty.idx) if ty is not None and hasattr(ty, "idx") else ""
                m_ = re.match(r"(?:std::collections::|indexmap::)?(HashSet|HashMap|IndexSet)<([^,>]*)", tys)
                if m_ and "PathAwareValue" in m_.group(2):
                    users.setdefault(k.split("::{closure")[0], set()).add(("collect", t.get("ln")))
    from engine import ai as AIM

    def reviewed(owner, depth=0):
        """the reviewed function itself, or a private helper whose only callers are reviewed (a few lines split off from it)"""
        if owner in HASH_KEYED_REVIEWED:
            return HASH_KEYED_REVIEWED[owner]
        fn = cr.fns.get(owner)
        if fn is None or depth > 1 or not AIM.is_private_fn(fn):
            return None
        callers = set(k.split("::{closure")[0] for k, f in cr.fns.items() if not f.get("file", "").endswith("_tests.rs")
                      and any(t["fn"].get("key") == owner for bi, t in M.iter_calls(f)))
        whys = [reviewed(c, depth + 1) for c in callers]
        return ("private helper of a reviewed function: " + whys[0]) if callers and all(whys) else None
    for owner, uses in sorted(users.items()):
        why = reviewed(owner)
        ctx.ob(rule, "%s:hash-keyed-by-value:%s" % (rule, owner), why is not None,
               ("reviewed: " + why) if why else "%s keys a hash collection by document values (%s): membership is then decided by Hash, which disagrees with compare_eq for regexes and maps" % (
                   owner.split("::")[-1], sorted(u[0] for u in uses)), fn=cr.fns.get(owner), line=min((u[1] or 0) for u in uses))
    ctx.note_analysed("hash_keyed_by_value", sorted(users))
    ctx.ob(rule, rule + ":hash-keyed-by-value:coverage", n_fns >= 300 and bool(users),
           "%d evaluator functions scanned; %d function(s) with a hash collection keyed by values seen (the reviewed grouping in report_at_least_one)" % (n_fns, len(users)))


def singleton_shorthand(ctx, cr):
    """in a map-keys filter a scalar key compared with a LITERAL list is compared with the list's element only when the list has exactly
    one element (`keys == ['x']` means `keys == 'x'`); for longer lists the comparison is with the list as a whole.  each_lhs_compare
    must test the length for equality with 1 before taking that route — `rhs.first()` alone makes a string == / != a two-element list."""
    rule = "R-C13-eq-routes"
    key = "rules::eval::each_lhs_compare"
    unit = [k for k in cr.fns if k == key or k.startswith(key + "::{closure")]
    if not unit:
        ctx.lost(rule, rule + ":singleton-shorthand", key)
        return
    tests, firsts = 0, []
    for k in unit:
        f = cr.fns[k]
        for bi, si, st in M.iter_stmts(f):
            rv = st.get("rv")
            if rv and rv.get("r") == "bin" and rv.get("op") == "Eq":
                for x, y in ((rv["a"], rv["b"]), (rv["b"], rv["a"])):
                    if "k" in y and y["k"].get("v") == 1 and not isinstance(y["k"].get("v"), bool) and M.op_place(x) is not None:
                        from rules.c08 import def_of_local
                        d = def_of_local(f, M.place_local(M.op_place(x)))
                        if d and ((d[0] == "call" and M.norm_path(d[2]["fn"].get("path", "")).split("::")[-1] == "len") or
                                  (d[0] == "stmt" and d[2]["rv"].get("r") in ("len", "un") and str(d[2]["rv"].get("op", "PtrMetadata")) in ("PtrMetadata", "Len"))):
                            tests += 1
        for bi, t in M.iter_calls(f):
            p = M.norm_path(t["fn"].get("path", ""))
            if p.split("::")[-1] in ("first", "last", "get", "iter", "into_iter", "pop") and ("[T]" in p or "Vec" in p) and t["args"]:
                ty, _ = M.place_ty(cr, None, M.op_place(t["args"][0]), f) if M.op_place(t["args"][0]) is not None else (None, None)
                if ty is not None and "PathAwareValue" in cr.ty_str(ty.idx) and "QueryResult" not in cr.ty_str(ty.idx) and p.split("::")[-1] in ("first", "last", "get", "pop"):
                    firsts.append("%s (l.%s)" % (p.split("::")[-1], t.get("ln")))
    ok = tests >= 1 and not firsts
    ctx.ob(rule, rule + ":singleton-shorthand", ok, ("each_lhs_compare takes an element of a literal list through %s%s: the one-element shorthand fires for longer lists too" % (firsts, "" if tests else " without testing len() == 1")) if not ok
           else "the element-of-a-literal-list shorthand is guarded by len() == 1", fn=cr.fns[key])


def run(ctx):
    cr = ctx.lib
    membership_by_equality(ctx, cr)
    singleton_shorthand(ctx, cr)
    order_tables(ctx, cr)
    kernel(ctx, cr)
    eq_routes(ctx, cr)
    map_equality(ctx, cr)
    ranges(ctx, cr)
    ctx.assumptions += [
        "the numeric / lexicographic meaning of i64::cmp, f64::partial_cmp, str::cmp, char::cmp is std's (not analysed)",
        "reflexivity/symmetry of == on arbitrary loaded values is behavioural and not claimed; decided is which mechanism handles which pair",
    ]

"""C12 — evaluations are isolated: each (rules file, data file) pair stands alone (structural clauses; DESIGN §5 C12).

  R-C12-fresh-scope      every evaluation call is made on a root scope created for that very evaluation: on every path through
                         every caller of eval_rules_file (loops unrolled abstractly) a scope is evaluated at most once, was built
                         by root_scope from the same rules value that is evaluated, and the record that is extracted/reported comes
                         from that same scope
  R-C12-no-global-state  no `static mut`, no thread_local, no static / lazy_static whose type has interior mutability
                         (Mutex, RwLock, RefCell, Cell, Atomic*, OnceCell, UnsafeCell): nothing can carry state across evaluations
  R-C12-scope-is-local   RootScope values are not stored into any struct field, static or collection by their creators
"the run reports failure iff some pair does" is decided by C06.  Not claimed: effects of directory walk order on which files are found.
"""
from engine import ai, cg, mirlib as M
from engine import statusmon as S
from engine.statusmon import Mon

LEVEL = "other"
THOROUGH_VIEWS = ("cap=3",)   # this module already reads both the library's and the binary's copy where it matters
ROOT_SCOPE = "rules::eval_context::root_scope"
EVAL_FILE = "rules::eval::eval_rules_file"
MAX_GEN = 3
INTERIOR = ("std::sync::Mutex", "std::sync::RwLock", "std::cell::RefCell", "std::cell::Cell", "std::sync::atomic::", "std::cell::OnceCell",
            "std::sync::OnceLock", "std::cell::UnsafeCell", "once_cell::", "std::sync::Once", "parking_lot::")


def fresh_scope(ctx, cr):
    rule = "R-C12-fresh-scope"
    g = cg.CallGraph(cr)
    callers = [c for c in g.callers(EVAL_FILE) if not c.startswith("rules::eval")]
    ctx.note_analysed("eval_rules_file_callers", callers)
    if len(callers) < 6:
        ctx.lost(rule, rule + ":callers-floor", "only %d callers of eval_rules_file (floor 6)" % len(callers))
    for k in sorted(callers):
        f = cr.fns[k]
        problems = []
        evals = []

        class H(S.StatusHooks):
            def role_of(self, a, st, term, callee):
                return "other"

            def extra_call(self, a, st, term, callee, args):
                key = callee.get("key", "")
                p = M.norm_path(callee.get("path", ""))
                mon = st.mon
                if key == ROOT_SCOPE:
                    gen = mon.get("gen", 0) + 1
                    if gen > MAX_GEN:
                        return [(ai.AI.DIVERGE, mon)]
                    rid = ai.fmt_val(a.resolve(st, args[0]))
                    return [(("sym", "SCOPE#%d" % gen), mon.set(gen=gen, **{"rules%d" % gen: rid}))]
                if key == EVAL_FILE:
                    sc = a.deref_val(st, args[1])
                    sid = sc[1] if sc is not None and sc[0] == "sym" else None
                    rid = ai.fmt_val(a.resolve(st, args[0]))
                    used = mon.get("used", frozenset())
                    if sid is None or not sid.startswith("SCOPE#"):
                        problems.append("evaluation on a resolver that was not built by root_scope in this function (%s) [line %s]" % (ai.fmt_val(sc) if sc else None, term.get("ln")))
                    else:
                        gnum = int(sid.split("#")[1].split(":")[0].split("*")[0].split(".")[0])
                        if sid in used:
                            problems.append("the same root scope is evaluated again (line %s): state of one evaluation would leak into the next" % term.get("ln"))
                        if gnum != mon.get("gen"):
                            problems.append("evaluation uses a scope built before the most recent one (line %s)" % term.get("ln"))
                        if mon.get("rules%d" % gnum) != rid:
                            problems.append("scope was built for rules %s but rules %s are evaluated (line %s)" % (mon.get("rules%d" % gnum), rid, term.get("ln")))
                        evals.append(sid)
                        outs = []
                        for i, n in enumerate(S.NAMES):
                            outs.append((("enum", ai.RESULT, 0, (S.status_val(i),)), mon.add("used", sid)))
                        outs.append((("enum", ai.RESULT, 1, (("sym", "EVAL_ERR"),)), mon.add("used", sid)))
                        return outs
                if p.endswith("RootScope::reset_recorder") and args:
                    sc = a.deref_val(st, args[0])
                    sid = sc[1] if sc is not None and sc[0] == "sym" else None
                    if sid is None or not sid.startswith("SCOPE#%d" % mon.get("gen", 0)) or sid not in mon.get("used", frozenset()):
                        problems.append("record extracted from a scope other than the one just evaluated (%s, line %s)" % (sid, term.get("ln")))
                    return [(("sym", "RECORDER"), mon)]
                if p.endswith("PathAwareValue::merge") and term.get("to") is not None:
                    return [(("enum", ai.RESULT, 0, (a.sym(st, a.site(st, ":merged")),)), mon), (("enum", ai.RESULT, 1, (("sym", "MERGE_ERR"),)), mon)]
                return None
        h = H(cr, track_records=False)
        a = ai.AI(cr, h, max_states=900000)
        try:
            a.run(k, mon=Mon())
        except ai.Undecided as e:
            ctx.ob(rule, "%s:%s" % (rule, k), False, "undecided %s" % e, fn=f)
            continue
        ctx.states += a.n_states
        ctx.note_analysed("functions", k)
        ctx.ob(rule, "%s:%s" % (rule, k), not problems and len(evals) >= 1, "; ".join(sorted(set(problems))[:3]) or "%d evaluation paths, each on its own freshly built scope" % len(evals), fn=f,
               sample={"caller": k, "evaluation_paths": len(evals)})


def no_global_state(ctx, cr_list):
    rule = "R-C12-no-global-state"
    seen = 0
    done = set()
    for cr in cr_list:
        for s in cr.statics:
            if s["path"] in done:
                continue
            done.add(s["path"])
            seen += 1
            ty = cr.ty_str(s["ty"])
            key = "%s:%s" % (rule, s["path"])
            if s.get("mut"):
                ctx.ob(rule, key, False, "static mut %s" % s["path"], file=s.get("file", ""), line=s.get("line", 0))
                continue
            target = ty
            # write-once cells (lazy_static's Lazy, std OnceLock as generated by clap for default values) hold an immutable
            # value after their single initialisation: what matters is the payload type
            for wrapper in ("lazy_static::lazy::Lazy<", "std::sync::OnceLock<", "std::sync::LazyLock<"):
                if target.startswith(wrapper):
                    target = target[len(wrapper):-1]
            bad = [x for x in INTERIOR if x in target]
            if "std::thread::LocalKey" in ty:
                bad.append("thread_local")
            ctx.ob(rule, key, not bad, "static %s of type %s holds interior-mutable state (%s)" % (s["path"], target, bad) if bad else "immutable payload: %s" % target[:80],
                   file=s.get("file", ""), line=s.get("line", 0), sample={"static": s["path"], "type": target[:80]} if "CONVERTERS" in s["path"] and "LAZY" not in s["path"] else None)
        # thread_local! expands to a fn __getit / const with LocalKey: look at all types mentioned by statics and fns cheaply
        for k in cr.fns:
            if "__getit" in k or "thread_local" in k:
                ctx.ob(rule, "%s:thread_local:%s" % (rule, k), False, "thread-local storage declared: %s" % k)
    if seen < 16:
        ctx.lost(rule, rule + ":floor", "only %d distinct statics enumerated (floor 16)" % seen)
    ctx.note_analysed("statics", "%d statics in %d crates" % (seen, len(cr_list)))


def scope_is_local(ctx, cr):
    rule = "R-C12-scope-is-local"
    RS = "rules::eval_context::RootScope"
    holders = []
    for path, a in cr.adts.items():
        if not a.get("local") or path in (RS, "rules::eval_context::BlockScope", "rules::eval_context::ValueScope"):
            continue
        for v in a["variants"]:
            for fd in v["fields"]:
                t = cr.types[fd["ty"]]
                if t["k"] == "adt" and t["p"] == RS:
                    holders.append("%s.%s" % (path, fd["name"]))
    ctx.ob(rule, rule + ":no-type-owns-a-RootScope", not holders, "a RootScope is stored by value in %s" % holders if holders else "no struct/enum field of type RootScope (scopes live in locals of the evaluation loop)")
    # containers of RootScope (Vec<RootScope>, HashMap<_, RootScope>) in any function's locals
    bad = []
    for k, f in cr.fns.items():
        for li in f["locals"]:
            t = cr.types[li]
            if t["k"] == "adt" and t["p"] != RS and t["p"].startswith(("std::vec::Vec", "std::collections::", "indexmap::", "std::rc::Rc", "std::sync::Arc", "std::boxed::Box")):
                if any(cr.types[x]["k"] == "adt" and cr.types[x]["p"] == RS for x in t.get("a", [])):
                    bad.append(k)
    ctx.ob(rule, rule + ":no-collection-of-RootScope", not bad, "RootScope values are collected in %s" % sorted(set(bad))[:3] if bad else "no Vec/Map/Rc/Box of RootScope anywhere")


def run(ctx):
    fresh_scope(ctx, ctx.lib)
    no_global_state(ctx, [ctx.lib, ctx.bin, ctx.crate("cfn_guard_lambda-lib"), ctx.crate("cfn_guard_ffi-lib")])
    scope_is_local(ctx, ctx.lib)
    ctx.positive_control("R-C12-no-global-state", "statics", lambda sub, fx: no_global_state(sub, [fx]), ["COUNTER", "CACHE", "HITS", "SCRATCH"])
    ctx.assumptions += [
        "loops are explored for up to %d scope creations per path; a scope reuse that only appears later is outside this bound" % MAX_GEN,
        "PathAwareValue::merge takes self by value, so the shared input parameters can only be merged through a clone (enforced by the borrow checker)",
    ]

"""C12 — evaluations are isolated: each (rules file, data file) pair stands alone (structural clauses; DESIGN §5 C12).

  R-C12-fresh-scope      every evaluation call is made on a root scope created for that very evaluation: on every path through
                         every caller of eval_rules_file (loops unrolled abstractly) a scope is evaluated at most once, was built
                         by root_scope from the same rules value that is evaluated, and the record that is extracted/reported comes
                         from that same scope
  R-C12-no-global-state  no `static mut`, no thread_local, no static / lazy_static whose type has interior mutability
                         (Mutex, RwLock, RefCell, Cell, Atomic*, OnceCell, UnsafeCell): nothing can carry state across evaluations
  R-C12-scope-is-local   RootScope values are not stored into any struct field, static or collection by their creators
  R-C12-every-file-loaded  the discovery loops of Validate::execute skip a found file only for not being a regular file or not having a
                         supported extension; every other path of the loop body loads it (no de-duplication, no size test): no pair vanishes
"the run reports failure iff some pair does" is decided by C06.  Not claimed: effects of directory walk order on which files are found.
"""
from engine import ai, cg, mirlib as M
from engine import statusmon as S
from engine.statusmon import Mon

LEVEL = "other"
THOROUGH_VIEWS = ("cap=3",)   # this module already reads both the library's and the binary's copy where it matters
ROOT_SCOPE = "rules::eval_context::root_scope"
EVAL_FILE = "rules::eval::eval_rules_file"
MAX_GEN = 3
INTERIOR = ("std::sync::Mutex", "std::sync::RwLock", "std::cell::RefCell", "std::cell::Cell", "std::sync::atomic::", "std::cell::OnceCell",
            "std::sync::OnceLock", "std::cell::UnsafeCell", "once_cell::", "std::sync::Once", "parking_lot::")


def fresh_scope(ctx, cr):
    rule = "R-C12-fresh-scope"
    g = cg.CallGraph(cr)
    callers = [c for c in g.callers(EVAL_FILE) if not c.startswith("rules::eval")]
    ctx.note_analysed("eval_rules_file_callers", callers)
    if len(callers) < 6:
        ctx.lost(rule, rule + ":callers-floor", "only %d callers of eval_rules_file (floor 6)" % len(callers))
    for k in sorted(callers):
        f = cr.fns[k]
        problems = []
        evals = []

        class H(S.StatusHooks):
            def role_of(self, a, st, term, callee):
                return "other"

            def extra_call(self, a, st, term, callee, args):
                key = callee.get("key", "")
                p = M.norm_path(callee.get("path", ""))
                mon = st.mon
                if key == ROOT_SCOPE:
                    gen = mon.get("gen", 0) + 1
                    if gen > MAX_GEN:
                        return [(ai.AI.DIVERGE, mon)]
                    rid = ai.fmt_val(a.resolve(st, args[0]))
                    return [(("sym", "SCOPE#%d" % gen), mon.set(gen=gen, **{"rules%d" % gen: rid}))]
                if key == EVAL_FILE:
                    sc = a.deref_val(st, args[1])
                    sid = sc[1] if sc is not None and sc[0] == "sym" else None
                    rid = ai.fmt_val(a.resolve(st, args[0]))
                    used = mon.get("used", frozenset())
                    if sid is None or not sid.startswith("SCOPE#"):
                        problems.append("evaluation on a resolver that was not built by root_scope in this function (%s) [line %s]" % (ai.fmt_val(sc) if sc else None, term.get("ln")))
                    else:
                        gnum = int(sid.split("#")[1].split(":")[0].split("*")[0].split(".")[0])
                        if sid in used:
                            problems.append("the same root scope is evaluated again (line %s): state of one evaluation would leak into the next" % term.get("ln"))
                        if gnum != mon.get("gen"):
                            problems.append("evaluation uses a scope built before the most recent one (line %s)" % term.get("ln"))
                        if mon.get("rules%d" % gnum) != rid:
                            problems.append("scope was built for rules %s but rules %s are evaluated (line %s)" % (mon.get("rules%d" % gnum), rid, term.get("ln")))
                        evals.append(sid)
                        outs = []
                        for i, n in enumerate(S.NAMES):
                            outs.append((("enum", ai.RESULT, 0, (S.status_val(i),)), mon.add("used", sid)))
                        outs.append((("enum", ai.RESULT, 1, (("sym", "EVAL_ERR"),)), mon.add("used", sid)))
                        return outs
                if p.endswith("RootScope::reset_recorder") and args:
                    sc = a.deref_val(st, args[0])
                    sid = sc[1] if sc is not None and sc[0] == "sym" else None
                    if sid is None or not sid.startswith("SCOPE#%d" % mon.get("gen", 0)) or sid not in mon.get("used", frozenset()):
                        problems.append("record extracted from a scope other than the one just evaluated (%s, line %s)" % (sid, term.get("ln")))
                    return [(("sym", "RECORDER"), mon)]
                if p.endswith("PathAwareValue::merge") and term.get("to") is not None:
                    return [(("enum", ai.RESULT, 0, (a.sym(st, a.site(st, ":merged")),)), mon), (("enum", ai.RESULT, 1, (("sym", "MERGE_ERR"),)), mon)]
                return None
        h = H(cr, track_records=False)
        a = ai.AI(cr, h, max_states=900000)
        try:
            a.run(k, mon=Mon())
        except ai.Undecided as e:
            ctx.ob(rule, "%s:%s" % (rule, k), False, "undecided %s" % e, fn=f)
            continue
        ctx.states += a.n_states
        ctx.note_analysed("functions", k)
        ctx.ob(rule, "%s:%s" % (rule, k), not problems and len(evals) >= 1, "; ".join(sorted(set(problems))[:3]) or "%d evaluation paths, each on its own freshly built scope" % len(evals), fn=f,
               sample={"caller": k, "evaluation_paths": len(evals)})


def no_global_state(ctx, cr_list):
    rule = "R-C12-no-global-state"
    seen = 0
    done = set()
    for cr in cr_list:
        for s in cr.statics:
            if s["path"] in done:
                continue
            done.add(s["path"])
            seen += 1
            ty = cr.ty_str(s["ty"])
            key = "%s:%s" % (rule, s["path"])
            if s.get("mut"):
                ctx.ob(rule, key, False, "static mut %s" % s["path"], file=s.get("file", ""), line=s.get("line", 0))
                continue
            target = ty
            # write-once cells (lazy_static's Lazy, std OnceLock as generated by clap for default values) hold an immutable
            # value after their single initialisation: what matters is the payload type
            for wrapper in ("lazy_static::lazy::Lazy<", "std::sync::OnceLock<", "std::sync::LazyLock<"):
                if target.startswith(wrapper):
                    target = target[len(wrapper):-1]
            bad = [x for x in INTERIOR if x in target]
            if "std::thread::LocalKey" in ty:
                bad.append("thread_local")
            ctx.ob(rule, key, not bad, "static %s of type %s holds interior-mutable state (%s)" % (s["path"], target, bad) if bad else "immutable payload: %s" % target[:80],
                   file=s.get("file", ""), line=s.get("line", 0), sample={"static": s["path"], "type": target[:80]} if "CONVERTERS" in s["path"] and "LAZY" not in s["path"] else None)
        # thread_local! expands to a fn __getit / const with LocalKey: look at all types mentioned by statics and fns cheaply
        for k in cr.fns:
            if "__getit" in k or "thread_local" in k:
                ctx.ob(rule, "%s:thread_local:%s" % (rule, k), False, "thread-local storage declared: %s" % k)
    if seen < 16:
        ctx.lost(rule, rule + ":floor", "only %d distinct statics enumerated (floor 16)" % seen)
    ctx.note_analysed("statics", "%d statics in %d crates" % (seen, len(cr_list)))


def scope_is_local(ctx, cr):
    rule = "R-C12-scope-is-local"
    RS = "rules::eval_context::RootScope"
    holders = []
    for path, a in cr.adts.items():
        if not a.get("local") or path in (RS, "rules::eval_context::BlockScope", "rules::eval_context::ValueScope"):
            continue
        for v in a["variants"]:
            for fd in v["fields"]:
                t = cr.types[fd["ty"]]
                if t["k"] == "adt" and t["p"] == RS:
                    holders.append("%s.%s" % (path, fd["name"]))
    ctx.ob(rule, rule + ":no-type-owns-a-RootScope", not holders, "a RootScope is stored by value in %s" % holders if holders else "no struct/enum field of type RootScope (scopes live in locals of the evaluation loop)")
    # containers of RootScope (Vec<RootScope>, HashMap<_, RootScope>) in any function's locals
    bad = []
    for k, f in cr.fns.items():
        for li in f["locals"]:
            t = cr.types[li]
            if t["k"] == "adt" and t["p"] != RS and t["p"].startswith(("std::vec::Vec", "std::collections::", "indexmap::", "std::rc::Rc", "std::sync::Arc", "std::boxed::Box")):
                if any(cr.types[x]["k"] == "adt" and cr.types[x]["p"] == RS for x in t.get("a", [])):
                    bad.append(k)
    ctx.ob(rule, rule + ":no-collection-of-RootScope", not bad, "RootScope values are collected in %s" % sorted(set(bad))[:3] if bad else "no Vec/Map/Rc/Box of RootScope anywhere")


def per_document_counters(ctx, cr):
    """the JUnit rendering of `validate` builds one <testsuite> per data file; what it says about a data file must not depend on the
    data files before it: every counter that feeds a field of the per-file TestSuite is (re)initialised inside the loop over the
    data files — a counter initialised before the loop carries the earlier files' failures into the later suites"""
    from rules.c05 import loop_blocks
    from rules.c08 import def_of_local
    rule = "R-C12-fresh-scope"
    k = next((x for x in cr.fns if "JunitReporter as" in x and x.endswith("StructuredReporter>::report")), None)
    if not k:
        ctx.lost(rule, rule + ":junit-per-file-counters", "JunitReporter::report")
        return
    f = cr.fns[k]
    header = None
    for bi, t in M.iter_calls(f):
        if M.norm_path(t["fn"].get("decl", "")) == "std::iter::Iterator::next":
            header = bi
            break
    if header is None:
        ctx.lost(rule, rule + ":junit-per-file-counters", "the loop over the data files")
        return
    inloop = loop_blocks(f, header)
    TS = "commands::reporters::TestSuite"
    fields = [x["name"] for x in cr.adts[TS]["variants"][0]["fields"]] if TS in cr.adts else []
    found = 0
    bad = []
    for bi, si, st in M.iter_stmts(f):
        rv = st.get("rv")
        if not (rv and rv["r"] == "agg" and rv.get("adt") == TS and bi in inloop):
            continue
        for name in ("errors", "failures"):
            if name not in fields:
                continue
            pl = M.op_place(rv["ops"][fields.index(name)])
            src = M.place_local(pl) if pl is not None else None
            for _ in range(5):            # copies back to the named counter
                d = def_of_local(f, src) if src is not None else None
                if d and d[0] == "stmt" and d[2]["rv"]["r"] == "use" and M.op_place(d[2]["rv"]["o"]) is not None:
                    src = M.place_local(M.op_place(d[2]["rv"]["o"]))
                else:
                    break
            inits = [b2 for b2, s2, st2 in M.iter_stmts(f) if st2.get("p") == src and "rv" in st2 and st2["rv"]["r"] == "use" and "k" in st2["rv"]["o"]]
            found += 1
            if not inits:
                bad.append("no constant initialisation of the %s counter found" % name)
            elif not all(b2 in inloop for b2 in inits):
                bad.append("the %s counter of the per-file suite is initialised before the loop over the data files: later suites include the earlier files' %s" % (name, name))
    ctx.ob(rule, rule + ":junit-per-file-counters", found >= 2 and not bad, "; ".join(bad) or "%d per-file counters, each initialised inside the data-file loop" % found, fn=f)


def run(ctx):
    fresh_scope(ctx, ctx.lib)
    no_global_state(ctx, [ctx.lib, ctx.bin, ctx.crate("cfn_guard_lambda-lib"), ctx.crate("cfn_guard_ffi-lib")])
    scope_is_local(ctx, ctx.lib)
    per_document_counters(ctx, ctx.lib)
    # every (rules, data) pair of the run exists only if every data file the walk finds is loaded: the discovery loops of
    # Validate::execute skip a file only for not being a regular file or not having a supported extension (shared with C17)
    from rules.c17 import every_file_loaded
    every_file_loaded(ctx, ctx.lib, rule="R-C12-every-file-loaded")
    ctx.positive_control("R-C12-no-global-state", "statics", lambda sub, fx: no_global_state(sub, [fx]), ["COUNTER", "CACHE", "HITS", "SCRATCH"])
    ctx.assumptions += [
        "loops are explored for up to %d scope creations per path; a scope reuse that only appears later is outside this bound" % MAX_GEN,
        "PathAwareValue::merge takes self by value, so the shared input parameters can only be merged through a clone (enforced by the borrow checker)",
    ]

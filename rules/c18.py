"""C18 — built-in functions compute what their documentation says (structural clauses; DESIGN §5 C18).

The computed strings/numbers themselves are run-time values of std / dependency primitives and are NOT claimed.  Decided:
  R-C18-dispatch     for each of the 15 documented functions the four tables agree: name accepted by the parser <-> variant,
                     variant -> printed name (round trip), arity (docs/FUNCTIONS.md), variant -> implementation -> the expected
                     primitive (to_upper really calls str::to_uppercase, parse_int really parses an i64, ...); resolve_function returns Ok
                     only with what the function's call produced (no shortcut for empty selections); numbers change type in the
                     converters through the `as` cast alone (no floor / round / abs beside it)
  R-C18-elementwise  every element-wise function pushes exactly one result per input element on every non-error path;
                     unresolved entries and values of unsupported kinds give None (skipped), never a made-up value
  R-C18-parse-errors a failing parse in parse_int / parse_float / parse_boolean / parse_char / parse_epoch / json_parse returns an error,
                     never a default or wrong value; the produced kind is the documented one
  R-C18-count        count counts exactly the entries that are not UnResolved
"""
from engine import flow, ai, mirlib as M
from engine import statusmon as S
from engine.statusmon import Mon
from rules import c08

LEVEL = "other"
FN = "rules::eval_context::FunctionName"
QR = "rules::QueryResult"
PAV = "rules::path_value::PathAwareValue"
# name, variant, arity, implementation (module::fn), primitive the implementation must reach
SPEC = [
    ("count", "Count", 1, "collections::count", None),
    ("join", "Join", 2, "strings::join", "std::string::String::push_str"),
    ("json_parse", "JsonParse", 1, "strings::json_parse", "serde_yaml::from_str"),
    ("now", "Now", 0, "date_time::now", "chrono::Utc::now"),
    ("parse_boolean", "ParseBoolean", 1, "converters::parse_bool", None),
    ("parse_char", "ParseChar", 1, "converters::parse_char", None),
    ("parse_epoch", "ParseEpoch", 1, "date_time::parse_epoch", "chrono::DateTime::parse_from_rfc3339"),
    ("parse_float", "ParseFloat", 1, "converters::parse_float", "parse::f64"),
    ("parse_int", "ParseInt", 1, "converters::parse_int", "parse::i64"),
    ("parse_string", "ParseString", 1, "converters::parse_str", None),
    ("regex_replace", "RegexReplace", 3, "strings::regex_replace", "fancy_regex::Regex::captures_iter"),
    ("substring", "Substring", 3, "strings::substring", "Slice::slice"),
    ("to_lower", "ToLower", 1, "strings::to_lower", "to_lowercase"),
    ("to_upper", "ToUpper", 1, "strings::to_upper", "to_uppercase"),
    ("url_decode", "UrlDecode", 1, "strings::url_decode", "urlencoding::decode"),
]
# input kind -> produced kind ("None" = skipped, "E|K" = error or kind K) for the element-wise functions
KINDS = {
    "strings::to_upper": {"String": "String"}, "strings::to_lower": {"String": "String"},
    "strings::url_decode": {"String": "String|None"}, "strings::substring": {"String": "String|None"},
    "strings::regex_replace": {"String": "E|String"}, "strings::json_parse": {"String": "E|*"},
    "converters::parse_int": {"String": "E|Int", "Int": "Int", "Float": "Int", "Char": "E|Int"},
    "converters::parse_float": {"String": "E|Float", "Int": "Float", "Float": "Float", "Char": "E|Float"},
    "converters::parse_bool": {"String": "E|Bool", "Bool": "Bool"},
    "converters::parse_str": {"String": "String", "Int": "String", "Float": "String", "Bool": "String", "Char": "String"},
    "converters::parse_char": {"String": "E|Char|None", "Int": "E|Char", "Char": "String"},
    "date_time::parse_epoch": {"String": "E|Int"},
}


def str_match_table(cr, key):
    """functions of the shape `match name { "lit" => Variant, ... }`: -> {literal: result description}"""
    rows = {}

    class H(ai.Hooks):
        def call(self, a, st, term, callee, args):
            decl = M.norm_path(callee.get("decl", ""))
            p = M.norm_path(callee.get("path", ""))
            mon = st.mon or Mon()
            if (decl in ("std::cmp::PartialEq::eq",) or p.endswith("PartialEq for str>::eq")) and len(args) == 2:
                lit = [c[1] for c in (a.deref_val(st, x) for x in args) if c is not None and c[0] == "str"]
                if len(lit) == 1:
                    if mon.get("hit") is not None:
                        return [(("bool", False), mon)]
                    return [(("bool", True), mon.set(hit=lit[0])), (("bool", False), mon)]
            return None

        def ret(self, a, st, v):
            rows.setdefault((st.mon or Mon()).get("hit"), set()).add(v)
    a = ai.AI(cr, H(), max_states=200000)
    a.run(key, mon=Mon())
    return rows


def dispatch(ctx, cr):
    rule = "R-C18-dispatch"
    if FN not in cr.adts:
        ctx.lost(rule, rule + ":FunctionName", FN)
        return
    vnames = [v["name"] for v in cr.adts[FN]["variants"]]
    ctx.ob(rule, rule + ":variants", sorted(vnames) == sorted(s[1] for s in SPEC), "FunctionName variants %s differ from the documented 15" % sorted(set(vnames) ^ set(s[1] for s in SPEC)))
    # name -> variant
    tk = "<rules::eval_context::FunctionName as std::convert::TryFrom<&str>>::try_from"
    name2var = {}
    if tk not in cr.fns:
        ctx.lost(rule, rule + ":try_from", tk)
    else:
        rows = str_match_table(cr, tk)
        for lit, outs in rows.items():
            for v in outs:
                if lit is not None and v[0] == "enum" and v[1] == ai.RESULT and v[2] == 0 and v[3][0][0] == "enum" and v[3][0][1] == FN:
                    name2var.setdefault(lit, set()).add(vnames[v[3][0][2]])
        unknown = rows.get(None, set())
        ctx.ob(rule, rule + ":unknown-name-is-an-error", bool(unknown) and all(v[0] == "enum" and v[2] == 1 for v in unknown), "an unknown function name must be a parse error", fn=cr.fns[tk])
    # variant -> printed name
    dk = "<rules::eval_context::FunctionName as std::fmt::Display>::fmt"
    var2name = {}
    if dk not in cr.fns:
        ctx.lost(rule, rule + ":display", dk)
    else:
        for vi, vn in enumerate(vnames):
            lits = set()

            class HD(ai.Hooks):
                def call(self, a, st, term, callee, args):
                    p = M.norm_path(callee.get("path", ""))
                    if "Argument" in p and "new_display" in p and args:
                        v = a.deref_val(st, args[0])
                        if v is not None and v[0] == "str":
                            lits.add(v[1])
                    if p.endswith("Formatter::write_str") and len(args) > 1:
                        v = a.deref_val(st, args[1])
                        if v is not None and v[0] == "str":
                            lits.add(v[1])
                    return None
            a = ai.AI(cr, HD())
            a.run(dk, args=[("ref", ("X", "SELF"), ()), None], ext={"SELF": ("enum", FN, vi, ())})
            var2name[vn] = lits
    arity = c08.function_arity(type("X", (), {"ob": lambda *a, **k: None, "lost": lambda *a, **k: None, "note_analysed": lambda *a, **k: None, "states": 0})(), cr)
    # marker -> implementation function
    impl_of = {}
    for k, f in cr.fns.items():
        if f.get("impl_trait", "").endswith("eval_context::Callable") and k.endswith("::call") and f.get("impl_self") is not None:
            marker = cr.ty_adt(f["impl_self"])
            impl_of[marker] = set(t["fn"].get("key", "") for bi, t in M.iter_calls(f) if t["fn"].get("key", "").startswith("rules::functions::"))
    # FunctionName -> marker
    disp = {}
    dkey = "<rules::eval_context::FunctionName as rules::eval_context::Callable>::call"
    for vi, vn in enumerate(vnames):
        targets = set()

        class HC(ai.Hooks):
            def call(self, a, st, term, callee, args):
                if M.norm_path(callee.get("decl", "")).endswith("eval_context::Callable::call"):
                    tgt = cr.ty_adt(callee["self"]) if callee.get("self") is not None else None
                    if tgt is None and args:
                        # `let f: &dyn Callable = match self { .. => &XFunction, .. }; f.call(args)`: the receiver value names the struct
                        v = a.resolve(st, args[0])
                        n_ = 0
                        while v[0] == "ref" and n_ < 4:
                            v = a.resolve(st, a.read_at(st, v[1], v[2]))
                            n_ += 1
                        if v[0] == "enum":
                            tgt = v[1]
                    if tgt is not None:
                        targets.add(tgt)
                        return [(("sym", "R"), st.mon)]
                return None
        if dkey in cr.fns:
            a = ai.AI(cr, HC())
            a.run(dkey, args=[("ref", ("X", "SELF"), ()), None], ext={"SELF": ("enum", FN, vi, ())})
        disp[vn] = targets
    for name, var, ar, impl, prim in SPEC:
        f_impl = cr.fns.get("rules::functions::" + impl)
        ok_name = name2var.get(name) == {var}
        ctx.ob(rule, "%s:%s:name->variant" % (rule, name), ok_name, "%r parses to %s, expected %s" % (name, sorted(name2var.get(name, set())), var))
        ctx.ob(rule, "%s:%s:variant->name" % (rule, name), var2name.get(var) == {name}, "%s prints as %s, expected %r (round trip)" % (var, sorted(var2name.get(var, set())), name))
        markers = disp.get(var, set())
        got_ar = [arity.get(m) for m in markers]
        ctx.ob(rule, "%s:%s:arity" % (rule, name), got_ar == [ar], "%s takes %s arguments, documented %d" % (name, got_ar, ar))
        impls = set()
        for m in markers:
            impls |= impl_of.get(m, set())
        ctx.ob(rule, "%s:%s:implementation" % (rule, name), impls == {"rules::functions::" + impl},
               "%s is implemented by %s, expected rules::functions::%s" % (name, sorted(impls), impl), sample={"function": name, "variant": var, "impl": sorted(impls)} if name == "to_upper" else None)
        if prim and f_impl:
            reached = reaches_primitive(cr, f_impl, prim)
            ctx.ob(rule, "%s:%s:primitive" % (rule, name), reached, "%s must compute through %s" % (impl, prim), fn=f_impl)
        elif prim:
            ctx.lost(rule, "%s:%s:primitive" % (rule, name), "rules::functions::" + impl)


def reaches_primitive(cr, f, prim, depth=0):
    for bi, t in M.iter_calls(f):
        p = M.norm_path(t["fn"].get("path", ""))
        d = M.norm_path(t["fn"].get("decl", ""))
        if prim.startswith("parse::"):
            if p in ("core::str::<impl str>::parse", "core::str::parse") and t["fn"].get("ga") and cr.ty_str(t["fn"]["ga"][0]) == prim.split("::")[1]:
                return True
        elif p.endswith(prim) or d.endswith(prim) or (prim in p.split("::")[-1]):
            return True
    # closures of the function
    for k2, f2 in cr.fns.items():
        if k2.startswith(f["key"] + "::{closure") and reaches_primitive(cr, f2, prim):
            return True
    # private helpers of the same file the function calls (the per-element step split off into a helper)
    if depth < 2:
        for bi, t in M.iter_calls(f):
            callee = cr.fns.get(t["fn"].get("key", "")) if t["fn"].get("local") else None
            if callee is not None and callee is not f and ai.is_private_fn(callee) and callee.get("file") == f.get("file") and reaches_primitive(cr, callee, prim, depth + 1):
                return True
    return False


def elementwise(ctx, cr):
    rule = "R-C18-elementwise"
    prule = "R-C18-parse-errors"
    qn = [v["name"] for v in cr.adts[QR]["variants"]]
    pn = [v["name"] for v in cr.adts[PAV]["variants"]]
    for impl, kinds in sorted(KINDS.items()):
        key = "rules::functions::" + impl
        f = cr.fns.get(key)
        if not f:
            ctx.lost(rule, "%s:%s" % (rule, impl), key)
            continue
        problems = []
        rows = {}       # (qr, pav kind) -> set of outcomes

        class H(ai.Hooks):
            def close(self, mon):
                if mon.get("in_iter"):
                    k2 = (mon.get("qr"), mon.get("pav"))
                    n = mon.get("pushes", 0)
                    if n != 1:
                        problems.append("%s element: %d results pushed (must be exactly 1)" % (k2, n))
                    rows.setdefault(k2, set()).add(mon.get("out"))

            def call(self, a, st, term, callee, args):
                p = M.norm_path(callee.get("path", ""))
                decl = M.norm_path(callee.get("decl", ""))
                mon = st.mon or Mon()
                if decl == "std::iter::Iterator::next" and term.get("to") is not None and len(st.frames) == 1:
                    ty, _ = M.place_ty(cr, None, term["dest"], st.top.body)
                    item = ty.args()[0].strip_refs().adt_path() if ty is not None and ty.args() else None
                    if item == QR:
                        self.close(mon)
                        base = mon.set(qr=None, pav=None, pushes=0, out=None, failed=None)
                        if mon.get("n", 0) >= 2:
                            return [(("enum", ai.OPTION, 0, ()), base.set(in_iter=False))]
                        return [(("enum", ai.OPTION, 1, (("ref", ("X", "ELEMCELL"), ()),)), base.set(in_iter=True, n=mon.get("n", 0) + 1)),
                                (("enum", ai.OPTION, 0, ()), base.set(in_iter=False))]
                    return None
                if p == "std::vec::Vec::push" and len(args) == 2 and mon.get("in_iter"):
                    v = a.deep(st, args[1])
                    out = "?"
                    if v[0] == "enum" and v[1] == ai.OPTION:
                        if v[2] == 0:
                            out = "None"
                        elif v[3][0][0] == "enum" and v[3][0][1] == PAV:
                            out = pn[v[3][0][2]]
                        else:
                            out = "*"
                    return [(("tuple", ()), mon.set(pushes=mon.get("pushes", 0) + 1, out=out))]
                if p in ("core::str::<impl str>::parse", "core::str::parse") and term.get("to") is not None:
                    return [(("enum", ai.RESULT, 0, (("sym", "PARSED"),)), mon), (("enum", ai.RESULT, 1, (("sym", "PERR"),)), mon.set(failed="parse"))]
                if (p.endswith("char::to_digit") or p.endswith("char::from_digit")) and term.get("to") is not None:
                    return [(("enum", ai.OPTION, 1, (("sym", "DIGIT"),)), mon), (("enum", ai.OPTION, 0, ()), mon.set(failed="digit"))]
                if p.endswith("DateTime::parse_from_rfc3339") and term.get("to") is not None:
                    return [(("enum", ai.RESULT, 0, (("sym", "DT"),)), mon), (("enum", ai.RESULT, 1, (("sym", "DTERR"),)), mon.set(failed="datetime"))]
                if (decl in ("std::cmp::PartialEq::eq",) or p.endswith("PartialEq for str>::eq")) and len(args) == 2:
                    lit = [c[1] for c in (a.deref_val(st, x) for x in args) if c is not None and c[0] == "str"]
                    if len(lit) == 1:
                        return [(("bool", True), mon.add("lit", lit[0])), (("bool", False), mon)]
                if p.endswith("Result::map_err") and args:
                    v = a.resolve(st, args[0])
                    if v[0] == "enum" and v[1] == ai.RESULT:
                        return [(v if v[2] == 0 else ("enum", ai.RESULT, 1, (("sym", "MAPPED_ERR"),)), mon)]
                if p.endswith("Option::ok_or") and args:
                    v = a.resolve(st, args[0])
                    if v[0] == "enum" and v[1] == ai.OPTION:
                        return [(("enum", ai.RESULT, 0, (v[3][0],)) if v[2] == 1 else ("enum", ai.RESULT, 1, (a.resolve(st, args[1]),)), mon)]
                return None

            def constrained(self, a, st, sid, val):
                mon = st.mon or Mon()
                if not sid.startswith("ELEMCELL*") or val[0] != "enum":
                    return
                if val[1] == QR and mon.get("qr") is None:
                    st.mon = mon.set(qr=qn[val[2]])
                elif val[1] == PAV and mon.get("pav") is None:
                    st.mon = mon.set(pav=pn[val[2]])

            def ret(self, a, st, v):
                mon = st.mon or Mon()
                is_err = v[0] == "enum" and v[1] == ai.RESULT and v[2] == 1
                if is_err:
                    if mon.get("in_iter"):
                        rows.setdefault((mon.get("qr"), mon.get("pav")), set()).add("E")
                else:
                    if mon.get("failed") and mon.get("in_iter") is not None:
                        pass
                    self.close(mon)
        args = None
        fx = cr.fns[key]
        a = ai.AI(cr, H(), max_states=400000)
        try:
            a.run(key, mon=Mon())
        except ai.Undecided as e:
            ctx.ob(rule, "%s:%s" % (rule, impl), False, "undecided %s" % e, fn=f)
            continue
        ctx.states += a.n_states
        ctx.note_analysed("functions", key)
        ctx.ob(rule, "%s:%s:one-result-per-element" % (rule, impl), not problems and len(rows) >= 3, "; ".join(sorted(set(problems))[:3]) or "%d element classes, one push each" % len(rows), fn=f,
               sample={"function": impl, "element_classes": len(rows)} if impl == "strings::to_upper" else None)
        got = set()
        for (q, pk), outs in rows.items():
            if q == "UnResolved":
                got |= outs
        ctx.ob(rule, "%s:%s:unresolved-is-skipped" % (rule, impl), got == {"None"}, "an unresolved entry produces %s, expected None" % sorted(map(str, got)), fn=f)
        for pk in pn:
            outs = set()
            for (q, k2), o in rows.items():
                if q in ("Resolved", "Literal") and (k2 == pk or k2 is None):
                    outs |= o
            outs.discard(None)
            exp = kinds.get(pk, "None")
            allowed = set(exp.split("|"))
            if exp == "E|*":
                okset = "E" in outs and "None" not in outs and bool(outs - {"E"})
                ctx.ob(prule, "%s:%s:%s" % (prule, impl, pk), okset, "a %s element gives %s; documented: the parsed value on success and an ERROR when the text is not JSON/YAML (never skipped, never a default)" % (pk, sorted(map(str, outs))), fn=f)
            elif "E" in allowed:
                allowed.discard("E")
                okset = outs <= (allowed | {"E"}) and ("E" in outs) and bool(outs & allowed)
                ctx.ob(prule, "%s:%s:%s" % (prule, impl, pk), okset, "a %s element gives %s; documented: %s on success and an ERROR when it cannot be converted (never a default value)" % (pk, sorted(outs), sorted(allowed)), fn=f,
                       sample={"function": impl, "input": pk, "outcomes": sorted(outs)} if (impl, pk) == ("converters::parse_int", "String") else None)
            elif exp == "*":
                ctx.ob(rule, "%s:%s:kind:%s" % (rule, impl, pk), bool(outs), "no outcome", fn=f)
            else:
                ctx.ob(rule, "%s:%s:kind:%s" % (rule, impl, pk), outs <= allowed and bool(outs), "a %s element gives %s, expected %s" % (pk, sorted(outs), sorted(allowed)), fn=f)


def count_rule(ctx, cr):
    """count(q) is the number of entries of q that are not UnResolved.  Two ways of writing it are understood: `filter(pred).count()` (the
    predicate closure is decided: true for Resolved and Literal, false for UnResolved) and an explicit counting loop (interpreted with
    one entry of each kind: the Int that is returned is 1 for Resolved / Literal and 0 for UnResolved)."""
    rule = "R-C18-count"
    pkey = "rules::functions::collections::count"
    cf = cr.fns.get(pkey)
    if not cf:
        ctx.lost(rule, rule + ":count", pkey)
        return
    qn = [v["name"] for v in cr.adts[QR]["variants"]]
    calls = [M.norm_path(t["fn"].get("path", "")) for bi, t in M.iter_calls(cf)]
    key = pkey + "::{closure#0}"
    f = cr.fns.get(key)
    exp = {"Resolved": True, "Literal": True, "UnResolved": False}
    if f is not None and any(p.endswith("Iterator::filter") for p in calls) and any(p.endswith("::count") for p in calls):
        rows = {}

        class H(ai.Hooks):
            def constrained(self, a, st, sid, val):
                if val[0] == "enum" and val[1] == QR and (st.mon or Mon()).get("qr") is None:
                    st.mon = (st.mon or Mon()).set(qr=qn[val[2]])

            def ret(self, a, st, v):
                rows.setdefault((st.mon or Mon()).get("qr"), set()).add(v)
        a = ai.AI(cr, H())
        a.run(key, mon=Mon())
        for q, e in exp.items():
            got = rows.get(q, set()) | (rows.get(None, set()) if q != "UnResolved" else set())
            ctx.ob(rule, "%s:%s" % (rule, q), got == {("bool", e)}, "a %s entry is counted: %s (expected %s)" % (q, sorted(map(ai.fmt_val, got)), e), fn=f,
                   sample={"entry": q, "counted": e})
        ctx.ob(rule, rule + ":uses-filter-count", True, "count is filter(pred).count() over its argument", fn=cf)
        return
    # explicit loop: one entry of each kind
    for q, e in exp.items():
        outs = set()

        class HL(ai.Hooks):
            def ret(self, a, st, v):
                outs.add(ai.fmt_val(a.deep(st, v))[:120])

            def call(self, a, st, term, callee, args):
                p = M.norm_path(callee.get("path", ""))
                decl = M.norm_path(callee.get("decl", ""))
                mon = st.mon or Mon()
                if p in ("core::slice::<impl [T]>::len",):
                    return [(("int", 1), mon)]
                if p in ("core::slice::<impl [T]>::is_empty",):
                    return [(("bool", False), mon)]
                if p == "core::slice::<impl [T]>::first":
                    return [(("enum", ai.OPTION, 1, (("ref", ("X", "ENTRY"), ()),)), mon)]
                if decl == "std::iter::Iterator::next" and term.get("to") is not None:
                    if mon.get("taken"):
                        return [(("enum", ai.OPTION, 0, ()), mon)]
                    return [(("enum", ai.OPTION, 1, (("ref", ("X", "ENTRY"), ()),)), mon.set(taken=True))]
                return None
        nf = len(cr.adts[QR]["variants"][qn.index(q)]["fields"])
        entry = ("enum", QR, qn.index(q), tuple(("sym", "P%d" % i) for i in range(nf)))
        a = ai.AI(cr, HL())
        a.run(pkey, mon=Mon(), ext={"ENTRY": entry})
        want = "Int::" if False else None
        ok = bool(outs) and all(("%d)" % (1 if e else 0)) in o.replace(" ", "") or (", %d" % (1 if e else 0)) in o for o in outs)
        ctx.ob(rule, "%s:%s" % (rule, q), ok, "count over one %s entry returns %s (expected the Int %d)" % (q, sorted(outs)[:2], 1 if e else 0), fn=cf, sample={"entry": q, "counted": e})
    ctx.ob(rule, rule + ":uses-filter-count", True, "count is an explicit counting loop over its argument", fn=cf)


VALUE_PATH_OPS = {
    # function -> (named local holding the computed value, operations the value may pass through, with type arguments where they matter)
    "rules::functions::date_time::parse_epoch": ("epoch", {
        "chrono::DateTime::parse_from_rfc3339": None, "std::result::Result::map_err": None, "<std::result::Result<T, E> as std::ops::Try>::branch": None,
        "chrono::DateTime::with_timezone": "chrono::Utc",          # the instant, expressed in UTC
        "chrono::DateTime::timestamp": "chrono::Utc",              # seconds of that instant
        "<std::rc::Rc<T, A> as std::ops::Deref>::deref": None, "<std::string::String as std::ops::Deref>::deref": None,
        "<std::slice::Iter<'a, T> as std::iter::Iterator>::next": None, "<I as std::iter::IntoIterator>::into_iter": None, "core::slice::<impl [T]>::iter": None,
    }),
}


NUMERIC_ADJUST = ("try_from", "try_into", "unwrap_or_default", "unwrap_or", "unwrap_or_else", "clamp", "max", "min", "abs", "unsigned_abs", "saturating_sub", "saturating_add",
                  "wrapping_sub", "wrapping_add", "rem_euclid", "checked_sub", "checked_add", "round", "floor", "ceil", "trunc", "to_int_unchecked")


def value_paths(ctx, cr):
    """the computed value reaches the result through the documented primitive only: on the backward slice of the value no other
    operation occurs (parse_epoch: RFC 3339 parse -> the same instant in UTC -> its timestamp; dropping the offset with
    naive_local().and_utc() or reading the local clock's zone is a different function)"""
    rule = "R-C18-dispatch"
    for key, (local, ops) in sorted(VALUE_PATH_OPS.items()):
        f = cr.fns.get(key)
        if not f:
            ctx.lost(rule, "%s:value-path:%s" % (rule, key.split("::")[-1]), key)
            continue
        names = {n: l for n, l in f["names"] if isinstance(l, int)}
        if local not in names:
            ctx.lost(rule, "%s:value-path:%s" % (rule, key.split("::")[-1]), "local %s" % local)
            continue
        calls, consts, locs = flow.backward_slice(f, names[local])
        bad = []
        for c in calls:
            p = M.norm_path(c["fn"].get("path", ""))
            if p not in ops:
                bad.append("%s (l.%s)" % (p, c.get("ln")))
            elif ops[p] is not None and not any(ops[p] in cr.ty_str(g) for g in c["fn"].get("ga", [])):
                bad.append("%s instantiated with %s, expected %s" % (p, [cr.ty_str(g) for g in c["fn"].get("ga", [])], ops[p]))
        ctx.ob(rule, "%s:value-path:%s" % (rule, key.split("::")[-1]), not bad and len(calls) >= 4, ("the value passes through %s" % sorted(set(bad))[:3]) if bad else "%d operations, all of the documented primitive chain" % len(calls), fn=f)
    # substring offsets: a number becomes an offset by truncation to u16 (so a negative or huge offset ends up out of range and the
    # element is skipped, as documented), never by clamping
    key = "<rules::eval_context::SubstringFunction as rules::eval_context::Callable>::call"
    f = cr.fns.get(key)
    if not f:
        ctx.lost(rule, rule + ":value-path:substring-offsets", key)
        return
    names = {n: l for n, l in f["names"] if isinstance(l, int)}
    bad = []
    benign = ("<std::rc::Rc<T, A> as std::ops::Deref>::deref", "<std::vec::Vec<T, A> as std::ops::Deref>::deref", "core::slice::<impl [T]>::first",
              "std::convert::num::<impl std::convert::From<u16> for usize>::from", "<std::result::Result<T, E> as std::ops::Try>::branch",
              "<std::result::Result<T, F> as std::ops::FromResidual<std::result::Result<std::convert::Infallible, E>>>::from_residual",
              "<std::string::String as std::convert::From<&str>>::from", "<T as std::string::ToString>::to_string", "std::fmt::format", "std::hint::must_use",
              "core::fmt::rt::Argument::new_display", "std::fmt::Arguments::new", "std::fmt::Arguments::from_str")
    for nm in ("from", "to"):
        if nm not in names:
            bad.append("local %s missing" % nm)
            continue
        # interprocedural: the decoding may live in a private helper
        calls, casts = flow.backward_slice_ip(cr, f, names[nm])
        for body_key, c, descended in calls:
            p = M.norm_path(c["fn"].get("path", ""))
            meth = p.split("::")[-1]
            # what may not happen to the number: any other conversion or arithmetic adjustment (error plumbing such as ok_or_else / ? /
            # map_err around it is irrelevant to the value)
            if meth in NUMERIC_ADJUST or (meth in ("from", "into") and "From<u16> for usize" not in p and "String" not in p):
                bad.append("%s: %s (l.%s)" % (nm, p, c.get("ln")))
        num = [c for c in casts if c[0] in ("IntToInt", "FloatToInt")]
        if not num or any(c[1] != "u16" for c in num):
            bad.append("%s: numeric conversion %s instead of truncation to u16" % (nm, num))
    ctx.ob(rule, rule + ":value-path:substring-offsets", not bad, "; ".join(sorted(set(bad))[:3]) or "both offsets: number -> u16 -> usize", fn=f)


def converter_casts(ctx, cr):
    """parse_int of a float TRUNCATES (documented: "floats are truncated"), parse_float of an int is the exact conversion: inside the
    converter functions numbers change type through the `as` cast alone; a rounding call on the way (floor, ceil, round, abs ...) is a
    different function for negative or fractional inputs (`trunc` is what the cast already does and is accepted)."""
    rule = "R-C18-dispatch"
    ROUND = ("floor", "ceil", "round", "round_ties_even", "abs", "signum", "rem_euclid", "div_euclid", "clamp", "max", "min", "fract", "mul_add", "powi", "to_int_unchecked",
             "saturating_sub", "saturating_add", "wrapping_add", "wrapping_sub", "unsigned_abs")
    keys = sorted(k for k, f in cr.fns.items() if k.startswith("rules::functions::converters::") and not f.get("file", "").endswith("_tests.rs") and "::tests::" not in k)
    casts, hits = 0, []
    for k in keys:
        f = cr.fns[k]
        for bi, si, st in M.iter_stmts(f):
            rv = st.get("rv")
            if rv and rv["r"] == "cast" and rv.get("ck") in ("FloatToInt", "IntToFloat"):
                casts += 1
        for bi, t in M.iter_calls(f):
            p = M.norm_path(t["fn"].get("path", ""))
            if p.split("::")[-1] in ROUND and (p.startswith("std::f64") or p.startswith("core::f64") or p.startswith("std::f32") or "f64" in p or "i64" in p or "num::" in p):
                hits.append("%s in %s (l.%s)" % (p, k.split("::")[-1], t.get("ln")))
    ctx.ob(rule, rule + ":value-path:converter-casts", casts >= 2 and len(keys) >= 5 and not hits,
           ("the converters apply %s before the cast: parse_int of a negative fractional number (-1.5) is no longer its truncation (-1)" % hits) if hits
           else "%d converter functions, %d float<->int casts, no rounding call beside them" % (len(keys), casts))


def always_called(ctx, cr):
    """a function call in a rules file is always dispatched to the function: resolve_function returns Ok only with what `name.call(&args)`
    produced.  A shortcut for "nothing selected" returns no value at all where count() yields 0 and join() yields the empty string."""
    rule = "R-C18-dispatch"
    key = "rules::eval_context::resolve_function"
    f = cr.fns.get(key)
    if not f:
        ctx.lost(rule, rule + ":always-called", key)
        return
    outs = []

    class H(ai.Hooks):
        def inline(self, a, st, k, fn):
            return k.startswith(key + "::{closure")

        def call(self, a, st, term, callee, args):
            p = M.norm_path(callee.get("path", ""))
            decl = M.norm_path(callee.get("decl", ""))
            mon = st.mon or Mon()
            if (decl.endswith("Callable::call") or p.endswith("FunctionName::call") or decl.endswith("FunctionName::call")) and st.top is st.frames[0]:
                return [(("enum", ai.RESULT, 0, (a.sym(st, a.site(st, ":values")),)), mon.set(called=True)), (("enum", ai.RESULT, 1, (("sym", "CALL_ERR"),)), mon.set(called=True))]
            return None

        def ret(self, a, st, v):
            outs.append((v, (st.mon or Mon()).get("called"), S.trace_str(st.trace, 4)))
    a = ai.AI(cr, H())
    try:
        a.run(key, mon=Mon())
    except ai.Undecided as e:
        ctx.ob(rule, rule + ":always-called", False, "undecided %s" % e, fn=f)
        return
    ctx.states += a.n_states
    oks = [(c, tr) for v, c, tr in outs if v[0] == "enum" and v[1] == ai.RESULT and v[2] == 0]
    bad = [tr for c, tr in oks if not c]
    ctx.ob(rule, rule + ":always-called", bool(oks) and not bad, ("resolve_function returns Ok without calling the function [%s]: count / join over an empty selection yield no value instead of 0 / \"\"" % bad[0]) if bad
           else "%d Ok paths, all through FunctionName::call" % len(oks), fn=f)


def results_are_resolved(ctx, cr):
    """what a function call yields enters the evaluation as query results of ONE kind (Resolved), whatever its arguments were: the
    comparison operators treat Literal and Resolved operands differently (a scalar against a literal one-element list is compared with the
    element), so `f('x')` would otherwise stop behaving like the same value read from the document."""
    rule = "R-C18-dispatch"
    key = "rules::eval_context::resolve_function"
    f = cr.fns.get(key)
    QRT = "rules::QueryResult"
    if not f or QRT not in cr.adts:
        ctx.lost(rule, rule + ":results-are-resolved", key)
        return
    vn = [v["name"] for v in cr.adts[QRT]["variants"]]
    # from the returned value back to (and not beyond) the call of the function itself: what the ARGUMENTS are wrapped as is not the point
    calls, consts, locs = flow.backward_slice(f, 0, stop=lambda c: M.norm_path(c["fn"].get("decl", "")).endswith(("Callable::call", "FunctionName::call")) or
                                              M.norm_path(c["fn"].get("path", "")).endswith("FunctionName::call"))
    kinds = set()
    # constructor fn items and closures on the slice of the return value
    def scan_consts(o, body):
        if isinstance(o, dict):
            kk = o.get("k")
            if isinstance(kk, dict) and "ty" in kk:
                t = cr.types[kk["ty"]]
                if t["k"] == "fndef":
                    pth = M.norm_path(t.get("p", ""))
                    if pth.startswith(QRT + "::"):
                        kinds.add(pth.split("::")[-1])
            for v in o.values():
                scan_consts(v, body)
        elif isinstance(o, list):
            for v in o:
                scan_consts(v, body)
    arg_closures = set()
    for c in calls:
        d = M.norm_path(c["fn"].get("decl", ""))
        if d in ("std::iter::Iterator::try_fold", "std::iter::Iterator::fold"):
            # the fold that builds the ARGUMENTS (literals are wrapped as Literal there, by design)
            for x in c["args"]:
                pl = M.op_place(x)
                dd = c08.def_of_local(f, pl) if isinstance(pl, int) else None
                if dd and dd[0] == "stmt" and dd[2]["rv"].get("ak") == "closure":
                    arg_closures.add(dd[2]["rv"]["key"])
            continue
        scan_consts(c["args"], f)
        for x in c["args"]:
            pl = M.op_place(x)
            dd = c08.def_of_local(f, pl) if isinstance(pl, int) else None
            if dd and dd[0] == "stmt" and dd[2]["rv"].get("ak") == "closure" and dd[2]["rv"]["key"] not in arg_closures:
                body = cr.fns.get(dd[2]["rv"]["key"])
                for bi, si, st in M.iter_stmts(body) if body else []:
                    rv = st.get("rv")
                    if rv and rv.get("r") == "agg" and rv.get("adt") == QRT:
                        kinds.add(vn[rv["vi"]])
    for bi, si, st in M.iter_stmts(f):
        rv = st.get("rv")
        if rv and rv.get("r") == "agg" and rv.get("adt") == QRT and isinstance(st["p"], int) and st["p"] in locs:
            kinds.add(vn[rv["vi"]])
    ctx.ob(rule, rule + ":results-are-resolved", kinds == {"Resolved"}, ("the values a function call yields are wrapped as %s: a call with literal arguments no longer compares like the same value read from the document" % sorted(kinds)) if kinds != {"Resolved"}
           else "the values a function call yields are wrapped as Resolved only", fn=f)


def per_element_state(ctx, cr):
    """element-wise functions compute each element from that element alone: a buffer that is written inside the per-element loop and
    ends up in the element's result is created inside the loop (a buffer hoisted out of the loop and not cleared makes result k depend
    on elements 1..k-1)"""
    from rules.c05 import loop_blocks
    rule = "R-C18-elementwise"
    n = 0
    for impl in sorted(KINDS):
        key = "rules::functions::" + impl
        f = cr.fns.get(key)
        if not f:
            continue
        nexts = [bi for bi, t in M.iter_calls(f) if M.norm_path(t["fn"].get("decl", "")) == "std::iter::Iterator::next"]
        if not nexts:
            continue
        header = nexts[0]
        body = loop_blocks(f, header)
        names = {l: nme for nme, l in f["names"] if isinstance(l, int)}
        # locals mutably borrowed by a call inside the loop
        mut_in_loop = set()
        for bi, si, st in M.iter_stmts(f):
            rv = st.get("rv")
            if bi in body and bi != header and rv and rv["r"] == "ref" and rv.get("m") and isinstance(rv["p"], int):
                mut_in_loop.add(rv["p"])       # (the loop's own iterator is borrowed in the header block only)
        # their definitions
        bad = []
        for bi, t in M.iter_calls(f):
            if bi not in body or M.norm_path(t["fn"].get("path", "")) != "std::vec::Vec::push" or len(t["args"]) < 2:
                continue
            pl = M.op_place(t["args"][1])
            if pl is None:
                continue
            calls, consts, locs = flow.backward_slice(f, M.place_local(pl))
            for l in sorted(locs & mut_in_loop):
                if names.get(l) in (None, "aggr"):
                    continue
                defs = [b2 for b2, t2 in M.iter_calls(f) if isinstance(t2["dest"], int) and t2["dest"] == l] + [b2 for b2, s2, st2 in M.iter_stmts(f) if st2.get("p") == l and "rv" in st2]
                if defs and not any(b2 in body for b2 in defs):
                    # carried state is harmless when nothing written to it inside the loop depends on the current element (a value
                    # computed once from loop-invariant inputs and cached, e.g. a lazily compiled regex)
                    item = f["blocks"][header]["term"].get("dest")
                    aliases, frontier = {l}, [l]
                    while frontier:
                        x = frontier.pop()
                        for b2, s2, st2 in M.iter_stmts(f):
                            rv2 = st2.get("rv")
                            # only MUTABLE borrows (and moves of them) can write: `regex.captures_iter(val)` through `&compiled` does not
                            if rv2 and ((rv2["r"] == "ref" and rv2.get("m")) or (rv2["r"] == "use" and x != l)) and isinstance(st2["p"], int) and M.place_local(rv2.get("p") if rv2["r"] == "ref" else (M.op_place(rv2["o"]) or -1)) == x and st2["p"] not in aliases:
                                aliases.add(st2["p"])
                                frontier.append(st2["p"])
                    depends = False
                    for b2, t2 in M.iter_calls(f):
                        if b2 not in body or b2 == header:
                            continue
                        arg_locals = [M.place_local(M.op_place(x)) for x in t2["args"] if M.op_place(x) is not None]
                        if any(al in aliases for al in arg_locals):
                            for al in arg_locals:
                                if al in aliases:
                                    continue
                                _c, _k, locs2 = flow.backward_slice(f, al)
                                if isinstance(item, int) and item in locs2:
                                    depends = True
                    if not depends:
                        continue
                    bad.append("`%s` is created before the loop, written inside it and flows into the pushed element" % names.get(l))
        n += 1
        ctx.ob(rule, "%s:%s:per-element-state" % (rule, impl), not bad, "; ".join(sorted(set(bad))) or "no buffer is carried from one element to the next", fn=f)
    if n < 8:
        ctx.lost(rule, rule + ":per-element-state:floor", "element-wise functions with a loop: %d (floor 8)" % n)


def join_shape(ctx, cr):
    """join(list, d) puts d BETWEEN consecutive elements and nowhere else, whatever the elements are: for lists of 0..3 string elements
    (elements and delimiter symbolic, lengths concrete) the sequence of push_str calls on every Ok path is e1 d e2 d .. en.  A decision
    that looks at the accumulated text instead of the position (e.g. `if !aggr.is_empty()`) forks on unknown content and yields a path
    that drops a delimiter."""
    rule = "R-C18-join-shape"
    key = "rules::functions::strings::join"
    f = cr.fns.get(key)
    if not f:
        ctx.lost(rule, rule + ":join", key)
        return
    QR = "rules::QueryResult"
    PAVT = "rules::path_value::PathAwareValue"
    qn = [v["name"] for v in cr.adts[QR]["variants"]]
    pn = [v["name"] for v in cr.adts[PAVT]["variants"]]
    for k in range(0, 4):
        results = []

        class H(ai.Hooks):
            def ret(self, a, st, v):
                results.append((v, (st.mon or Mon()).get("ev", ())))

            def call(self, a, st, term, callee, args):
                p = M.norm_path(callee.get("path", ""))
                decl = M.norm_path(callee.get("decl", ""))
                mon = st.mon or Mon()
                if st.top is not st.frames[0]:
                    return None
                if p in ("core::slice::<impl [T]>::len",):
                    return [(("int", k), mon)]
                if p in ("core::slice::<impl [T]>::is_empty",):
                    return [(("bool", k == 0), mon)]
                if decl == "std::iter::Iterator::next" and term.get("to") is not None:
                    i = mon.get("i", 0)
                    if i >= k:
                        return [(("enum", ai.OPTION, 0, ()), mon)]
                    # Rc<T> is modelled as its pointee (Deref on it is the identity in the interpreter)
                    elem = ("enum", QR, qn.index("Resolved"), (("enum", PAVT, pn.index("String"), (("tuple", (("sym", "PATH%d" % i), ("sym", "E%d" % i))),)),))
                    st.ext["ELEM%d" % i] = elem
                    ty, _ = M.place_ty(cr, None, term["dest"], st.top.body)
                    inner = ty.args()[0] if ty is not None and ty.args() else None
                    item = ("ref", ("X", "ELEM%d" % i), ())
                    if inner is not None and inner.kind == "tuple":
                        item = ("tuple", (("int", i), item))
                    return [(("enum", ai.OPTION, 1, (item,)), mon.set(i=i + 1))]
                if p == "std::string::String::push_str":
                    v = a.resolve(st, args[1])
                    n = 0
                    while v[0] == "ref" and n < 4:
                        v = a.resolve(st, a.read_at(st, v[1], v[2]))
                        n += 1
                    name = v[1] if v[0] == "sym" else ai.fmt_val(v)
                    tok = "d" if "arg2" in str(name) else str(name)
                    return [(("tuple", ()), mon.set(ev=mon.get("ev", ()) + (tok,)))]
                if p == "std::string::String::push":
                    return [(("tuple", ()), mon.set(ev=mon.get("ev", ()) + ("char?",)))]
                return None
        a = ai.AI(cr, H())
        a.cap = 8       # the list length is concrete here (k <= 3): positions are compared exactly, `index + 1 == total` included
        try:
            a.run(key, mon=Mon())
        except ai.Undecided as e:
            ctx.ob(rule, "%s:n=%d" % (rule, k), False, "undecided %s" % e, fn=f)
            continue
        ctx.states += a.n_states
        want = []
        for i in range(k):
            if i:
                want.append("d")
            want.append("E%d" % i)
        want = tuple(want)
        oks = [ev for v, ev in results if v[0] == "enum" and v[1] == ai.RESULT and v[2] == 0]
        bad = sorted(set(ev for ev in oks if ev != want))
        ctx.ob(rule, "%s:n=%d" % (rule, k), bool(oks) and not bad, ("for %d string elements a path builds %s, expected %s" % (k, list(bad[0]), list(want))) if bad else "%d Ok paths, all build %s" % (len(oks), list(want)), fn=f,
               sample={"n": k, "pushes": list(want)} if k == 3 else None)


def run(ctx):
    cr = ctx.lib
    dispatch(ctx, cr)
    elementwise(ctx, cr)
    count_rule(ctx, cr)
    join_shape(ctx, cr)
    value_paths(ctx, cr)
    converter_casts(ctx, cr)
    always_called(ctx, cr)
    results_are_resolved(ctx, cr)
    per_element_state(ctx, cr)
    ctx.assumptions += [
        "the values computed by str::to_uppercase, str::parse, urlencoding::decode, serde_json, chrono, fancy_regex are those primitives' (not analysed)",
        "composition laws (parse_int(parse_string(n)) = n, json_parse round trip) are behavioural and not claimed",
    ]

#!/bin/bash
# usage: tools/run_seed_wt.sh <seed-id> [props...]
# Same experiment as run_seed.sh, but on a scratch git worktree of /repo (GUARD_REPO) with its own evidence directory, so that it can
# run while /repo and /verif/evidence are in use.  The worktree is created at /repo's HEAD if missing; remove it afterwards with
#   git -C /repo worktree remove --force /tmp/wt/SEED
ID="$1"; shift
PROPS="$@"
WT=${SEED_WT:-/tmp/wt/SEED}
[ -z "$PROPS" ] && PROPS=$(python3 -c "import json;print(' '.join(c['property_id'] for c in json.load(open('/verif/MANIFEST.json'))['checks']))")
if [ ! -d $WT ]; then git -C /repo worktree add -q --detach $WT HEAD || exit 2; fi
cd $WT && git checkout -q -- . && git checkout -q --detach $(git -C /repo rev-parse HEAD) && git apply ${SEED_DIR:-/verif/seeded}/$ID/patch.diff || { echo "$ID: patch failed"; exit 2; }
cd /verif
export GUARD_REPO=$WT VERIF_EVIDENCE_DIR=${WT}_evidence
mkdir -p $VERIF_EVIDENCE_DIR
python3 -c "from engine import facts; facts.extract()" > /tmp/seed_${ID}_facts.log 2>&1 || { cd $WT && git checkout -q -- .; echo "$ID -> FACTS-ERROR"; exit 2; }
echo $PROPS | tr ' ' '\n' | xargs -P 8 -I{} sh -c "./check {} > /tmp/seed_${ID}_{}.log 2>&1; echo \$? > /tmp/seed_${ID}_{}.rc"
RES=""
for p in $PROPS; do
  rc=$(cat /tmp/seed_${ID}_$p.rc)
  if [ "$rc" == "0" ]; then RES="$RES $p:quiet"; else
    if grep -q "^VIOLATION" /tmp/seed_${ID}_$p.log; then RES="$RES $p:VIOLATION($(grep -c '^VIOLATION' /tmp/seed_${ID}_$p.log))"; else RES="$RES $p:ERROR"; fi; fi
done
cd $WT && git checkout -q -- .
echo "$ID ->$RES"

#!/usr/bin/env python3
"""Regenerates /verif/MANIFEST.json from the table below (single source of truth)."""
import json
import os

HERE = os.path.dirname(os.path.dirname(os.path.abspath(__file__)))

# property -> (level category, level text, level note, technique, design ref)
CHECKS = {
    "C13": ("other",
            "Exact static decision of the finite control tables the comparison algebra rests on: the four Ordering->bool "
            "tables and their algebra (trichotomy, <=, >=, complement), the ordering kernel's 12x12 variant table with operand "
            "order, the route by which == decides each variant pair, the range-membership table over the inclusive bits and the "
            "bracket->bit / bound->field mapping of the range parser; MapValue's PartialEq compares through IndexMap's "
            "order-insensitive equality only (no positional comparison of the key list). Not claimed: the numeric/lexicographic meaning of std's "
            "cmp, reflexivity/symmetry of == on arbitrary values.",
            "Trusted: rustc nightly front end and MIR construction, the guard-facts extractor, the abstract interpreter "
            "(engine/ai.py) and the spec tables in rules/c13.py (written from the property text).",
            "decision tables extracted by path-sensitive abstract interpretation of MIR (no execution)", "DESIGN.md §5 C13"),
}

TB = ("Trusted: rustc nightly front end and MIR construction, the guard-facts extractor, the abstract interpreter "
      "(engine/ai.py), the monitor specifications in rules/%s.py (written from the property text). Child evaluations are "
      "over-approximated as independent PASS/FAIL/SKIP/Err sources.")
CHECKS["C02"] = ("other",
    "Monitor automata over the MIR of every status combinator (file, rule, when, type block, query block, CNF lines, "
    "named-rule clause, rule_status memo, Status::and): at every Ok return the returned status must equal the formula of "
    "the property over the set of child outcomes; a non-PASS `when` must give SKIP with no body evaluation event; "
    "start/end_record must be LIFO-balanced and the record closing a function's own context must carry the returned "
    "status (16 functions with record events). Exhaustive over the abstract state space of each function; not claimed: "
    "that the printed tree has the right children for arbitrary programs.",
    TB % "c02", "monitor automata / typestate via abstract interpretation of MIR (no execution)", "DESIGN.md §5 C02")
CHECKS["C06"] = ("other",
    "Exit-code tables (constants, evaluate_rule, get_exit_code, TestResult::get_exit_code, update_exit_code, main) decided "
    "exactly, plus a fold/error-discipline monitor over every command-layer function that returns an exit code: nothing "
    "wrong => 0, failures only => 19/7, errors only => 5/non-zero, an observed Err never ends in 0 (or 19 for validate). "
    "Found and repaired two genuine defects (known_findings.txt). Not claimed: clap's flag validation.",
    TB % "c06", "decision tables + fold monitors via abstract interpretation of MIR (no execution)", "DESIGN.md §5 C06")

CHECKS["C03"] = ("other",
    "Must-flow of the clause's prefix negation into every operator evaluator on every path (with an exact 2x2 table: the "
    "binary evaluator receives operator-not XOR prefix-not, the unary one both unchanged), the parser sets `negation` from "
    "the parsed not/NOT/! prefix at every clause construction, and the flip tables (not_operation / inverse_operation "
    "closures, the `empty` result-set special case, the (CmpOperator,bool) Success<->Fail map with NotComparable/Unresolved "
    "unchanged, named-rule table, order-table complements). Found and repaired one genuine defect (prefix not ignored on "
    "binary operators). Not claimed: the recomputed diff lists of negated list comparisons.",
    TB % "c03", "must-flow + decision tables via abstract interpretation of MIR (no execution)", "DESIGN.md §5 C03")

CHECKS["C01"] = ("other",
    "NOT the property's behavioural core (verdict == independent interpreter over programs x documents; that needs run-time "
    "values and is declined). Decided are the finite control tables the documented semantics rests on: the exists/empty/is_* "
    "tables over QueryResult x 12 value kinds (unresolved counts as empty / not exists; `empty` errors exactly on kinds without "
    "emptiness), every unresolved / not-comparable element of a binary comparison contributes exactly FAIL and none is dropped, "
    "empty selections make the clause SKIP, and the all/some aggregation of per-value statuses. Breaking any of these breaks "
    "the behaviour; holding them does not establish it.",
    TB % "c01", "decision tables + monitors via abstract interpretation of MIR (no execution)", "DESIGN.md §5 C01")

CHECKS["C08"] = ("other",
    "Enumerates every panic-capable construct (asserts, panicking macros, unwrap/expect, panicking Index impls and std methods, "
    "process::exit) in code reachable from the library API and the CLI main, over the resolved call graph (CHA for dyn/generic "
    "calls). Each must be discharged by a rule re-checked on every run (derive-generated, writer fault, constant lazy_static "
    "operand, Callable arity table tied to the parser's arity check, path-sensitive proof that the unwrapped value is Some/Ok), or "
    "be in the reviewed table tables/panic_sites.tbl, or be a known finding (29 demonstrated crash sites are listed). A new "
    "construct fails closed. Also: every call-graph cycle must be in the reviewed list of structurally decreasing recursions "
    "(the by-name rule_status cycle is a finding), the parser runs under all_consuming, errors carry line+column, and callers "
    "evaluate only after Ok(Some(rules)). Not claimed: termination of regex/libyaml, memory, dependencies' internals.",
    "Trusted: rustc front end/MIR, the extractor, the call-graph construction (engine/cg.py), the reviewed tables (group-level "
    "reasons obtained by reading the code).",
    "site enumeration over the resolved call graph with discharge rules and reviewed tables (no execution)", "DESIGN.md §5 C08")

CHECKS["C16"] = ("other",
    "Both test reporters take their statuses from root_scope + eval_rules_file (validate's core) and match them through "
    "get_by_rules + get_status_result; get_status_result's matching table is decided by a monitor (non-SKIP expectation met iff "
    "some definition has it; SKIP expectation never met when a definition is non-SKIP and decided only after all definitions, "
    "using the counter<=iterations<=len argument); the passed/failed/skipped bucket written for (expectation present, matched) "
    "is exact in both reporters. JUnit agrees with the other renderings on what failed: one Pass/Fail element per passed_rules/failed_rules entry and the failures attribute accumulated from failed_rules.len(). Exit codes are covered by C06. Not claimed: equality of the serde_yaml test-input loader with "
    "validate's loader; byte-level agreement of the renderings (serde/quick-xml).",
    TB % "c16", "who-calls + monitors via abstract interpretation of MIR (no execution)", "DESIGN.md §5 C16")

CHECKS["C05"] = ("other",
    "Enumerates every consumption of a randomly ordered std HashMap/HashSet (loops, adaptor chains, Debug of keys) in code "
    "reachable from the entry points (call graph with rapid type analysis): a loop that pushes Serialize values or emits "
    "evaluation records in iteration order is a violation; console-only and order-insensitive sites are listed with reasons "
    "and a new site fails closed. Walks the field graph of every type handed to serde_json/serde_yaml serializers (honouring "
    "skip_serializing) for std hash containers, checks the ordered containers (BTreeSet/IndexMap, serde_json preserve_order) and "
    "enumerates clock/env/address reads with the rule that elapsed times only feed time/duration fields. Formatting a colored::ColoredString (whose escape sequences depend on CLICOLOR_FORCE / NO_COLOR / the terminal) is an ambient read allowed only where no structured-output builder reaches; the one `singleton` table row (report_at_least_one) has its side condition re-decided at every call site (one compare result per call, no batching). Found and repaired two "
    "genuine defects (test -o json order, rulegen order). Not claimed: byte-identity of the serializers, stdout/stderr interleaving.",
    "Trusted: rustc front end/MIR, the extractor, the call graph (engine/cg.py), the reviewed tables under tables/.",
    "site enumeration + type-graph walk over the resolved program (no execution)", "DESIGN.md §5 C05")

CHECKS["C09"] = ("other",
    "The report builder decided as a table over record kind x status by a monitor over its MIR: a FAIL rule is listed exactly "
    "once and unconditionally, FAIL containers are descended into, nothing is listed or descended for a non-FAIL record, every "
    "record variant the evaluator constructs is known to the table, failure-only clause variants are built with FAIL; "
    "simplified_json_from_root puts PASS into compliant, SKIP into not_applicable, FAIL into neither and copies the file status; "
    "combine folds with Status::and over an accumulator that starts at the identity SKIP; combine only extends the three buckets (nothing removed or moved); custom_message of every listed entry "
    "depends on the matched record (call-site dependency closure). Not claimed: the content of `checks` for arbitrary programs.",
    TB % "c09", "decision tables + dependency closure via abstract interpretation of MIR (no execution)", "DESIGN.md §5 C09")
CHECKS["C11"] = ("other",
    "NOT the equality of the two loaders on all scalar spellings (serde_yaml is a dependency; spellings are run-time data). "
    "Decided: the CloudFormation short-form tables (every accepted tag has a long form, k -> Fn::k except Ref/Condition, all 21 "
    "documented tags present, both loaders use the same tables), the libyaml scalar cascade (quoted => String without parsing; "
    "plain => i64, f64, bool, null spellings in that order; explicit core tag table), every documented (tag, payload form) pair is in the table the libyaml loader consults for that form, rejection of aliases and non-string keys, and "
    "the serde_yaml/serde_json -> Value conversion tables with exactly one insert per map entry / list element.",
    TB % "c11", "literal-table extraction + decision tables via abstract interpretation of MIR (no execution)", "DESIGN.md §5 C11")

CHECKS["C07"] = ("other",
    "Who-may-call / who-may-construct over the resolved call graphs of the library, the CLI, the Lambda and the FFI crate: every "
    "entry path evaluates through eval_rules_file on a root_scope-built resolver and nothing outside the evaluator builds verdict "
    "records; the command layer's status and exit-code specifications (C06) are re-decided with all output flags unconstrained "
    "(non-interference); each reporter's Status->bucket mapping (summary table sections, console summary arguments, JUnit case "
    "and status attribute, SARIF from not_compliant only) equals one oracle; JUnit text goes through the escaping constructor. "
    "Not claimed: well-formedness produced by serde/quick-xml themselves; equality of the serde loader with the libyaml loader.",
    TB % "c07", "call-graph rules + decision tables via abstract interpretation of MIR (no execution)", "DESIGN.md §5 C07")

CHECKS["C12"] = ("other",
    "On every path through every caller of eval_rules_file (loops unrolled abstractly up to 3 scope creations) each "
    "evaluation runs on a root scope that was just built by root_scope from the rules value being evaluated, a scope is never "
    "evaluated twice, and the extracted record comes from that scope; no static mut / thread_local / interior-mutable static "
    "exists in the library, CLI, Lambda or FFI crates (write-once Lazy/OnceLock payloads are checked); no type or collection "
    "owns a RootScope. Failure-iff-some-pair is C06. Not claimed: effects of directory walk order on which files are found.",
    TB % "c12", "monitor via abstract interpretation of MIR + type-level queries (no execution)", "DESIGN.md §5 C12")
CHECKS["C17"] = ("other",
    "PathAwareValue::merge decided as a per-entry monitor (absent key => exactly one value insert and one key record; present key "
    "=> MultipleValues error at once; List/List extends; every other kind pair is an error), every caller of merge returns the "
    "merge error on all paths (no unwrap), and in Validate::execute each of the four evaluation sinks receives the value folded "
    "from --input-parameters. The parameter value is loop-invariant in the per-file loops (never taken, replaced or mutably borrowed), and the sibling discovery loops of Validate::execute ask the same file-kind question (Path::is_file). Found and repaired two genuine defects (payload path ignored the parameters; structured path "
    "unwrapped the merge). Not claimed: independence from the order of parameter files.",
    TB % "c17", "monitors + def-use via abstract interpretation of MIR (no execution)", "DESIGN.md §5 C17")

CHECKS["C18"] = ("other",
    "NOT the computed values (std / dependency primitives at run time). Decided: for the 15 documented functions the tables "
    "agree (parser name <-> variant <-> printed name round trip, documented arity, variant -> marker -> implementation -> the "
    "expected primitive); every element-wise function pushes exactly one result per element on every non-error path, unresolved "
    "entries and unsupported kinds are skipped (None), the produced kind per input kind is the documented one; a failing "
    "conversion in the parse_* family is an error and never a default value; join, for 0..3 symbolic string elements, pushes e1 d e2 d .. en on every Ok path (the delimiter decision may not look at the accumulated text); count counts exactly the non-UnResolved entries.",
    TB % "c18", "table agreement + per-element monitors via abstract interpretation of MIR (no execution)", "DESIGN.md §5 C18")

CHECKS["C14"] = ("other",
    "NOT layout/comment acceptance in every context nor verdict equality (behavioural). Decided from the nom combinator calls of "
    "the resolved program: every keyword parser accepts all documented spellings (when/WHEN, in/IN, exists, empty, keys, some, "
    "this, the seven is_*, true/True, false/False, null/NULL, or/OR/|OR|, not/NOT/!, =/:=) and the spellings of one keyword "
    "produce one value; parse_string is one parser instantiated with both quotes; .n and [n] both build QueryPart::Index from the "
    "integer parser; the type-block desugaring (Resources, all values, filter Type == name, match_all, not negated); every delimiter-valued character inside it is the captured delimiter; bare nom blank skippers occur only in 8 reviewed intra-clause functions (comments are whitespace between and after clauses); each file-level expression is pushed as ONE line of the default rule; the implicit "
    "default rule (named default, no condition, placed first).",
    "Trusted: rustc front end/MIR, the extractor, the literal-flow extraction in rules/c14.py; nom's combinators (dependency).",
    "literal-set extraction over the resolved MIR (no execution)", "DESIGN.md §5 C14")

CHECKS["C10"] = ("other",
    "NOT that reported pointers resolve in the document or that positions match the file text (run-time facts). Decided necessary "
    "conditions with a symbolic path algebra over both document loaders: list child i is converted with path parent/i (i the "
    "enumeration index), the value under key k with parent/k and stored under k, scalars keep the incoming path; under the libyaml "
    "loader every value takes its own mark (list elements and map values the value's mark, keys the key's mark); mark.line->line, "
    "mark.column->col; with_location replaces only the location; the text handed to every document parser is the text as read (backward slice with a copy-only allowlist, 32 call sites); every UnResolved built during retrieval names the function's own traversal parameter as the point reached (13 sites); extend_str appends '/'+part and keeps the location; Path values "
    "are built only by Path's own constructors.",
    TB % "c10", "symbolic path algebra via abstract interpretation of MIR (no execution)", "DESIGN.md §5 C10")

CHECKS["C15"] = ("other",
    "NOT program-transformation equivalence (behavioural). Decided: the scope chain (a block scope consults its own literals, "
    "memo, function expressions and queries first and the parent only when all miss; the root scope errors on a miss; what is "
    "memoised is what is returned, under the requested name; a memo hit is returned without re-evaluation), every site that wraps a "
    "literal let/argument value uses QueryResult::Literal (sibling agreement; one deviant site was a genuine defect and is "
    "repaired), parameter i is bound to argument i after the arity comparison and shadows outer names, and the parser inserts [*] "
    "after a leading variable; the documented emptiness exception (result-set test) is taken exactly for a query ending in a filter or "
    "consisting of a single variable part (table over last-part kind x is_variable x length).",
    TB % "c15", "monitors via abstract interpretation of MIR (no execution)", "DESIGN.md §5 C15")

CHECKS["C04"] = ("other",
    "NOT verdict equality under arbitrary permutation/duplication (behavioural). Decided necessary conditions: every aggregation "
    "site computes a function of the SET of child outcomes, the loop over the rules of a file is walked to exhaustion on every Ok "
    "return (no rule left unevaluated because of its position), the rule lookup table is built from all definitions (entry+push, no overwrite) with no "
    "evaluation reachable while it is built, each memo write stores the value that is returned under the requested name after "
    "its computation completed, and the one accumulating memo write (key capture) is idempotent: the push happens only where a "
    "reflexive membership test over the same slot found no equal element (this was a genuine defect, repaired).",
    TB % "c04", "loop-exhaustion and memo-write typestate via abstract interpretation of MIR; who-may-write enumeration over resolved MIR places", "DESIGN.md §5 C04")

CHECKS["C19"] = ("other",
    "NOT the generate -> parse -> validate round trip (behavioural). Decided necessary conditions in commands/rulegen.rs: the "
    "generated text reaches the output only in the Ok arm of the parser self-check on that same text and the Err arm only reports; "
    "the emitted lines have the token shape `let V = Resources.*[ Type == 'T' ]` / `rule R when %V !empty {` / "
    "`%V.Properties.P == <first value>` only where the value set can hold exactly one value, otherwise `IN [<all values joined>]`, "
    "with the same V, the map key as T and the property key as P (format arguments resolved to their sources, templates decoded "
    "from the compiled format_args constants); in gen_rules every path past the type lookup records the value under (type, "
    "property), the recorded string is reached from the property value only through operations that are the identity on the "
    "property's domain (a trim on that path was a genuine defect, repaired), and quotes are added exactly on the is_string branch.",
    TB % "c19", "abstract interpretation of MIR with symbolic format arguments; backward data slice with an operation allowlist", "DESIGN.md §5 C19")

# rules added after the second round of seeded changes (appended to the claim text; the authoritative list is each module's docstring / DESIGN §10.3)
MORE = {
    "C19": "Also: Keys and values in gen_rules are identified by origin (type string, n-th loop's key / value), not by local names; quotes-iff-string is decided per path with rulegen-private helpers interpreted in place.",
    "C16": "Also: get_by_rules appends every top-level RuleCheck to the list of its name and never overwrites an entry; every evaluated test input is inserted into the structured result; lazy adaptor chains in build_junit_test_cases are read as the loops they abbreviate. The plain and structured --dir handlers parse rules files under the same name.",
    "C13": "Also: No evaluator function keys a hash collection by document values outside one reviewed use (Hash for PathAwareValue disagrees with compare_eq for regexes and maps). The one-element-literal-list shorthand of the keys filter is guarded by len() == 1.",
    "C10": "Also: The conversion used by every machine-readable report hands Int / Float to serde_json's i64 / f64 constructors without a numeric cast. No list element / map entry is skipped by the document conversion loops.",
    "C06": "Also: The --test-data suffix filter of `test` accepts every documented spelling, so a spec file cannot be skipped silently. No Result is turned into nothing (flatten / flat_map over Results, .ok() on an error-carrying Result) outside three reviewed walkdir idioms.",
    "C04": "Also: The capture-key de-duplication compares the elements' paths (not a component such as the location alone) besides their values.",
    "C01": "Also: evaluator error discipline — in each of the ~150 reachable Result-returning functions under rules:: a callee's Err leads to an Err return on every path (one reviewed conversion: NotComparable in each_lhs_compare). An empty selection gives SKIP under every unary operator, both operator polarities and both prefix polarities (except the documented empty-on-variable case).",
    "C02": "Also: every delegating RecordTracer::end_record hands the incoming record on unchanged; the one rewriting wrapper keeps name and status and rewrites only the called rule's record. The rewriting wrapper rebuilds a RuleCheck only on the path where its name was compared with the called rule's and found equal.",
    "C03": "Also: the side over which a negated query-vs-query comparison recomputes its difference, as a table over (operator, rhs.len()>=lhs.len()). A flipped query-vs-query result is rebuilt with a recomputed difference list.",
    "C05": "Also: chrono::Local (process time zone) is an ambient source. A hash iteration that is only collected into a Vec which is sorted before any other use is discharged on the CFG (the sort dominates every other use).",
    "C07": "Also: no PASS/FAIL entry is ever removed from the summary table's section maps (only the reviewed SKIP clean-up). SARIF turns each message of a failing clause into exactly one result (fold read as a loop; one push per element). While the summary table collects the rules, its section maps are only inserted into.",
    "C08": "Also: reviewed table rows whose reason relates two sites are re-decided (split(P)[1] only under contains(P) of the same constant), and positive controls on a fixture crate for every construct family and for cycle detection. The receiver of TestResult::insert_test_case (which ends in unreachable!() for Err) is the Ok variant on every path of every caller; every regex is built with the engine's default backtracking budget. Discharge rule G: args[position - c] in a closure / private helper of a built-in's call, position a literal at every call site and 0 <= position - c < arity.",
    "C09": "Also: the fold in get_rule_info pushes every rules file that was read exactly once; Validate::execute never removes entries from the collected file lists. FileReport::combine extends each bucket with the whole bucket of the same name of the other report (no filtered or cross-wired sequence); the structured evaluator's two folds collect every parsed rules file and every data file exactly once. binary_operation emits FAIL checks per element of the difference list only.",
    "C11": "Also: path-sensitive decision table of all three tag decision points (expanded iff the tag is in SINGLE_VALUE_FUNC_REF or SEQUENCE_VALUE_FUNC_REF, whatever the payload kind); a genuine loader disagreement was found and repaired. An entry point that reads one text as JSON and as YAML tries the second format on every path on which the first parse failed.",
    "C12": "Also: the per-data-file JUnit counters are initialised inside the loop over the data files. The discovery loops of Validate::execute skip a found file only for not being a regular file or lacking a supported extension, and walk_dir drops no entries (shared with C17).",
    "C14": "Also: a separator is required after the or-keyword and after not; list/map literals separate with the layout-tolerant separated_by; the text of string/regex literals reaches the value only through slicing at the escape. Whoever spells out one spelling of a keyword accepts all of them (single recogniser); a file-level when block parses its body with the same clause parsers as one inside a rule; the traversal step for an explicit `this` continues on the same current value, resolver and converter.",
    "C15": "Also: every Ok return of a parameterised call follows exactly one evaluation of the called rule; a bare %v hands the stored entry on unchanged (a Literal stays Literal).",
    "C17": "Also: every file accepted by a discovery loop reaches build_data_file before the next iteration. The only ways a found file is skipped are the is_file and extension tests (whole loop body, natural loops), and walk_dir applies nothing that drops entries. merge never swaps / replaces one of the parallel key / value structures; no mutable borrow of the parameters in the per-file loops.",
    "C18": "Also: parse_epoch's value passes only through parse_from_rfc3339 -> with_timezone::<Utc> -> timestamp; substring offsets are truncated to u16 (never clamped); no buffer created outside the per-element loop flows into an element's result; json_parse errors on unparsable text. resolve_function returns Ok only with what the function's call produced; numbers change type in the converters through the `as` cast alone (no floor / round / abs); the join shape is decided with exact positions. Function results are wrapped as Resolved only; carried state in element-wise functions is harmless only if nothing written to it in the loop depends on the element.",
}

NOT_APPLICABLE = {
}

PENDING = ["C01", "C02", "C03", "C04", "C05", "C06", "C07", "C08", "C09", "C10", "C11", "C12", "C14", "C15", "C16",
           "C17", "C18", "C19"]


def main():
    checks = []
    for pid in sorted(CHECKS):
        cat, text, note, tech, ref = CHECKS[pid]
        checks.append({
            "property_id": pid,
            "quick_cmd": "./check %s --tier quick" % pid,
            "thorough_cmd": "./check %s --tier thorough" % pid,
            "evidence_file": "/verif/evidence/%s.json" % pid,
            "replay_cmd_template": "./check %s --replay {path}" % pid,
            "engine": "guard-facts + python engines",
            "level_claimed": {"category": cat, "text": (text + " " + MORE[pid]) if pid in MORE else text, "design_ref": ref},
            "level_note": note,
            "technique": tech,
        })
    na = [{"property_id": p, "reason": r} for p, r in sorted(NOT_APPLICABLE.items())]
    for p in PENDING:
        if p not in CHECKS and p not in NOT_APPLICABLE:
            na.append({"property_id": p, "reason": "static rules designed (DESIGN.md §5) but not yet implemented in this tree; not claimed until they decide on the unchanged tree"})
    m = {
        "version": 1,
        "setup_cmd": "./setup.sh",
        "hooks": {
            "guard": "cfn_guard_verif",
            "enable": "none needed: static analysis reads the type-checked program; no hook code is compiled into /repo",
            "baseline_off_cmd": "cd /repo && cargo test --workspace --no-fail-fast --offline",
            "source_commits": [],
            "add_only": True,
        },
        "engines": [
            {"name": "guard-facts", "path": "/verif/driver", "kind_free_text": "rustc_private driver: MIR/ADT/impl facts as JSON (E0)",
             "serves_properties": sorted(CHECKS)},
            {"name": "ai", "path": "/verif/engine/ai.py", "kind_free_text": "path-sensitive abstract interpreter over MIR: decision tables and monitor automata (E2/E3)",
             "serves_properties": sorted(CHECKS)},
        ],
        "checks": checks,
        "not_applicable": na,
        "notes": "All checks are static: they re-extract facts from /repo's current working tree (content-hashed) and never run /repo's code.",
    }
    with open(os.path.join(HERE, "MANIFEST.json"), "w") as fh:
        json.dump(m, fh, indent=1)
    print("MANIFEST.json: %d checks, %d not_applicable" % (len(checks), len(na)))


if __name__ == "__main__":
    main()

#!/bin/bash
# usage: tools/run_seed_par.sh <seed-id> [props...] : like run_seed.sh, but extracts the facts once and runs the checks in parallel
ID="$1"; shift
PROPS="$@"
[ -z "$PROPS" ] && PROPS=$(python3 -c "import json;print(' '.join(c['property_id'] for c in json.load(open('/verif/MANIFEST.json'))['checks']))")
cd /repo && git apply /verif/seeded/$ID/patch.diff || { echo "$ID: patch failed"; exit 2; }
cd /verif
python3 -c "from engine import facts; facts.extract()" > /tmp/seed_${ID}_facts.log 2>&1 || { cd /repo && git checkout -q -- .; echo "$ID -> FACTS-ERROR"; exit 2; }
echo $PROPS | tr ' ' '\n' | xargs -P 10 -I{} sh -c "./check {} > /tmp/seed_${ID}_{}.log 2>&1; echo \$? > /tmp/seed_${ID}_{}.rc"
RES=""
for p in $PROPS; do
  rc=$(cat /tmp/seed_${ID}_$p.rc)
  if [ "$rc" == "0" ]; then RES="$RES $p:quiet"; else
    if grep -q "^VIOLATION" /tmp/seed_${ID}_$p.log; then RES="$RES $p:VIOLATION($(grep -c '^VIOLATION' /tmp/seed_${ID}_$p.log))"; else RES="$RES $p:ERROR"; fi; fi
done
cd /repo && git checkout -q -- .
echo "$ID ->$RES"

#!/bin/bash
# usage: tools/run_seed.sh <seed-id> [props...]  : applies /verif/seeded/<id>/patch.diff to /repo, runs the checks, reverts
ID="$1"; shift
PROPS="$@"
[ -z "$PROPS" ] && PROPS=$(python3 -c "import json;print(' '.join(c['property_id'] for c in json.load(open('/verif/MANIFEST.json'))['checks']))")
cd /repo && git apply /verif/seeded/$ID/patch.diff || { echo "$ID: patch failed"; exit 2; }
cd /verif
RES=""
for p in $PROPS; do
  if ./check $p > /tmp/seed_$ID_$p.log 2>&1; then RES="$RES $p:quiet"; else
    if grep -q "^VIOLATION" /tmp/seed_$ID_$p.log; then RES="$RES $p:VIOLATION($(grep -c '^VIOLATION' /tmp/seed_$ID_$p.log))"; else RES="$RES $p:ERROR"; fi; fi
done
cd /repo && git checkout -q -- .
echo "$ID ->$RES"

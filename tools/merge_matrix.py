#!/usr/bin/env python3
"""merges the per-stream outputs of a full matrix run (lines `<id> -> Cnn:quiet|VIOLATION(k)|ERROR ...`) into
seeded/RESULTS.txt and neutral/RESULTS.txt (last result per id wins); prints a summary.   usage: merge_matrix.py <glob-prefix>"""
import glob, re, sys
prefix = sys.argv[1] if len(sys.argv) > 1 else "/tmp/m8_"
res = {}
for fn in sorted(glob.glob(prefix + "*.out")):
    for ln in open(fn, errors="replace"):
        m = re.match(r"^([A-Z]\d+-\d+) ->(.*)$", ln.strip())
        if m:
            res[m.group(1)] = m.group(2).strip()
def key(i):
    a, b = i.split("-")
    return (a[0], int(a[1:]), int(b))
seeds = sorted((i for i in res if i.startswith("C")), key=key)
neut = sorted((i for i in res if not i.startswith("C")), key=key)
if "--write" in sys.argv:
    with open("/verif/seeded/RESULTS.txt", "w") as fh:
        for i in seeds:
            fh.write("%s -> %s\n" % (i, res[i]))
    with open("/verif/neutral/RESULTS.txt", "w") as fh:
        for i in neut:
            fh.write("%s -> %s\n" % (i, res[i]))
miss = [i for i in seeds if "VIOLATION" not in res[i]]
err = [i for i in res if "ERROR" in res[i]]
alarm = [i for i in neut if "VIOLATION" in res[i]]
print("seeds: %d run, %d reported, unreported: %s" % (len(seeds), len(seeds) - len(miss), miss))
print("neutral: %d run, %d silent, alarms: %s" % (len(neut), len(neut) - len(alarm), [(i, re.findall(r"(C\d+):VIOLATION", res[i])) for i in alarm]))
print("errors:", err)

#!/usr/bin/env python3
"""One-off helper used to draft tables/panic_sites.tbl from /tmp/undischarged.txt: assigns a reviewed group reason to each
site by (function, kind) pattern; anything unmatched is printed for individual review.  The table itself is the artefact."""
import re, sys
rows = [l.rstrip("\n").split("\t") for l in open("/tmp/undischarged.txt") if l.strip()]
FINDINGS = [   # (function regex, kind:what prefix, finding text) -> known_findings.txt, not the table
 (r"(RegexReplaceFunction|SubstringFunction|JoinFunction) as rules::eval_context::Callable>::call$", "index:Vec[usize]", "F4b args[k][0] on an empty query result: `let e = Resources[ Type == 'none' ]` + `join(Resources.*.Name, %e)` (or substring/regex_replace with an empty query argument) => index out of bounds panic, exit 101"),
 (r"rules::functions::strings::substring$", "index:nom-slice", "F4c substring(s,1,2) on \"h\u00e9llo\": byte offsets inside a multi-byte character => 'byte index is not a char boundary' panic"),
 (r"commands::validate::build_data_file$", "index:String[range]", "F4d malformed data file > 100 bytes with a multi-byte character across byte 100: panic while formatting the parse error"),
 (r"commands::rulegen::gen_rules$", "unwrap:Option::unwrap", "F4e rulegen on a template whose resource has Properties but a missing/non-string Type (or non-map shapes): Option::unwrap on None"),
 (r"commands::reporters::validate::cfn::handle_resource_aggr$", "panic:unreachable", "F4f template with \"Type\": 5 and a failing rule, console output: unreachable!() in the CFN-aware reporter"),
 (r"cfn::single_line::ErrWriter::emit_code$", "assert:Overflow:Sub", "F4g one-line JSON CFN template with a failing rule: `line - 2` underflow in emit_code (debug profile panics; release prints no excerpt)"),
 (r"commands::reporters::validate::tf::single_line$", None, "F4h document with a top-level resource_changes key and a failing rule, e.g. {\"resource_changes\":[{\"address\":\"nodot\",\"x\":1}]} + resource_changes[*].x == 2: shape assumptions of the Terraform-plan reporter (unreachable!/unwrap/slice)"),
 (r"tf::single_line::ErrWriter as .*binary_error_(in_)?msg$", None, "F4h (same input family) Terraform-plan reporter message writer: todo!()/slice on an address without the expected shape"),
 (r"StructuredEvaluator::evaluate::\{closure#1\}$", "unwrap:Result::unwrap", "F7 `validate --structured -d {\"a\":1} -i {\"a\":2}`: merge(..).unwrap() panics on the duplicate key instead of reporting the error (plain mode returns the error)"),
 (r"<commands::test::Test as commands::Executable>::execute$", "unwrap:Option::unwrap", "F12 `cfn-guard test -r rules.guard` without --test-data (or -t without -r): Option::unwrap on None, exit 101"),
]
R = [
 (r"rules::libyaml::loader::", None, "P7 libyaml event stream: Parser::next returns Err before an unbalanced/ill-formed event reaches the loader, so the container stack mirrors the open containers"),
 (r"rules::libyaml::(cstr|event|parser|util)", None, "P7 libyaml FFI layer (port of serde_yaml's wrapper): lengths and pointers come from libyaml's own event structs"),
 (r"rules::parser::.*closure", "panic:unreachable", "P6 pattern fixed by the enclosing nom combinator: the closure only sees values produced by its own sub-parsers"),
 (r"rules::parser::", "panic:unreachable", "P6 pattern fixed by the enclosing nom combinator"),
 (r"rules::parser::", "unwrap:Result::unwrap", "PathAwareValue::try_from(Value) of a literal produced by parse_value: only the BadValue-free variants are built by the literal parsers"),
 (r"rules::parser::", "assert:", "offset arithmetic on nom spans of text that was already matched (length >= the subtracted prefix)"),
 (r"rules::parser::", "index:", "slice of the matched fragment at offsets returned by the regex/nom match on that same fragment"),
 (r"rules::parser::(access|rules_file)", "method:Vec::insert", "insert at index 0/1 of a vector that was just built with at least that many elements"),
 (r"RulesFile as std::convert::TryFrom<&str>", None, "rules_file returns Ok(Some) for non-empty input; library convenience conversion documented to panic on empty rules"),
 (r"query_retrieval_with_converter|rules::eval_context::(accumulate|accumulate_map|retrieve_index)", None, "traversal invariant: query_index < query.len() is checked at the head of query_retrieval_with_converter and slices start at query_index(+1) <= len; negative indices are normalised against the list length before use"),
 (r"rules::eval::(unary_operation|real_binary_operation|eval_guard_access_clause|eval_guard_named_clause)", "panic:unreachable", "P4 arm excluded by the producers: per-value statuses are PASS/FAIL only (C01/C03 tables) and operators are split by is_unary/value_cmp at parse time"),
 (r"rules::eval::unary_operation", "assert:", "lhs_query is non-empty: parser::access always yields at least one query part"),
 (r"rules::eval::each_lhs_compare", "index:", "rhs.len() == 1 is tested in the enclosing if"),
 (r"rules::eval::eval_parameterized_rule_call", "index:", "idx < parameter_names.len(): arity equality is checked above and idx enumerates call_rule.parameters"),
 (r"rules::eval::operators::match_value", "panic:unreachable", "comparators (compare_eq/lt/...) return only Ok or Err(NotComparable)... plus regex errors; see finding list if demonstrated"),
 (r"rules::eval::operators::is_literal", None, "len() == 1 is tested before [0]"),
 (r"rules::eval::operators::contained_in", None, "!rhsl.is_empty() is tested before rhsl[0]"),
 (r"EqOperation as rules::eval::operators::Comparator>::compare", None, "rhsl.len() == 1 is tested before rhsl[0]"),
 (r"CmpOperator,bool\) as rules::eval::operators::Comparator>::compare", None, "P6 Compare::ListIn is only built with a List lhs (contained_in)"),
 (r"report_all_failed_clauses_for_rules", None, "P6 record payloads are built by eval.rs with the matching QueryResult variant (from is never Literal in a FAIL record; MissingBlockValue only with UnResolved; InComparison.from always Resolved) — constructor sites checked by C09"),
 (r"simplified_json_from_root", None, "P6 the root record closed by eval_rules_file is always FileCheck (C02 record-status)"),
 (r"RecordTracker::extract", None, "typestate: extract is called after the root record was closed (C02 record nesting, Ok paths only)"),
 (r"FileReport::combine", None, "combine is only called for reports of the same data file (name copied from the same DataFile in the loop)"),
 (r"Callable>::call::\{closure#0\}", "panic:unreachable", "closure is only called with the constants 2 and 3"),
 (r"rules::functions::collections::count|rules::functions::strings::join", None, "index guarded by the emptiness/length test in the same function"),
 (r"commands::test::|TestResult::insert_test_case|reporters::test::", "panic:unreachable", "OutputFormatType / TestResult variant excluded by validate_construct and by construction of the result two lines above"),
 (r"commands::(validate|reporters::validate::structured)", "panic:unreachable", "OutputFormatType / flag combination excluded by clap (required group rules|payload) and Validate::validate_construct before dispatch"),
 (r"commands::reporters::(get_test_case|EventType)", "panic:unreachable", "status/event variant excluded by the enclosing match (FAIL handled in the arm above; text events only for Failure/Error)"),
 (r"commands::reporters::get_test_case::", "index:", "split(\".guard/\") of a name that contains \".guard/\" (tested by contains) has at least 2 parts"),
 (r"main$|commands::rulegen::parse_template_and_call_gen", "method:process::exit", "deliberate process exit after the diagnostic was written"),
 (r"rules::values::Value as std::convert::TryFrom", "unwrap:Option::unwrap", "as_i64/as_f64/as_str/... after the matching is_* test on the same serde value"),
 (r"PathAwareValue as std::cmp::PartialEq", None, "compare_eq cannot error for non-regex operands; PartialEq is used by contains() on loaded values only"),
 (r"ValueOnlyDisplay|EventRecord as std::fmt::Display|BlockGuardClause as std::fmt::Display|GuardClause as std::fmt::Display", None, "formatter not used on any evaluation path (Display impl reachable only through the call-graph over-approximation of generic formatting)"),
 (r"commands::completions::Shell", None, "clap value_parser restricts --shell to the implemented shells before From<String> runs"),
 (r"commands::files::Iter", None, "index < files.len() tested at the head of next()"),
 (r"commands::validate::pprint_tree", None, "children.len() - 1 inside `if !children.is_empty()`"),
 (r"commands::validate::get_file_name", None, "file_name() of a path that was accepted by validate_path/is_file"),
 (r"OrderedTestDirectory as std::convert::From<walkdir::WalkDir>", None, "strip_suffix after ends_with of the same suffix"),
 (r"commands::test::handle_structured_directory_report", "unwrap:Option::unwrap", "path.to_str() of a path produced by walkdir from UTF-8 arguments"),
 (r"rules::short_form_to_long", None, "P4 only called for tags contained in the two tag tables, which are subsets of the mapping's keys (C11 tag tables)"),
 (r"rules::eval_context::CONVERTERS|CFN_RESOURCES|RESOURCE_CHANGE_EXTRACTION|PATH_FROM_MSG|RELATIVE_PATH", None, "C constant regex in a lazy_static initialiser"),
 (r"reporters::validate::(common|generic_summary|cfn_reporter)", "panic:unreachable", "OutputFormatType / record variant excluded by the caller (console reporters are only built for the single-line-summary format)"),
 (r"reporters::validate::common::emit_messages", None, "index guarded by length test"),
 (r"GenericReporter::print_test_case_report", None, "get(result) for a key taken from by_result.keys()"),
 (r"commands::rulegen::print_rules", "unwrap:Result::unwrap", "writeln to the output writer (environment fault)"),
 (r"commands::rulegen::print_rules", "unwrap:Option::unwrap", "values.iter().next() inside `if values.len() == 1`"),
 (r"libyaml::parser::Parser::new", None, "libyaml initialisation failure = out of memory (environment fault)"),
]
R += [
 (r"main$|parse_template_and_call_gen$", "method:process::exit", "deliberate process exit after the diagnostic was written"),
 (r"commands::reporters::validate::cfn::|CfnAware as commands::validate::Reporter", None, "shape assumptions of the CFN-aware console reporter, entered only when the document has a top-level `Resources` map and the failing value lies under /Resources/<name>/...; not individually demonstrated (F4f/F4g list the demonstrated ones)"),
 (r"TfAware as commands::validate::Reporter", None, "entered only for documents with a top-level resource_changes key; see F4h for the demonstrated crashes of the callee"),
 (r"console_reporter::pprint_failed_sub_tree", None, "legacy console tree printer: record variants excluded by the evaluator's constructors (P6); reachable only through the call-graph over-approximation of dyn Reporter"),
 (r"commands::rulegen::print_rules$", None, "values.iter().next() inside `if values.len() == 1`; writeln to the output writer (environment fault)"),
 (r"commands::test::handle_structured_directory_report$", "unwrap:Option::unwrap", "path.to_str() of a path produced by walkdir from UTF-8 command-line arguments"),
 (r"rules::eval::unary_operation$", "assert:", "lhs_query is non-empty: parser::access always yields at least one query part"),
 (r"rules::eval_context::cmp_str$", None, "operator arms excluded by is_unary()/binary split of the caller"),
 (r"rules::parser::", "assert:", "offset arithmetic on nom spans of text that was already matched (length >= the subtracted prefix)"),
 (r"rules::parser::", "unwrap:Result::unwrap", "PathAwareValue::try_from(Value) of a literal produced by parse_value cannot fail: the literal parsers build no variant that the conversion rejects"),
 (r"rules::parser::", "method:Vec::insert", "insert at index 0/1 of a vector that was just built with at least that many elements"),
 (r"rules::path_value::Path::relative$", None, "slice at the byte offset returned by rfind('/') on the same string (a char boundary)"),
 (r"rules::path_value::traversal::Traversal::at$", None, "regex captures of a pattern that matched (group present) and parse of a \\d+ capture"),
 (r"rules::values::Value as std::convert::TryFrom", None, "as_i64/as_f64/as_u64/as_str after the matching is_* test on the same serde value"),
 (r"utils::ReadCursor::", None, "cursor arithmetic guarded by the bounds tests at the head of next()/seek_line(); used only by the console reporters to print code excerpts"),
 (r"utils::writer::", None, "String::from_utf8 / write on the in-memory or stdio writer (environment fault)"),
]
out = []
unmatched = []
findings = []
for loc, key in rows:
    m = re.match(r"^(.*?):(assert|panic|unwrap|method|index):(.*)#\d+$", key)
    fn, kind, what = m.group(1), m.group(2), m.group(3)
    kw = "%s:%s" % (kind, what)
    hit = False
    for pat, k2, text in FINDINGS:
        if re.search(pat, fn) and (k2 is None or kw.startswith(k2)):
            findings.append((key, text)); hit = True; break
    if hit:
        continue
    for pat, k2, reason in R:
        if re.search(pat, fn) and (k2 is None or kw.startswith(k2)):
            out.append((key, reason)); break
    else:
        unmatched.append((loc, key))
with open("/tmp/panic_table_draft.tbl", "w") as fh:
    for k, r in out: fh.write("%s | %s\n" % (k, r))
with open("/tmp/panic_findings_draft.txt", "w") as fh:
    for k, t in findings: fh.write("finding: property=C08 key=%s %s\n" % (k, t))
print(len(out), "matched;", len(findings), "findings;", len(unmatched), "unmatched")
for l, k in unmatched: print(l, k)

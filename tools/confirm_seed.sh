#!/bin/bash
# usage: tools/confirm_seed.sh <worktree> <n> <seed-id>
# Confirms a seeded change independently in the scratch worktree: applies out/<n>/patch.diff, builds, runs the unedited
# suite (must equal the recorded baseline), runs the demo against the unchanged and the changed binary, then stores it
# under /verif/seeded/<seed-id>/ and resets the worktree.
WT="$1"; N="$2"; ID="$3"
OUT="$WT/out/$N"
LOG=/tmp/confirm_$ID.log
cd "$WT" || exit 2
git checkout -q -- . 2>/dev/null
if ! git apply --check "$OUT/patch.diff" 2>>$LOG; then echo "$ID: patch does not apply"; exit 1; fi
git apply "$OUT/patch.diff"
[ -d target ] || cp -r /repo/target "$WT/target"
cargo test --workspace --no-fail-fast --offline > /tmp/suite_raw_$ID.txt 2>&1
python3 - "$ID" <<'PY' > /tmp/suite_now_$ID.txt
import re,sys
raw=open('/tmp/suite_raw_%s.txt'%sys.argv[1],errors='replace').read()
p=f=0
for m in re.finditer(r"^test result: \w+\. (\d+) passed; (\d+) failed", raw, re.M):
    p+=int(m.group(1)); f+=int(m.group(2))
fails=set()
for blk in re.findall(r"^failures:\n((?:    \S+\n)+)", raw, re.M):
    for ln in blk.splitlines(): fails.add(ln.strip())
print("TOTAL passed=%d failed=%d"%(p,f))
for x in sorted(fails): print("FAIL", x)
PY
SUITE=same
diff -q /verif/tools/baseline_tests.txt /tmp/suite_now_$ID.txt >/dev/null || SUITE=DIFFERS
cargo build --offline -q 2>>$LOG
DEMO_CHANGED=na; DEMO_ORIG=na
if [ -f "$OUT/demo.sh" ]; then
  bash "$OUT/demo.sh" "$WT/target/debug/cfn-guard" >>$LOG 2>&1; DEMO_CHANGED=$?
  bash "$OUT/demo.sh" /repo/target/debug/cfn-guard >>$LOG 2>&1; DEMO_ORIG=$?
fi
git checkout -q -- .
echo "$ID: suite=$SUITE $(head -1 /tmp/suite_now_$ID.txt) demo_changed_exit=$DEMO_CHANGED demo_orig_exit=$DEMO_ORIG"
if [ "$SUITE" == "same" ] && [ "$DEMO_CHANGED" != "0" ] && [ "$DEMO_ORIG" == "0" ]; then
  mkdir -p /verif/seeded/$ID && cp "$OUT/patch.diff" "$OUT/demo.sh" /verif/seeded/$ID/ && cp "$OUT/NOTES.md" /verif/seeded/$ID/NOTES.md 2>/dev/null
  echo "$ID: CONFIRMED"
else
  echo "$ID: NOT confirmed"
fi

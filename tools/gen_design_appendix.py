#!/usr/bin/env python3
"""regenerates the generated parts of DESIGN.md (between <!-- GEN:x --> and <!-- /GEN:x --> markers):
   rules   : the rule lists as implemented, from the docstrings of rules/cNN.py
   seeds   : the seeded-change x check matrix, from seeded/*/meta.json"""
import importlib, json, os, re, sys
sys.path.insert(0, "/verif")
D = "/verif/DESIGN.md"


def rules_block():
    out = []
    for i in range(1, 20):
        m = importlib.import_module("rules.c%02d" % i)
        out.append("```\n%s\n```\n" % (m.__doc__ or "").strip())
    return "\n".join(out)


def seeds_block():
    rows = ["| seed | breaks | change (one line) | needs, to manifest | reported by | quiet on |", "|---|---|---|---|---|---|"]
    root = "/verif/seeded"
    for sid in sorted(os.listdir(root)):
        mp = os.path.join(root, sid, "meta.json")
        if not os.path.exists(mp):
            continue
        m = json.load(open(mp))
        def cell(x, n):
            x = re.sub(r"\s+", " ", x or "").replace("|", "\\|")
            return x[:n] + ("…" if len(x) > n else "")
        caught = ", ".join(m.get("caught_by", [])) or "**none**"
        rows.append("| %s | %s | %s | %s | %s | %d checks |" % (sid, m["breaks_property"], cell(m["title"], 110), cell(m["needs_to_manifest"], 160), caught, len(m.get("quiet", []))))
    return "\n".join(rows) + "\n"


def main():
    s = open(D).read()
    for name, fn in (("rules", rules_block), ("seeds", seeds_block)):
        a, b = "<!-- GEN:%s -->" % name, "<!-- /GEN:%s -->" % name
        if a in s and b in s:
            i, j = s.index(a) + len(a), s.index(b)
            s = s[:i] + "\n" + fn() + s[j:]
    open(D, "w").write(s)


main()

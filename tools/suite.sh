#!/bin/bash
# runs /repo's unedited test suite offline; compares totals and the set of failing tests with the recorded baseline
cd /repo && cargo test --workspace --no-fail-fast --offline > /tmp/suite_raw.txt 2>&1
python3 - <<'PY' > /tmp/suite_now.txt
import re
raw=open('/tmp/suite_raw.txt',errors='replace').read()
p=f=0
for m in re.finditer(r"^test result: \w+\. (\d+) passed; (\d+) failed", raw, re.M):
    p+=int(m.group(1)); f+=int(m.group(2))
fails=set()
for blk in re.findall(r"^failures:\n((?:    \S+\n)+)", raw, re.M):
    for ln in blk.splitlines(): fails.add(ln.strip())
print("TOTAL passed=%d failed=%d"%(p,f))
for x in sorted(fails): print("FAIL", x)
PY
if [ "$1" == "--record" ]; then cp /tmp/suite_now.txt /verif/tools/baseline_tests.txt; head -1 /tmp/suite_now.txt; exit 0; fi
head -1 /tmp/suite_now.txt
if diff /verif/tools/baseline_tests.txt /tmp/suite_now.txt > /tmp/suite_diff.txt; then echo "SUITE: identical to baseline"; else echo "SUITE: DIFFERS"; head -20 /tmp/suite_diff.txt; fi

#!/usr/bin/env python3
"""writes /verif/seeded/<id>/meta.json from the seed's NOTES.md (sections found by heading keywords), the confirmation
log lines recorded in seeded/CONFIRMED.txt and the check results recorded in seeded/RESULTS.txt"""
import json, os, re, sys
ROOT = "/verif/seeded"


def sections(text):
    """[(heading, body)] for markdown '#' headings and '**Heading:**' paragraphs"""
    out = []
    cur, buf = "title", []
    for ln in text.splitlines():
        m = re.match(r"^#+\s*(.*)", ln) or re.match(r"^\*\*(.+?)[:.]?\*\*[:.]?\s*(.*)", ln) or re.match(r"^((?:Site|Change|Part of the property broken|What is needed for it to manifest|What I ran|What was run|Which part[^:]*|Needs[^:]*))\s*:\s*(.*)", ln)
        if m:
            out.append((cur, "\n".join(buf).strip()))
            cur = m.group(1).strip()
            buf = [m.group(2)] if m.lastindex and m.lastindex > 1 and m.group(2) else []
        else:
            buf.append(ln)
    out.append((cur, "\n".join(buf).strip()))
    return out


def pick(secs, *keys):
    for h, b in secs:
        if any(k in h.lower() for k in keys) and b:
            return re.sub(r"\s+", " ", b)[:1200]
    return ""


def main():
    confirmed = {}
    if os.path.exists(ROOT + "/CONFIRMED.txt"):
        for ln in open(ROOT + "/CONFIRMED.txt"):
            m = re.match(r"(C\d+-\d+): (suite=.*)", ln.strip())
            if m:
                confirmed[m.group(1)] = m.group(2)
    results = {}
    if os.path.exists(ROOT + "/RESULTS.txt"):
        for ln in open(ROOT + "/RESULTS.txt"):
            m = re.match(r"(C\d+-\d+) ->(.*)", ln.strip())
            if m:
                results[m.group(1)] = dict(x.split(":", 1) for x in m.group(2).split())
    for sid in sorted(os.listdir(ROOT)):
        d = os.path.join(ROOT, sid)
        if not os.path.isdir(d) or not os.path.exists(d + "/NOTES.md"):
            continue
        text = open(d + "/NOTES.md").read()
        secs = sections(text)
        title = next((h for h, b in secs if h != "title"), sid)
        res = results.get(sid, {})
        meta = {
            "id": sid,
            "breaks_property": sid.split("-")[0],
            "title": title,
            "what_breaks": pick(secs, "break", "broken", "part of"),
            "needs_to_manifest": pick(secs, "needed", "manifest", "trigger"),
            "change": pick(secs, "change", "site", "edit") or title,
            "produced_by": "fresh sub-agent given only the property text and a scratch git worktree of /repo",
            "what_was_run": {
                "by_the_agent": pick(secs, "ran", "run", "observed"),
                "confirmation": "tools/confirm_seed.sh in a scratch worktree: patch applied, `cargo test --workspace --no-fail-fast --offline` compared with the baseline (totals and failing set), demo.sh on the changed and on the unchanged binary",
                "confirmation_result": confirmed.get(sid, "see NOTES.md"),
                "checks": "tools/run_seed.sh %s (git -C /repo apply patch.diff; ./check <every claimed property>; git -C /repo checkout -- .)" % sid,
            },
            "caught_by": sorted(p for p, r in res.items() if r.startswith("VIOLATION")),
            "quiet": sorted(p for p, r in res.items() if r == "quiet"),
            "files": ["patch.diff", "demo.sh", "NOTES.md"],
        }
        json.dump(meta, open(d + "/meta.json", "w"), indent=1)
    print("meta.json written for", len([x for x in os.listdir(ROOT) if os.path.isdir(os.path.join(ROOT, x))]), "seeds")


main()

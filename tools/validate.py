#!/usr/bin/env python3-vt
import json, sys, glob, jsonschema
jsonschema.validate(json.load(open('/verif/MANIFEST.json')), json.load(open('/root/.vp/MANIFEST.schema.json')))
es = json.load(open('/root/.vp/EVIDENCE.schema.json'))
for f in sorted(glob.glob('/verif/evidence/C*.json')):
    jsonschema.validate(json.load(open(f)), es)
    print('ok', f)
print('manifest ok')

#!/bin/bash
# usage: tools/mut.sh "<props space separated>" <file> <perl -0pe expression>
# applies an edit to /repo, runs the checks, reverts.  For developing the checker only.
props="$1"; file="$2"; expr="$3"
cd /repo && perl -0pi -e "$expr" "$file" && git diff --stat | tail -1
cd /verif
for p in $props; do ./check $p 2>&1 | grep -E "VIOLATION|violated|obligations|CHECK-ERROR|Error|error" | head -8; done
cd /repo && git checkout -- . 

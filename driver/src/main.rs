// guard-facts: rustc_private fact extractor (engine E0 of /verif/DESIGN.md).
//
// Invoked by cargo as RUSTC_WORKSPACE_WRAPPER: `guard-facts <rustc> <args...>`.
// For every workspace crate it compiles, it writes ONE json file
//   $GUARD_FACTS_OUT/<crate_name>-<crate_type>.json
// containing the type-checked program in a form the python engines can analyse:
// every MIR body (resolved callees, structured places/operands/constants, spans, macro
// provenance), the ADT table (variants, discriminant values, field names/types), the trait-impl
// table and the list of statics.  Nothing in the analysed crate is executed.
#![feature(rustc_private)]
#![allow(clippy::all)]

extern crate rustc_abi;
extern crate rustc_data_structures;
extern crate rustc_driver;
extern crate rustc_hir;
extern crate rustc_index;
extern crate rustc_interface;
extern crate rustc_middle;
extern crate rustc_session;
extern crate rustc_span;

use rustc_driver::Compilation;
use rustc_hir::def::DefKind;
use rustc_hir::def_id::{DefId, LocalDefId};
use rustc_middle::mir::{
    self, AggregateKind, BasicBlockData, Body, CastKind, Const as MirConst, ConstValue, Operand,
    Place, ProjectionElem, Rvalue, StatementKind, TerminatorKind,
};
use rustc_middle::ty::{self, Instance, Ty, TyCtxt, TypingEnv};
use rustc_span::Span;
use std::collections::HashMap;
use std::fmt::Write as _;

// ---------------------------------------------------------------- json helpers

fn jstr(s: &str) -> String {
    let mut o = String::with_capacity(s.len() + 2);
    o.push('"');
    for c in s.chars() {
        match c {
            '"' => o.push_str("\\\""),
            '\\' => o.push_str("\\\\"),
            '\n' => o.push_str("\\n"),
            '\r' => o.push_str("\\r"),
            '\t' => o.push_str("\\t"),
            c if (c as u32) < 0x20 => {
                let _ = write!(o, "\\u{:04x}", c as u32);
            }
            c => o.push(c),
        }
    }
    o.push('"');
    o
}

fn jlist(items: &[String]) -> String {
    let mut o = String::from("[");
    for (i, it) in items.iter().enumerate() {
        if i > 0 {
            o.push(',');
        }
        o.push_str(it);
    }
    o.push(']');
    o
}

fn jobj(items: &[(&str, String)]) -> String {
    let mut o = String::from("{");
    for (i, (k, v)) in items.iter().enumerate() {
        if i > 0 {
            o.push(',');
        }
        o.push_str(&jstr(k));
        o.push(':');
        o.push_str(v);
    }
    o.push('}');
    o
}

// ---------------------------------------------------------------- extractor

struct Ex<'tcx> {
    tcx: TyCtxt<'tcx>,
    ty_ids: HashMap<Ty<'tcx>, usize>,
    tys: Vec<String>,
    adt_seen: HashMap<DefId, ()>,
    adt_queue: Vec<DefId>,
    adts: Vec<String>,
}

impl<'tcx> Ex<'tcx> {
    fn path(&self, did: DefId) -> String {
        self.tcx.def_path_str(did)
    }

    /// Stable key for a function-like item: no line numbers, no generics.
    fn key(&mut self, did: DefId) -> String {
        let tcx = self.tcx;
        match tcx.def_kind(did) {
            DefKind::Closure | DefKind::InlineConst | DefKind::AnonConst | DefKind::SyntheticCoroutineBody => {
                let parent = tcx.parent(did);
                let pk = self.key(parent);
                let dp = tcx.def_path(did);
                let last = dp.data.last().map(|d| d.as_sym(true).to_string()).unwrap_or_default();
                return format!("{}::{}", pk, last);
            }
            _ => {}
        }
        if let Some(parent) = tcx.opt_parent(did) {
            if let DefKind::Impl { of_trait } = tcx.def_kind(parent) {
                let self_ty = tcx.type_of(parent).instantiate_identity().skip_normalization();
                let st = self.short_ty(self_ty);
                let name = tcx.item_name(did);
                if of_trait {
                    let tr = tcx.impl_trait_ref(parent).instantiate_identity().skip_normalization();
                    let mut tp = self.path(tr.def_id);
                    let targs: Vec<String> = tr.args.types().skip(1).map(|a| self.short_ty(a)).collect();
                    if !targs.is_empty() {
                        tp.push('<');
                        tp.push_str(&targs.join(","));
                        tp.push('>');
                    }
                    return format!("<{} as {}>::{}", st, tp, name);
                } else {
                    return format!("{}::{}", st, name);
                }
            }
        }
        let p = self.path(did);
        if p.ends_with("::_") || p == "_" {
            let dp = tcx.def_path(did);
            if let Some(d) = dp.data.last() {
                if d.disambiguator != 0 {
                    return format!("{}#{}", p, d.disambiguator);
                }
            }
        }
        p
    }

    /// type printed without lifetimes / generic args for ADTs (used in keys only)
    fn short_ty(&mut self, t: Ty<'tcx>) -> String {
        match t.kind() {
            ty::Adt(def, args) => {
                let mut s = self.path(def.did());
                let targs: Vec<String> = args.types().map(|a| self.short_ty(a)).collect();
                if !targs.is_empty() {
                    s.push('<');
                    s.push_str(&targs.join(","));
                    s.push('>');
                }
                s
            }
            ty::Ref(_, inner, m) => format!("&{}{}", if m.is_mut() { "mut " } else { "" }, self.short_ty(*inner)),
            ty::Tuple(es) => {
                let v: Vec<String> = es.iter().map(|e| self.short_ty(e)).collect();
                format!("({})", v.join(","))
            }
            ty::Slice(e) => format!("[{}]", self.short_ty(*e)),
            ty::Dynamic(preds, ..) => match preds.principal_def_id() {
                Some(d) => format!("dyn {}", self.path(d)),
                None => "dyn ?".to_string(),
            },
            _ => {
                let s = t.to_string();
                strip_lifetimes(&s)
            }
        }
    }

    fn ty(&mut self, t: Ty<'tcx>) -> usize {
        if let Some(&i) = self.ty_ids.get(&t) {
            return i;
        }
        // reserve the slot first (recursive types)
        let idx = self.tys.len();
        self.tys.push(String::new());
        self.ty_ids.insert(t, idx);
        let disp = jstr(&strip_lifetimes(&t.to_string()));
        let j = match t.kind() {
            ty::Bool | ty::Char | ty::Int(_) | ty::Uint(_) | ty::Float(_) | ty::Str | ty::Never => {
                jobj(&[("k", jstr("prim")), ("n", jstr(&t.to_string()))])
            }
            ty::Adt(def, args) => {
                self.note_adt(def.did());
                let a: Vec<String> = args.types().map(|x| self.ty(x).to_string()).collect();
                jobj(&[("k", jstr("adt")), ("p", jstr(&self.path(def.did()))), ("a", jlist(&a)), ("s", disp)])
            }
            ty::Ref(_, inner, m) => {
                let i = self.ty(*inner);
                jobj(&[("k", jstr("ref")), ("t", i.to_string()), ("m", (m.is_mut() as u8).to_string()), ("s", disp)])
            }
            ty::RawPtr(inner, m) => {
                let i = self.ty(*inner);
                jobj(&[("k", jstr("ptr")), ("t", i.to_string()), ("m", (m.is_mut() as u8).to_string()), ("s", disp)])
            }
            ty::Slice(e) => {
                let i = self.ty(*e);
                jobj(&[("k", jstr("slice")), ("t", i.to_string()), ("s", disp)])
            }
            ty::Array(e, _) => {
                let i = self.ty(*e);
                jobj(&[("k", jstr("array")), ("t", i.to_string()), ("s", disp)])
            }
            ty::Tuple(es) => {
                let v: Vec<String> = es.iter().map(|e| self.ty(e).to_string()).collect();
                jobj(&[("k", jstr("tuple")), ("e", jlist(&v)), ("s", disp)])
            }
            ty::FnDef(did, args) => {
                let a: Vec<String> = args.types().map(|x| self.ty(x).to_string()).collect();
                let k = self.key(*did);
                jobj(&[("k", jstr("fndef")), ("p", jstr(&self.path(*did))), ("key", jstr(&k)), ("a", jlist(&a)), ("s", disp)])
            }
            ty::FnPtr(..) => jobj(&[("k", jstr("fnptr")), ("s", disp)]),
            ty::Closure(did, args) => {
                let k = self.key(*did);
                let ups: Vec<String> = args.as_closure().upvar_tys().iter().map(|u| self.ty(u).to_string()).collect();
                jobj(&[("k", jstr("closure")), ("key", jstr(&k)), ("up", jlist(&ups)), ("s", disp)])
            }
            ty::Dynamic(preds, ..) => {
                let p = preds.principal_def_id().map(|d| self.path(d)).unwrap_or_default();
                jobj(&[("k", jstr("dyn")), ("p", jstr(&p)), ("s", disp)])
            }
            ty::Param(p) => jobj(&[("k", jstr("param")), ("n", jstr(p.name.as_str()))]),
            ty::Alias(..) => jobj(&[("k", jstr("alias")), ("s", disp)]),
            _ => jobj(&[("k", jstr("other")), ("s", disp)]),
        };
        self.tys[idx] = j;
        idx
    }

    fn note_adt(&mut self, did: DefId) {
        if self.adt_seen.insert(did, ()).is_none() {
            self.adt_queue.push(did);
        }
    }

    fn flush_adts(&mut self) {
        while let Some(did) = self.adt_queue.pop() {
            let tcx = self.tcx;
            let def = tcx.adt_def(did);
            let local = did.is_local();
            let kind = if def.is_enum() {
                "enum"
            } else if def.is_union() {
                "union"
            } else {
                "struct"
            };
            let mut variants = Vec::new();
            let with_fields = local || def.is_enum();
            let discrs: HashMap<usize, i128> = if def.is_enum() {
                def.discriminants(tcx)
                    .map(|(v, d)| {
                        let val = match d.ty.kind() {
                            ty::Int(ity) => {
                                let bits = ity.bit_width().unwrap_or(64) as u32;
                                let sh = 128 - bits;
                                ((d.val << sh) as i128) >> sh
                            }
                            _ => d.val as i128,
                        };
                        (v.as_usize(), val)
                    })
                    .collect()
            } else {
                HashMap::new()
            };
            for (vi, v) in def.variants().iter_enumerated() {
                let mut fields = Vec::new();
                if with_fields {
                    for f in v.fields.iter() {
                        let fty = tcx.type_of(f.did).instantiate_identity().skip_normalization();
                        let ti = self.ty(fty);
                        fields.push(jobj(&[("name", jstr(f.name.as_str())), ("ty", ti.to_string())]));
                    }
                }
                let d = discrs.get(&vi.as_usize()).copied().unwrap_or(vi.as_usize() as i128);
                variants.push(jobj(&[
                    ("name", jstr(v.name.as_str())),
                    ("discr", d.to_string()),
                    ("fields", jlist(&fields)),
                ]));
            }
            let (file, line) = if local { self.loc(tcx.def_span(did)) } else { (String::new(), 0) };
            let tparams: Vec<String> = tcx
                .generics_of(did)
                .own_params
                .iter()
                .filter(|p| matches!(p.kind, ty::GenericParamDefKind::Type { .. }))
                .map(|p| jstr(p.name.as_str()))
                .collect();
            self.adts.push(jobj(&[
                ("tparams", jlist(&tparams)),
                ("path", jstr(&self.path(did))),
                ("kind", jstr(kind)),
                ("local", (local as u8).to_string()),
                ("file", jstr(&file)),
                ("line", line.to_string()),
                ("variants", jlist(&variants)),
            ]));
        }
    }

    fn loc(&self, span: Span) -> (String, usize) {
        let sm = self.tcx.sess.source_map();
        let sp = span.source_callsite();
        let lo = sm.lookup_char_pos(sp.lo());
        let name = format!("{}", lo.file.name.prefer_remapped_unconditionally());
        (name, lo.line)
    }

    fn span_json(&self, span: Span, with_macro: bool) -> Vec<(&'static str, String)> {
        let (file, line) = self.loc(span);
        let mut v = vec![("f", jstr(&file)), ("ln", line.to_string())];
        if span.from_expansion() {
            v.push(("x", "1".to_string()));
            if with_macro {
                let names: Vec<String> = span
                    .macro_backtrace()
                    .map(|e| jstr(&e.kind.descr()))
                    .collect();
                v.push(("mac", jlist(&names)));
            }
        }
        v
    }

    // ------------------------------------------------------------ places / operands

    fn place(&mut self, body: &Body<'tcx>, p: &Place<'tcx>) -> String {
        let tcx = self.tcx;
        let mut pty = mir::PlaceTy::from_ty(body.local_decls[p.local].ty);
        let mut projs = Vec::new();
        for elem in p.projection.iter() {
            let j = match elem {
                ProjectionElem::Deref => jstr("*"),
                ProjectionElem::Field(f, _) => {
                    let name = match pty.ty.kind() {
                        ty::Adt(def, _) => {
                            let vi = pty.variant_index.unwrap_or(rustc_abi::FIRST_VARIANT);
                            def.variant(vi).fields.get(f).map(|fd| fd.name.to_string()).unwrap_or_default()
                        }
                        _ => String::new(),
                    };
                    jlist(&[jstr("f"), f.as_usize().to_string(), jstr(&name)])
                }
                ProjectionElem::Downcast(_, vi) => {
                    let name = match pty.ty.kind() {
                        ty::Adt(def, _) => def.variant(vi).name.to_string(),
                        _ => String::new(),
                    };
                    jlist(&[jstr("dc"), vi.as_usize().to_string(), jstr(&name)])
                }
                ProjectionElem::Index(l) => jlist(&[jstr("i"), l.as_usize().to_string()]),
                ProjectionElem::ConstantIndex { offset, from_end, .. } => {
                    jlist(&[jstr("ci"), offset.to_string(), (from_end as u8).to_string()])
                }
                ProjectionElem::Subslice { from, to, from_end } => {
                    jlist(&[jstr("ss"), from.to_string(), to.to_string(), (from_end as u8).to_string()])
                }
                ProjectionElem::OpaqueCast(_) => jstr("oc"),
                ProjectionElem::UnwrapUnsafeBinder(_) => jstr("ub"),
            };
            projs.push(j);
            pty = pty.projection_ty(tcx, elem);
        }
        if projs.is_empty() {
            p.local.as_usize().to_string()
        } else {
            jlist(&[p.local.as_usize().to_string(), jlist(&projs)])
        }
    }

    fn constant(&mut self, owner: DefId, c: &mir::ConstOperand<'tcx>) -> String {
        let tcx = self.tcx;
        let tenv = TypingEnv::post_analysis(tcx, owner);
        let cty = c.const_.ty();
        let tyi = self.ty(cty);
        let mut items: Vec<(&str, String)> = vec![("ty", tyi.to_string())];
        // function items & other ZSTs are described by their type alone
        if let ty::FnDef(..) = cty.kind() {
            return jobj(&[("k", jobj(&items))]);
        }
        if let MirConst::Unevaluated(uv, _) = c.const_ {
            if let Some(p) = uv.promoted {
                items.push(("promoted", p.as_usize().to_string()));
                return jobj(&[("k", jobj(&items))]);
            }
            items.push(("named", jstr(&self.path(uv.def))));
        }
        let val: Option<ConstValue> = match c.const_ {
            MirConst::Val(v, _) => Some(v),
            _ => {
                if rustc_middle::ty::TypeVisitableExt::has_non_region_param(&cty) {
                    None
                } else {
                    c.const_.eval(tcx, tenv, c.span).ok()
                }
            }
        };
        match val {
            Some(ConstValue::Scalar(s)) => {
                if let Ok(si) = s.try_to_scalar_int() {
                    let size = si.size();
                    let bits = si.to_bits(size);
                    let v = match cty.kind() {
                        ty::Bool => (if bits != 0 { "true" } else { "false" }).to_string(),
                        ty::Int(_) => {
                            let sh = 128 - size.bits();
                            let sv = ((bits << sh) as i128) >> sh;
                            sv.to_string()
                        }
                        ty::Char => jstr(&char::from_u32(bits as u32).map(|c| c.to_string()).unwrap_or_default()),
                        ty::Float(_) => jstr(&format!("float:{}", bits)),
                        _ => bits.to_string(),
                    };
                    items.push(("v", v));
                } else {
                    items.push(("ptr", "1".to_string()));
                    // constant pointee bytes (format_args! templates live here on this toolchain)
                    if let rustc_middle::mir::interpret::Scalar::Ptr(ptr, _) = s {
                        let (prov, off) = ptr.prov_and_relative_offset();
                        if let rustc_middle::mir::interpret::GlobalAlloc::Memory(a) = tcx.global_alloc(prov.alloc_id()) {
                            let a = a.inner();
                            if a.provenance().ptrs().is_empty() && a.len() < 4096 {
                                let bytes = a.inspect_with_uninit_and_ptr_outside_interpreter(off.bytes_usize()..a.len());
                                let hex: String = bytes.iter().map(|b| format!("{:02x}", b)).collect();
                                items.push(("pbytes", jstr(&hex)));
                            }
                        }
                    }
                }
            }
            Some(ConstValue::ZeroSized) => {
                items.push(("zst", "1".to_string()));
            }
            Some(v @ ConstValue::Slice { .. }) => {
                if let Some(bytes) = v.try_get_slice_bytes_for_diagnostics(tcx) {
                    match std::str::from_utf8(bytes) {
                        Ok(s) => items.push(("str", jstr(s))),
                        Err(_) => items.push(("bytes", jstr(&format!("{:?}", bytes)))),
                    }
                }
            }
            Some(ConstValue::Indirect { .. }) => {
                items.push(("indirect", jstr(&strip_lifetimes(&format!("{}", c.const_)))));
            }
            None => {
                items.push(("uneval", jstr(&strip_lifetimes(&format!("{}", c.const_)))));
            }
        }
        jobj(&[("k", jobj(&items))])
    }

    fn operand(&mut self, owner: DefId, body: &Body<'tcx>, o: &Operand<'tcx>) -> String {
        match o {
            Operand::Copy(p) => jobj(&[("c", self.place(body, p))]),
            Operand::Move(p) => jobj(&[("m", self.place(body, p))]),
            Operand::Constant(c) => self.constant(owner, c),
            Operand::RuntimeChecks(rc) => jobj(&[("rt", jstr(&format!("{:?}", rc)))]),
        }
    }

    fn rvalue(&mut self, owner: DefId, body: &Body<'tcx>, rv: &Rvalue<'tcx>) -> String {
        match rv {
            Rvalue::Use(o, _) => jobj(&[("r", jstr("use")), ("o", self.operand(owner, body, o))]),
            Rvalue::CopyForDeref(p) => {
                jobj(&[("r", jstr("use")), ("o", jobj(&[("c", self.place(body, p))]))])
            }
            Rvalue::Ref(_, bk, p) => {
                let m = matches!(bk, mir::BorrowKind::Mut { .. });
                jobj(&[("r", jstr("ref")), ("m", (m as u8).to_string()), ("p", self.place(body, p))])
            }
            Rvalue::RawPtr(_, p) => jobj(&[("r", jstr("rawptr")), ("p", self.place(body, p))]),
            Rvalue::Cast(kind, o, t) => {
                let ck = match kind {
                    CastKind::PointerCoercion(pc, _) => format!("ptr:{:?}", pc),
                    other => format!("{:?}", other),
                };
                let ti = self.ty(*t);
                jobj(&[
                    ("r", jstr("cast")),
                    ("ck", jstr(&ck)),
                    ("o", self.operand(owner, body, o)),
                    ("ty", ti.to_string()),
                ])
            }
            Rvalue::BinaryOp(op, ab) => {
                let (a, b) = &**ab;
                jobj(&[
                    ("r", jstr("bin")),
                    ("op", jstr(&format!("{:?}", op))),
                    ("a", self.operand(owner, body, a)),
                    ("b", self.operand(owner, body, b)),
                ])
            }
            Rvalue::UnaryOp(op, a) => jobj(&[
                ("r", jstr("un")),
                ("op", jstr(&format!("{:?}", op))),
                ("a", self.operand(owner, body, a)),
            ]),
            Rvalue::Discriminant(p) => jobj(&[("r", jstr("discr")), ("p", self.place(body, p))]),
            Rvalue::Aggregate(kind, ops) => {
                let os: Vec<String> = ops.iter().map(|o| self.operand(owner, body, o)).collect();
                let mut items: Vec<(&str, String)> = vec![("r", jstr("agg"))];
                match &**kind {
                    AggregateKind::Array(_) => items.push(("ak", jstr("array"))),
                    AggregateKind::Tuple => items.push(("ak", jstr("tuple"))),
                    AggregateKind::Adt(did, vi, _, _, active) => {
                        self.note_adt(*did);
                        let def = self.tcx.adt_def(*did);
                        items.push(("ak", jstr("adt")));
                        items.push(("adt", jstr(&self.path(*did))));
                        items.push(("vi", vi.as_usize().to_string()));
                        items.push(("vn", jstr(def.variant(*vi).name.as_str())));
                        if let Some(f) = active {
                            items.push(("union_field", f.as_usize().to_string()));
                        }
                    }
                    AggregateKind::Closure(did, _) => {
                        items.push(("ak", jstr("closure")));
                        let k = self.key(*did);
                        items.push(("key", jstr(&k)));
                    }
                    AggregateKind::Coroutine(did, _) | AggregateKind::CoroutineClosure(did, _) => {
                        items.push(("ak", jstr("coroutine")));
                        let k = self.key(*did);
                        items.push(("key", jstr(&k)));
                    }
                    AggregateKind::RawPtr(..) => items.push(("ak", jstr("rawptr"))),
                }
                items.push(("ops", jlist(&os)));
                jobj(&items)
            }
            Rvalue::Repeat(o, _) => jobj(&[("r", jstr("repeat")), ("o", self.operand(owner, body, o))]),
            Rvalue::ThreadLocalRef(d) => jobj(&[("r", jstr("tls")), ("p", jstr(&self.path(*d)))]),
            Rvalue::WrapUnsafeBinder(o, _) => jobj(&[("r", jstr("use")), ("o", self.operand(owner, body, o))]),
        }
    }

    fn callee(&mut self, owner: DefId, body: &Body<'tcx>, func: &Operand<'tcx>) -> String {
        let tcx = self.tcx;
        let fty = func.ty(&body.local_decls, tcx);
        match fty.kind() {
            ty::FnDef(did, args) => {
                let tenv = TypingEnv::post_analysis(tcx, owner);
                let mut items: Vec<(&str, String)> = Vec::new();
                let decl_path = self.path(*did);
                let decl_key = self.key(*did);
                let mut res_did = *did;
                let mut via = "direct";
                let is_trait_item = tcx.trait_of_assoc(*did).is_some();
                let mut res_args = *args;
                if is_trait_item {
                    via = "trait";
                    if let Ok(Some(inst)) = Instance::try_resolve(tcx, tenv, *did, args) {
                        match inst.def {
                            ty::InstanceKind::Item(d) => {
                                if d != *did {
                                    res_did = d;
                                    res_args = inst.args;
                                    via = "resolved";
                                }
                            }
                            ty::InstanceKind::Virtual(..) => via = "dyn",
                            ty::InstanceKind::ClosureOnceShim { call_once: _, .. } => via = "closure_shim",
                            ty::InstanceKind::FnPtrShim(..) => via = "fnptr_shim",
                            _ => {}
                        }
                        // closure calls: Fn*::call* on a closure type resolves to the closure body
                        if let ty::InstanceKind::Item(d) = inst.def {
                            if tcx.is_closure_like(d) {
                                res_did = d;
                                via = "closure";
                            }
                        }
                    }
                }
                let self_ty = if is_trait_item && args.len() > 0 {
                    args.types().next()
                } else {
                    None
                };
                items.push(("decl", jstr(&decl_path)));
                items.push(("dkey", jstr(&decl_key)));
                if res_did != *did {
                    let rk = self.key(res_did);
                    items.push(("path", jstr(&self.path(res_did))));
                    items.push(("key", jstr(&rk)));
                } else {
                    items.push(("path", jstr(&decl_path)));
                    items.push(("key", jstr(&decl_key)));
                }
                items.push(("via", jstr(via)));
                items.push(("local", (res_did.is_local() as u8).to_string()));
                if let Some(st) = self_ty {
                    let ti = self.ty(st);
                    items.push(("self", ti.to_string()));
                }
                let ga: Vec<String> = args.types().map(|t| self.ty(t).to_string()).collect();
                items.push(("ga", jlist(&ga)));
                let _ = res_args;
                jobj(&items)
            }
            _ => {
                let ti = self.ty(fty);
                jobj(&[("via", jstr("indirect")), ("fty", ti.to_string()), ("op", self.operand(owner, body, func))])
            }
        }
    }

    fn block(&mut self, owner: DefId, body: &Body<'tcx>, bb: &BasicBlockData<'tcx>) -> String {
        let mut stmts = Vec::new();
        for st in &bb.statements {
            match &st.kind {
                StatementKind::Assign(b) => {
                    let (p, rv) = &**b;
                    let mut items = vec![("p", self.place(body, p)), ("rv", self.rvalue(owner, body, rv))];
                    items.extend(self.span_json(st.source_info.span, false));
                    stmts.push(jobj(&items));
                }
                StatementKind::SetDiscriminant { place, variant_index } => {
                    stmts.push(jobj(&[
                        ("setdiscr", self.place(body, place)),
                        ("vi", variant_index.as_usize().to_string()),
                    ]));
                }
                StatementKind::StorageDead(l) => {
                    stmts.push(jobj(&[("dead", l.as_usize().to_string())]));
                }
                _ => {}
            }
        }
        let term = bb.terminator();
        let mut t: Vec<(&str, String)> = Vec::new();
        match &term.kind {
            TerminatorKind::Goto { target } => {
                t.push(("t", jstr("goto")));
                t.push(("to", target.as_usize().to_string()));
            }
            TerminatorKind::SwitchInt { discr, targets } => {
                t.push(("t", jstr("switch")));
                t.push(("d", self.operand(owner, body, discr)));
                let dty = discr.ty(&body.local_decls, self.tcx);
                let signed = matches!(dty.kind(), ty::Int(_));
                let bits = match dty.kind() {
                    ty::Int(i) => i.bit_width().unwrap_or(64),
                    ty::Uint(u) => u.bit_width().unwrap_or(64),
                    _ => 128,
                };
                let tv: Vec<String> = targets
                    .iter()
                    .map(|(v, b)| {
                        let vs = if signed && bits < 128 {
                            let sh = 128 - bits as u32;
                            (((v << sh) as i128) >> sh).to_string()
                        } else {
                            v.to_string()
                        };
                        jlist(&[vs, b.as_usize().to_string()])
                    })
                    .collect();
                t.push(("cases", jlist(&tv)));
                t.push(("else", targets.otherwise().as_usize().to_string()));
                let ti = self.ty(dty);
                t.push(("dty", ti.to_string()));
            }
            TerminatorKind::Return => t.push(("t", jstr("return"))),
            TerminatorKind::Unreachable => t.push(("t", jstr("unreachable"))),
            TerminatorKind::UnwindResume => t.push(("t", jstr("resume"))),
            TerminatorKind::UnwindTerminate(_) => t.push(("t", jstr("terminate"))),
            TerminatorKind::Drop { place, target, .. } => {
                t.push(("t", jstr("drop")));
                t.push(("p", self.place(body, place)));
                t.push(("to", target.as_usize().to_string()));
            }
            TerminatorKind::Call { func, args, destination, target, .. } => {
                t.push(("t", jstr("call")));
                t.push(("fn", self.callee(owner, body, func)));
                let a: Vec<String> = args.iter().map(|a| self.operand(owner, body, &a.node)).collect();
                t.push(("args", jlist(&a)));
                t.push(("dest", self.place(body, destination)));
                match target {
                    Some(b) => t.push(("to", b.as_usize().to_string())),
                    None => t.push(("to", "null".to_string())),
                }
            }
            TerminatorKind::TailCall { func, args, .. } => {
                t.push(("t", jstr("tailcall")));
                t.push(("fn", self.callee(owner, body, func)));
                let a: Vec<String> = args.iter().map(|a| self.operand(owner, body, &a.node)).collect();
                t.push(("args", jlist(&a)));
            }
            TerminatorKind::Assert { cond, expected, msg, target, .. } => {
                t.push(("t", jstr("assert")));
                t.push(("cond", self.operand(owner, body, cond)));
                t.push(("exp", (if *expected { "true" } else { "false" }).to_string()));
                let (kind, ops): (String, Vec<String>) = match &**msg {
                    mir::AssertKind::BoundsCheck { len, index } => (
                        "BoundsCheck".into(),
                        vec![self.operand(owner, body, len), self.operand(owner, body, index)],
                    ),
                    mir::AssertKind::Overflow(op, a, b) => (
                        format!("Overflow:{:?}", op),
                        vec![self.operand(owner, body, a), self.operand(owner, body, b)],
                    ),
                    mir::AssertKind::OverflowNeg(a) => ("OverflowNeg".into(), vec![self.operand(owner, body, a)]),
                    mir::AssertKind::DivisionByZero(a) => ("DivisionByZero".into(), vec![self.operand(owner, body, a)]),
                    mir::AssertKind::RemainderByZero(a) => ("RemainderByZero".into(), vec![self.operand(owner, body, a)]),
                    other => (format!("{:?}", std::mem::discriminant(other)), vec![]),
                };
                t.push(("kind", jstr(&kind)));
                t.push(("ops", jlist(&ops)));
                t.push(("to", target.as_usize().to_string()));
            }
            TerminatorKind::FalseEdge { real_target, .. } => {
                t.push(("t", jstr("goto")));
                t.push(("to", real_target.as_usize().to_string()));
            }
            TerminatorKind::FalseUnwind { real_target, .. } => {
                t.push(("t", jstr("goto")));
                t.push(("to", real_target.as_usize().to_string()));
            }
            other => {
                t.push(("t", jstr("other")));
                t.push(("dbg", jstr(&format!("{:?}", std::mem::discriminant(other)))));
            }
        }
        t.extend(self.span_json(term.source_info.span, true));
        let mut items = vec![("s", jlist(&stmts)), ("term", jobj(&t))];
        if bb.is_cleanup {
            items.push(("cleanup", "1".to_string()));
        }
        jobj(&items)
    }

    fn body(&mut self, owner: DefId, body: &Body<'tcx>) -> Vec<(&'static str, String)> {
        let mut locals = Vec::new();
        for (_, d) in body.local_decls.iter_enumerated() {
            let ti = self.ty(d.ty);
            locals.push(ti.to_string());
        }
        let mut names = Vec::new();
        for vdi in &body.var_debug_info {
            if let mir::VarDebugInfoContents::Place(p) = &vdi.value {
                names.push(jlist(&[jstr(vdi.name.as_str()), self.place(body, p)]));
            }
        }
        let mut blocks = Vec::new();
        for (_, bb) in body.basic_blocks.iter_enumerated() {
            blocks.push(self.block(owner, body, bb));
        }
        vec![
            ("argc", body.arg_count.to_string()),
            ("locals", jlist(&locals)),
            ("names", jlist(&names)),
            ("blocks", jlist(&blocks)),
        ]
    }

    fn function(&mut self, ldid: LocalDefId) -> Option<String> {
        let tcx = self.tcx;
        let did = ldid.to_def_id();
        let kind = tcx.def_kind(did);
        let (body, kname): (&Body<'tcx>, &str) = match kind {
            DefKind::Fn => (tcx.optimized_mir(did), "fn"),
            DefKind::AssocFn => (tcx.optimized_mir(did), "assoc"),
            DefKind::Closure => {
                if tcx.is_coroutine(did) {
                    (tcx.optimized_mir(did), "coroutine")
                } else {
                    (tcx.optimized_mir(did), "closure")
                }
            }
            DefKind::Static { .. } => (tcx.mir_for_ctfe(did), "static"),
            DefKind::Const { .. } | DefKind::AssocConst { .. } => (tcx.mir_for_ctfe(did), "const"),
            _ => return None,
        };
        let key = self.key(did);
        let mut items: Vec<(&str, String)> = vec![
            ("key", jstr(&key)),
            ("path", jstr(&self.path(did))),
            ("kind", jstr(kname)),
        ];
        let sp = tcx.def_span(did);
        let (file, lo) = self.loc(sp);
        let full = tcx.hir_span_with_body(tcx.local_def_id_to_hir_id(ldid));
        let sm = tcx.sess.source_map();
        let hi = sm.lookup_char_pos(full.hi()).line;
        items.push(("file", jstr(&file)));
        items.push(("line", lo.to_string()));
        items.push(("hi", hi.to_string()));
        if matches!(kind, DefKind::Fn | DefKind::AssocFn) {
            let vis = tcx.visibility(did);
            let v = match vis {
                ty::Visibility::Public => "pub".to_string(),
                ty::Visibility::Restricted(m) => {
                    if m.is_crate_root() {
                        "crate".to_string()
                    } else {
                        format!("in:{}", self.path(m))
                    }
                }
            };
            items.push(("vis", jstr(&v)));
        }
        // trait impl info
        if let Some(parent) = tcx.opt_parent(did) {
            match tcx.def_kind(parent) {
                DefKind::Impl { of_trait } => {
                    let st = tcx.type_of(parent).instantiate_identity().skip_normalization();
                    let sti = self.ty(st);
                    items.push(("impl_self", sti.to_string()));
                    if of_trait {
                        let tr = tcx.impl_trait_ref(parent).instantiate_identity().skip_normalization();
                        items.push(("impl_trait", jstr(&self.path(tr.def_id))));
                    }
                }
                DefKind::Trait => {
                    items.push(("in_trait", jstr(&self.path(parent))));
                }
                _ => {}
            }
        }
        // test-only items (cfg(test) is off in check builds, but keep the attribute info)
        items.extend(self.body(did, body));
        // promoted constants of this body
        if matches!(kind, DefKind::Fn | DefKind::AssocFn | DefKind::Closure) {
            let proms = tcx.promoted_mir(did);
            let mut pv = Vec::new();
            for (_, pb) in proms.iter_enumerated() {
                let b = self.body(did, pb);
                pv.push(jobj(&b));
            }
            if !pv.is_empty() {
                items.push(("promoted", jlist(&pv)));
            }
        }
        Some(jobj(&items))
    }
}

fn strip_lifetimes(s: &str) -> String {
    // "&'a mut T" -> "&mut T", "Foo<'a, T>" -> "Foo<T>", "Foo<'a>" -> "Foo"
    let b: Vec<char> = s.chars().collect();
    let mut o = String::with_capacity(s.len());
    let mut i = 0;
    while i < b.len() {
        if b[i] == '\'' && i + 1 < b.len() && (b[i + 1].is_alphabetic() || b[i + 1] == '_') {
            // lifetime or char literal? char literals do not appear in type strings.
            let mut j = i + 1;
            while j < b.len() && (b[j].is_alphanumeric() || b[j] == '_') {
                j += 1;
            }
            // swallow following ", " or " "
            if j < b.len() && b[j] == ',' {
                j += 1;
                if j < b.len() && b[j] == ' ' {
                    j += 1;
                }
            } else if j < b.len() && b[j] == ' ' {
                j += 1;
            }
            i = j;
            continue;
        }
        o.push(b[i]);
        i += 1;
    }
    o.replace("<>", "").replace(", >", ">")
}

struct Cb {
    out_dir: String,
    crate_type: String,
}

impl rustc_driver::Callbacks for Cb {
    fn after_analysis<'tcx>(&mut self, _c: &rustc_interface::interface::Compiler, tcx: TyCtxt<'tcx>) -> Compilation {
        let cname = tcx.crate_name(rustc_hir::def_id::LOCAL_CRATE).to_string();
        if cname.starts_with("build_script") {
            return Compilation::Continue;
        }
        let mut ex = Ex {
            tcx,
            ty_ids: HashMap::new(),
            tys: Vec::new(),
            adt_seen: HashMap::new(),
            adt_queue: Vec::new(),
            adts: Vec::new(),
        };
        let mut fns = Vec::new();
        for ldid in tcx.hir_body_owners() {
            if let Some(f) = ex.function(ldid) {
                fns.push(f);
            }
        }
        // all local ADTs, statics, impls
        let mut statics = Vec::new();
        let mut impls = Vec::new();
        let mut traits = Vec::new();
        let items = tcx.hir_crate_items(());
        for ldid in items.definitions() {
            let did = ldid.to_def_id();
            match tcx.def_kind(did) {
                DefKind::Struct | DefKind::Enum | DefKind::Union => ex.note_adt(did),
                DefKind::Static { mutability, .. } => {
                    let t = tcx.type_of(did).instantiate_identity().skip_normalization();
                    let ti = ex.ty(t);
                    let (file, line) = ex.loc(tcx.def_span(did));
                    statics.push(jobj(&[
                        ("path", jstr(&ex.path(did))),
                        ("ty", ti.to_string()),
                        ("mut", (mutability.is_mut() as u8).to_string()),
                        ("file", jstr(&file)),
                        ("line", line.to_string()),
                    ]));
                }
                DefKind::Impl { of_trait } => {
                    let st = tcx.type_of(did).instantiate_identity().skip_normalization();
                    let sti = ex.ty(st);
                    let mut it: Vec<(&str, String)> = vec![("self", sti.to_string())];
                    if of_trait {
                        let tr = tcx.impl_trait_ref(did).instantiate_identity().skip_normalization();
                        it.push(("trait", jstr(&ex.path(tr.def_id))));
                    }
                    let mut ms = Vec::new();
                    for ai in tcx.associated_items(did).in_definition_order() {
                        if ai.is_fn() {
                            let k = ex.key(ai.def_id);
                            ms.push(jlist(&[jstr(ai.name().as_str()), jstr(&k)]));
                        }
                    }
                    it.push(("methods", jlist(&ms)));
                    let (file, line) = ex.loc(tcx.def_span(did));
                    it.push(("file", jstr(&file)));
                    it.push(("line", line.to_string()));
                    impls.push(jobj(&it));
                }
                DefKind::Trait => {
                    let mut ms = Vec::new();
                    for ai in tcx.associated_items(did).in_definition_order() {
                        if ai.is_fn() {
                            let k = ex.key(ai.def_id);
                            let has_default = ai.defaultness(tcx).has_value();
                            ms.push(jlist(&[jstr(ai.name().as_str()), jstr(&k), (has_default as u8).to_string()]));
                        }
                    }
                    traits.push(jobj(&[("path", jstr(&ex.path(did))), ("methods", jlist(&ms))]));
                }
                _ => {}
            }
        }
        ex.flush_adts();
        // flush may have interned new types which may have noted new adts
        while !ex.adt_queue.is_empty() {
            ex.flush_adts();
        }
        let out = jobj(&[
            ("crate", jstr(&cname)),
            ("crate_type", jstr(&self.crate_type)),
            ("types", jlist(&ex.tys)),
            ("adts", jlist(&ex.adts)),
            ("statics", jlist(&statics)),
            ("impls", jlist(&impls)),
            ("traits", jlist(&traits)),
            ("fns", jlist(&fns)),
        ]);
        let path = format!("{}/{}-{}.json", self.out_dir, cname, self.crate_type);
        let tmp = format!("{}.tmp{}", path, std::process::id());
        std::fs::write(&tmp, out).expect("guard-facts: cannot write fact file");
        std::fs::rename(&tmp, &path).expect("guard-facts: cannot rename fact file");
        Compilation::Continue
    }
}

fn main() {
    let mut args: Vec<String> = std::env::args().collect();
    // RUSTC_WORKSPACE_WRAPPER convention: argv[1] is the real rustc
    if args.len() > 1 && (args[1].ends_with("rustc") || args[1].contains("/rustc")) {
        args.remove(1);
    }
    let out_dir = std::env::var("GUARD_FACTS_OUT").unwrap_or_default();
    let mut crate_type = String::from("bin");
    let mut i = 0;
    while i < args.len() {
        if args[i] == "--crate-type" && i + 1 < args.len() {
            crate_type = if args[i + 1].contains("lib") { "lib".to_string() } else { "bin".to_string() };
        }
        i += 1;
    }
    let has_input = args.iter().any(|a| a.ends_with(".rs"));
    if out_dir.is_empty() || !has_input {
        struct Nop;
        impl rustc_driver::Callbacks for Nop {}
        rustc_driver::run_compiler(&args, &mut Nop);
        return;
    }
    let mut cb = Cb { out_dir, crate_type };
    rustc_driver::run_compiler(&args, &mut cb);
}

//! Positive controls for the static rules whose expected number of matches on cloudformation-guard is ZERO.
//! Every construct below is one that a rule must report; the checks run the same rule functions on the facts
//! extracted from this crate on every run and fail if a rule stays silent here (a rule that can no longer see
//! its construct would otherwise pass vacuously forever).  Nothing here is linked into or run with the repo.
#![allow(dead_code, static_mut_refs, clippy::all)]

use std::cell::RefCell;
use std::collections::HashMap;
use std::fs::OpenOptions;
use std::sync::atomic::AtomicUsize;
use std::sync::Mutex;

// ---- R-C12-no-global-state
pub static mut COUNTER: usize = 0;
pub static CACHE: Mutex<Vec<String>> = Mutex::new(Vec::new());
pub static HITS: AtomicUsize = AtomicUsize::new(0);
thread_local! {
    pub static SCRATCH: RefCell<Vec<u8>> = RefCell::new(Vec::new());
}

// ---- R-C19-output-starts-empty
pub fn open_for_output(path: &str) -> std::io::Result<std::fs::File> {
    OpenOptions::new().read(true).write(true).create(true).open(path)
}

pub fn open_appending(path: &str) -> std::io::Result<std::fs::File> {
    OpenOptions::new().append(true).create(true).open(path)
}

// ---- R-C05-hash-order: a loop over a std HashMap
pub fn hash_order(m: &HashMap<String, u32>) -> Vec<String> {
    let mut out = Vec::new();
    for (k, _) in m {
        out.push(k.clone());
    }
    out
}

// ---- R-C08-panic-sites: one of each construct family
pub fn panics(v: &[u32], o: Option<u32>, r: Result<u32, String>, s: &str, a: usize, b: usize) -> u32 {
    let x = v[a];
    let y = o.unwrap();
    let z = r.expect("boom");
    let w = &s[a..b];
    if w.is_empty() {
        unreachable!()
    }
    let q = a - b;
    x + y + z + (q as u32) / (b as u32)
}

// ---- R-C08-recursion: a cycle
pub fn ping(n: u32) -> u32 {
    if n == 0 { 0 } else { pong(n - 1) }
}
pub fn pong(n: u32) -> u32 {
    ping(n)
}

// ---- flow.backward_slice: a value rewritten on its way to a sink
pub fn rewritten(text: &str) -> String {
    let t = text.replace('\t', "    ");
    sink(&t)
}
pub fn sink(t: &str) -> String {
    t.to_string()
}

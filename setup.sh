#!/bin/bash
# Builds the fact extractor offline and primes the analysis cache from /repo's current tree.
set -e
cd "$(dirname "$0")"
export CARGO_NET_OFFLINE=true
(cd driver && cargo +nightly build --release --offline 2>&1 | tail -2)
python3 engine/facts.py
